"""Throw-away triage experiment used while writing DESIGN.md (section 5).
NOT part of any registered check: recheck percentage vs. an independent
piece-by-piece reference, random trees and random damage sets.
Run: [PYTHONPATH=<tree>] /venv/bin/python <this file> [N]"""
import os, sys, hashlib, shutil, io, random, tempfile, atexit
from contextlib import redirect_stdout
import pyben
from torrentfile.torrent import TorrentFile, TorrentAssembler
from torrentfile.recheck import Checker
root=tempfile.mkdtemp(prefix='tf-triage-'); atexit.register(shutil.rmtree, root, True)
B=16384
def mk(path, n, seed):
    os.makedirs(os.path.dirname(path), exist_ok=True)
    open(path,'wb').write(bytes(random.Random(seed).randrange(1,256) for _ in range(n)))
def q(f,*a,**k):
    with redirect_stdout(io.StringIO()):
        return f(*a,**k)
def rd(p, n):
    d=open(p,'rb').read()[:n] if os.path.exists(p) else b''
    return d+bytes(n-len(d))
def merkle(blocks):
    while len(blocks)>1: blocks=[hashlib.sha256(blocks[i]+blocks[i+1]).digest() for i in range(0,len(blocks),2)]
    return blocks[0]
def piece_hash_v2(data, pl, only_piece):
    leaves=[hashlib.sha256(data[i:i+B]).digest() for i in range(0,len(data),B)]
    if only_piece:
        n=1
        while n<len(leaves): n*=2
    else: n=pl//B
    return merkle(leaves+[bytes(32)]*(n-len(leaves)))
def ref_v1(meta, d):
    info=meta['info']; pl=info['piece length']
    files=[(d,info['length'])] if 'length' in info else [(os.path.join(d,*f['path']),f['length']) for f in info['files']]
    stream=b''.join(rd(p,n) for p,n in files); good=0
    for k in range(0,len(stream),pl):
        if hashlib.sha1(stream[k:k+pl]).digest()==bytes(info['pieces'][k//pl*20:k//pl*20+20]): good+=len(stream[k:k+pl])
    return good/len(stream)*100
def ref_v2(meta, d):
    info=meta['info']; pl=info['piece length']; layers=meta['piece layers']; good=tot=0
    def walk(tree, parts):
        nonlocal good, tot
        for k,v in tree.items():
            if '' in v:
                n=v['']['length']
                if not n: continue
                p=os.path.join(d,*parts,k) if 'length' not in info else d
                data=rd(p,n); root_=v['']['pieces root']
                rec=layers[root_] if n>pl else root_
                for j in range(0,n,pl):
                    h=piece_hash_v2(data[j:j+pl],pl,n<=pl); tot+=len(data[j:j+pl])
                    if h==bytes(rec[j//pl*32:j//pl*32+32]): good+=len(data[j:j+pl])
            else: walk(v, parts+[k])
    walk(info['file tree'],[])
    return good/tot*100
bad=n=0; N=int(sys.argv[1]) if len(sys.argv)>1 else 150
for trial in range(N):
    r=random.Random(trial); pl=r.choice([B,2*B]); base=f'{root}/t{trial}'; d=base+'/payload'
    single = trial%7==0
    names=[]
    if single: mk(d, r.choice([1,pl-1,pl,pl+1,3*pl,3*pl+5]), trial); names=['']
    else:
        for i in range(r.randrange(1,6)):
            nm=f"{r.choice(['a','b','s/c','z'])}{i}"; names.append(nm)
            mk(f"{d}/{nm}", r.choice([0,1,5,pl-1,pl,pl+1,2*pl,2*pl+1,3*pl-1,r.randrange(0,4*pl)]), trial*10+i)
        if sum(os.path.getsize(f'{d}/{x}') for x in names)==0: continue
    for cname,cls,kw,ref in (('v1',TorrentFile,{},ref_v1),('v2',TorrentAssembler,{},ref_v2),('hy',TorrentAssembler,{'meta_version':'3'},ref_v2)):
        mf=f'{base}.{cname}.torrent'; t=q(cls,path=d,piece_length=pl,progress=0,**kw); q(t.write,mf); meta=pyben.load(mf)
        for dmg in range(4):
            work=base+f'/w{cname}{dmg}'; 
            if single: os.makedirs(work); shutil.copy(d, work+'/payload')
            else: shutil.copytree(d, work+'/payload')
            w=work+'/payload'; rr=random.Random(trial*100+dmg)
            if dmg:
                for _ in range(rr.randrange(1,3)):
                    p=w if single else f"{w}/{rr.choice(names)}"
                    if not os.path.exists(p) or not os.path.getsize(p): continue
                    kind=rr.choice(['flip','trunc','rm'] if not single else ['flip','trunc'])
                    data=bytearray(open(p,'rb').read())
                    if kind=='flip': data[rr.randrange(len(data))]^=0xff; open(p,'wb').write(data)
                    elif kind=='trunc': open(p,'wb').write(data[:rr.randrange(len(data))])
                    else: os.remove(p)
            exp=ref(meta,w); n+=1
            try: got=q(lambda: Checker(mf, w if dmg%2 else work).results())
            except Exception as e: got=('EXC',type(e).__name__,str(e)[:40])
            if not isinstance(got,(int,float)) or abs(got-exp)>1e-9:
                bad+=1
                if bad<=10: print('MISMATCH',trial,cname,'single' if single else '','dmg',dmg,'expected',round(exp,4),'got',got)
            shutil.rmtree(work)
print('recheck differential: cases',n,'bad',bad)
