import os, sys, tempfile, shutil, random
sys.path.insert(0, "/repo")
from torrentfile.torrent import TorrentFile
from torrentfile.rebuild import Assembler
from torrentfile.recheck import Checker
random.seed(7)
bad = 0
for trial in range(12):
    tmp = tempfile.mkdtemp()
    try:
        PL = 16384
        root = os.path.join(tmp, "payload"); os.makedirs(os.path.join(root, "sub"))
        sizes = [random.choice([0, 1, 700, PL - 1, PL, PL + 1, 2 * PL, 2 * PL + 5, 3 * PL - 7]) for _ in range(random.randint(1, 5))]
        for i, sz in enumerate(sizes):
            open(os.path.join(root, "sub" if i % 2 else "", "f%d.bin" % i), "wb").write(os.urandom(sz))
        if not any(sizes):
            continue
        t = TorrentFile(path=root, piece_length=PL, outfile=os.path.join(tmp, "p.torrent"), align=True)
        t.write()
        s1 = os.path.join(tmp, "s1"); shutil.copytree(root, s1)
        dest = os.path.join(tmp, "dest"); os.makedirs(dest)
        Assembler([os.path.join(tmp, "p.torrent")], [s1], dest).assemble_torrents()
        ok = True
        for dp, dn, fn in os.walk(root):
            for f in fn:
                rel = os.path.relpath(os.path.join(dp, f), root)
                o = os.path.join(dest, "payload", rel)
                if not os.path.exists(o) or open(o, "rb").read() != open(os.path.join(dp, f), "rb").read():
                    ok = False; print("trial", trial, sizes, "missing/different", rel)
        extra = [os.path.join(dp, f) for dp, dn, fn in os.walk(dest) for f in fn if ".pad" in dp]
        if extra: ok = False; print("padding files written", extra)
        if ok:
            res = Checker(os.path.join(tmp, "p.torrent"), os.path.join(dest, "payload")).results()
            if res != 100: ok = False; print("recheck", res, sizes)
        bad += not ok
    finally:
        shutil.rmtree(tmp)
print("bad", bad); sys.exit(1 if bad else 0)
