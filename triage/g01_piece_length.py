"""Throw-away triage experiment used while writing DESIGN.md (section 5).
NOT part of any registered check: it runs the real code to show the failing
input of a genuine defect. Run: /venv/bin/python <this file>"""
import math
from torrentfile import utils
bad=[]
# C12 triage
for x in list(range(-5, 70000)) + [3*2**k for k in range(13,60)] + [5*2**k for k in range(12,60)]+[2**k+1 for k in range(14,70)]+[2**k-1 for k in range(15,70)]:
    try:
        r = utils.normalize_piece_length(x)
    except utils.PieceLengthValueError:
        r = None
    except Exception as e:
        r = ('EXC', type(e).__name__)
    ok_direct = x >= 16384 and x & (x-1) == 0
    if 14 <= x <= 25: exp = 2**x
    elif ok_direct: exp = x
    elif 26 <= x <= 29: exp = 'either'
    else: exp = None
    if exp == 'either':
        if r not in (None, 2**x): bad.append((x, r))
    elif r != exp: bad.append((x, r, exp))
print(len(bad), bad[:40])
for s in ["²", "١٤", "14", " 14", "1e5", "-14", "", "16384", "0x4000"]:
    try: print(repr(s), utils.normalize_piece_length(s))
    except Exception as e: print(repr(s), type(e).__name__, e)
# scattered float set
import random
random.seed(1)
cnt=0; ex=[]
for _ in range(200000):
    x = random.randrange(16385, 2**40)
    if 2**math.log2(x) == x and x & (x-1):
        cnt+=1; ex.append(x)
print("float false accepts", cnt, ex[:10])
