#!/venv/bin/python
"""Triage G29 (run by hand): a single-file torrent whose parent directory has the same name as the file, rechecked with the
parent directory as content path (C05: the verdict is the same for the payload root and for its parent).
usage: g29_recheck_single_file_parent_same_name.py [repo root]   (default /repo)
"""
import os
import shutil
import sys
import tempfile

repo = sys.argv[1] if len(sys.argv) > 1 else "/repo"
sys.path.insert(0, repo)
from torrentfile.torrent import TorrentFile, TorrentFileV2, TorrentFileHybrid  # noqa: E402
from torrentfile.recheck import Checker  # noqa: E402

tmp = tempfile.mkdtemp()
bad = 0
try:
    d = os.path.join(tmp, "data.bin")
    os.makedirs(d)
    f = os.path.join(d, "data.bin")
    open(f, "wb").write(bytes((i * 11 + 5) % 253 for i in range(70000)))
    for cls in (TorrentFile, TorrentFileV2, TorrentFileHybrid):
        t = os.path.join(tmp, cls.__name__ + ".torrent")
        cls(path=f, outfile=t, piece_length=16384).write()
        for content, label in ((f, "file"), (d, "parent")):
            try:
                res = Checker(t, content).results()
            except Exception as exc:  # noqa
                res = "raised %r" % exc
            ok = res == 100
            bad += not ok
            print("\n%s content=%s -> %s%s" % (cls.__name__, label, res, "" if ok else "   <-- expected 100"))
finally:
    shutil.rmtree(tmp, ignore_errors=True)
print("G29", "REPRODUCED" if bad else "not reproduced")
sys.exit(1 if bad else 0)
