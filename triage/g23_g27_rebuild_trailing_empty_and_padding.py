import os, sys, tempfile, shutil
sys.path.insert(0, "/repo")
from torrentfile.torrent import TorrentFile
from torrentfile.rebuild import Assembler
from torrentfile.recheck import Checker
tmp = tempfile.mkdtemp()
mode = sys.argv[1]
try:
    PL = 16384
    root = os.path.join(tmp, "payload"); os.makedirs(root)
    if mode == "empty-last":
        open(os.path.join(root, "a.bin"), "wb").write(os.urandom(PL))      # ends exactly on a piece boundary
        open(os.path.join(root, "z.empty"), "wb").close()                  # trailing empty file
        kw = {}
    else:
        open(os.path.join(root, "a.bin"), "wb").write(os.urandom(PL + 10))
        open(os.path.join(root, "b.bin"), "wb").write(os.urandom(700))
        kw = {"align": True}
    t = TorrentFile(path=root, piece_length=PL, outfile=os.path.join(tmp, "p.torrent"), **kw)
    t.write()
    s1 = os.path.join(tmp, "s1"); shutil.copytree(root, s1)
    dest = os.path.join(tmp, "dest"); os.makedirs(dest)
    asm = Assembler([os.path.join(tmp, "p.torrent")], [s1], dest)
    n = asm.assemble_torrents()
    missing = [f for f in os.listdir(root) if not os.path.exists(os.path.join(dest, "payload", f))]
    print(mode, "counted", n, "missing in destination:", missing)
    sys.exit(1 if missing else 0)
finally:
    shutil.rmtree(tmp)
