import os, sys, tempfile, shutil, hashlib
sys.path.insert(0, "/repo")
import torrentfile
from torrentfile.torrent import TorrentFile
from torrentfile.rebuild import Assembler
from torrentfile.recheck import Checker
print(torrentfile.__file__)
tmp = tempfile.mkdtemp()
try:
    PL = 16384
    root = os.path.join(tmp, "payload"); os.makedirs(root)
    good = os.urandom(PL) + os.urandom(PL) + os.urandom(100)
    open(os.path.join(root, "a.bin"), "wb").write(good)
    open(os.path.join(root, "b.bin"), "wb").write(os.urandom(500))
    t = TorrentFile(path=root, piece_length=PL, outfile=os.path.join(tmp, "p.torrent"))
    t.write()
    # search dirs: decoy (same first piece, different tail) listed first, intact copy second
    s1 = os.path.join(tmp, "s1"); s2 = os.path.join(tmp, "s2"); os.makedirs(s1); os.makedirs(s2)
    decoy = good[:PL] + bytes(len(good) - PL)
    open(os.path.join(s1, "a.bin"), "wb").write(decoy)
    shutil.copy(os.path.join(root, "a.bin"), os.path.join(s2, "a.bin"))
    shutil.copy(os.path.join(root, "b.bin"), os.path.join(s2, "b.bin"))
    dest = os.path.join(tmp, "dest"); os.makedirs(dest)
    asm = Assembler([os.path.join(tmp, "p.torrent")], [s1, s2], dest)
    n = asm.assemble_torrents()
    out = os.path.join(dest, "payload", "a.bin")
    same = os.path.exists(out) and open(out, "rb").read() == good
    res = Checker(os.path.join(tmp, "p.torrent"), os.path.join(dest, "payload")).results()
    print("counted", n, "a.bin intact:", same, "recheck:", res)
    sys.exit(0 if same and res == 100 else 1)
finally:
    shutil.rmtree(tmp)
