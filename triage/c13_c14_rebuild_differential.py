"""Throw-away triage experiment used while writing DESIGN.md (section 5).
NOT part of any registered check: random differential run of rebuild
(v1 / v2 / hybrid; decoys; files on piece boundaries; single files; several
search directories).  Run: [PYTHONPATH=<tree>] /venv/bin/python <this file>"""
import os, sys, hashlib, shutil, io, random, tempfile, atexit
from contextlib import redirect_stdout
from torrentfile.torrent import TorrentFile, TorrentAssembler
from torrentfile.rebuild import Assembler
root=tempfile.mkdtemp(prefix='tf-triage-'); atexit.register(shutil.rmtree, root, True)
B=16384
def mk(path, n, seed):
    os.makedirs(os.path.dirname(path), exist_ok=True)
    open(path,'wb').write(random.Random(seed).randbytes(n))
def q(f,*a,**k):
    with redirect_stdout(io.StringIO()):
        return f(*a,**k)
def snap(d):
    out={}
    for r,ds,fs in os.walk(d):
        for f in fs:
            p=os.path.join(r,f); out[os.path.relpath(p,d)]=hashlib.sha1(open(p,'rb').read()).hexdigest()
    return out
bad=0; n=0
N=int(sys.argv[1]) if len(sys.argv)>1 else 120
for trial in range(N):
    r=random.Random(trial); base=f'{root}/t{trial}'; pl=r.choice([B,2*B])
    single = trial%6==0
    src=base+'/orig/payload'
    if single:
        mk(src, r.choice([1,B,pl,pl+1,3*pl,3*pl+5]), trial)
    else:
        used=set()
        for i in range(r.randrange(1,6)):
            nm=r.choice(['a','b','s/c','s/d','t/u/e','z'])+str(i)
            mk(f'{src}/{nm}', r.choice([0,1,5,pl-1,pl,pl+1,2*pl,2*pl+1,3*pl-1,4*pl,r.randrange(0,4*pl)]), trial*10+i)
    for cname,cls,kw in (('v1',TorrentFile,{}),('v2',TorrentAssembler,{}),('hy',TorrentAssembler,{'meta_version':'3'})):
        mf=f'{base}/{cname}.torrent'
        t=q(cls,path=src,piece_length=pl,progress=0,**kw); q(t.write,mf)
        # scatter sources over two search dirs, flat, with decoys
        s1,s2=f'{base}/{cname}_s1',f'{base}/{cname}_s2'
        want=snap(os.path.dirname(src))
        files=[os.path.join(rr,f) for rr,_,fs in os.walk(os.path.dirname(src)) for f in fs]
        for k,p in enumerate(files):
            tgt=(s1 if k%2 else s2)+f'/x{k}/deep/'+os.path.basename(p)
            os.makedirs(os.path.dirname(tgt),exist_ok=True); shutil.copy(p,tgt)
            if os.path.getsize(p) and r.random()<0.5:
                dec=(s1 if k%2 else s2)+f'/0decoy{k}/'+os.path.basename(p)
                mk(dec, os.path.getsize(p), 999+k)
        before=(snap(s1) if os.path.exists(s1) else {}, snap(s2) if os.path.exists(s2) else {})
        dest=f'{base}/{cname}_dest'; os.makedirs(dest)
        try:
            cnt=q(lambda: Assembler([mf],[p for p in (s1,s2) if os.path.exists(p)],dest).assemble_torrents())
        except Exception as e:
            cnt=('EXC',type(e).__name__,str(e)[:50])
        got=snap(dest); n+=1
        after=(snap(s1) if os.path.exists(s1) else {}, snap(s2) if os.path.exists(s2) else {})
        if got!=want or before!=after:
            bad+=1
            if bad<=12: print('MISMATCH',trial,cname,'single' if single else '', 'count',cnt,'missing',sorted(set(want)-set(got))[:4],'extra',sorted(set(got)-set(want))[:4], 'src changed' if before!=after else '')
print('rebuild differential: cases',n,'bad',bad)
