"""Throw-away triage experiment used while writing DESIGN.md (section 5).
NOT part of any registered check: it runs the real code to show the failing
input of a genuine defect. Run: /venv/bin/python <this file>"""
import os, sys, hashlib, shutil, io, random, textwrap
from contextlib import redirect_stdout
from urllib.parse import urlparse, parse_qsl, unquote_plus, unquote
import pyben
from torrentfile.torrent import TorrentFile, TorrentAssembler
from torrentfile.commands import magnet
from torrentfile import execute
import tempfile, atexit
root=tempfile.mkdtemp(prefix='tf-triage-'); atexit.register(shutil.rmtree, root, True)
def mk(path, n, seed=1):
    os.makedirs(os.path.dirname(path), exist_ok=True)
    r=random.Random(seed)
    open(path,'wb').write(bytes(r.randrange(1,256) for _ in range(n)))
PL=16384
def q(f,*a,**k):
    with redirect_stdout(io.StringIO()):
        return f(*a,**k)
d=root+'/m 1&=%+#é'; shutil.rmtree(d,ignore_errors=True); mk(d+'/a',PL+1,1)
out=root+'/m.torrent'
t=q(TorrentAssembler,path=d,piece_length=PL,progress=0,meta_version='3',announce=['http://t/a?x=1&y=2','udp://t2:80/ann ounce'],url_list=['http://w/é+#'])
q(t.write,out)
raw=open(out,'rb').read()
i=raw.index(b'4:infod')+6
# find info span using pyben re-encode
info=pyben.dumps(pyben.load(out)['info'])
assert info in raw
for v in (0,1,2,3):
    m=q(magnet,out,version=v)
    print(v, m[:60], '...')
    qs=m[len('magnet:?'):]
    pairs=[(k,unquote_plus(vv)) for k,vv in (p.split('=',1) for p in qs.split('&'))]
    print('   ', [(k,v2) for k,v2 in pairs if k!='xt'])
    print('   btih ok', ('xt','urn:btih:'+hashlib.sha1(info).hexdigest()) in pairs, 'btmh ok', ('xt','urn:btmh:1220'+hashlib.sha256(info).hexdigest()) in pairs)
# no announce: tr param?
t=q(TorrentFile,path=d,piece_length=PL,progress=0); q(t.write,out)
print(q(magnet,out))
# C20 config
cfg=root+'/torrentfile.ini'
open(cfg,'w').write(textwrap.dedent("""
[config]
announce =
    http://a/1
    http://a/2
web-seed =
    http://w/1
http-seed =
    http://h/1
private = true
source = src
comment = some comment
piece-length = 15
meta-version = 2
out = %s/cfgout.torrent
align = true
""" % root))
q(execute,['create','--config','--config-path',cfg,'-o',root+'/c20a.torrent',d])
ma=pyben.load(root+'/cfgout.torrent' if os.path.exists(root+'/cfgout.torrent') else root+'/c20a.torrent')  # 'out' in the config wins once it is honoured
print({k:(v if k!='info' else {kk:vv for kk,vv in v.items() if kk not in ('pieces','file tree','files')}) for k,v in ma.items() if k!='piece layers'})
print('config out honoured:', os.path.exists(root+'/cfgout.torrent'))
q(execute,['create','-a','http://a/1','http://a/2','--web-seed','http://w/1','--http-seed','http://h/1','--private','--source','src','--comment','some comment','--piece-length','15','--meta-version','2','-o',root+'/c20b.torrent',d])
mb=pyben.load(root+'/c20b.torrent')
print({k:(v if k!='info' else {kk:vv for kk,vv in v.items() if kk not in ('pieces','file tree','files')}) for k,v in mb.items() if k!='piece layers'})
# list-valued flag before positional
q(execute,['create','--web-seed','http://w/1','http://w/2',d, '-o',root+'/c20c.torrent'])
mc=pyben.load(root+'/c20c.torrent'); print(mc.get('url-list'), mc['info']['name'])
q(execute,['create','-a','http://a/1',d, '-o',root+'/c20d.torrent'])
mc=pyben.load(root+'/c20d.torrent'); print(mc.get('announce'), mc.get('announce-list'), mc['info']['name'])
