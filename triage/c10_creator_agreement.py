"""Throw-away triage experiment used while writing DESIGN.md (section 5).
NOT part of any registered check: it runs the real code to show the failing
input of a genuine defect. Run: /venv/bin/python <this file>"""
import os, sys, hashlib, shutil, io, random
from contextlib import redirect_stdout
import pyben
from torrentfile.torrent import TorrentFile, TorrentFileV2, TorrentFileHybrid, TorrentAssembler
import tempfile, atexit
root=tempfile.mkdtemp(prefix='tf-triage-'); atexit.register(shutil.rmtree, root, True)
shutil.rmtree(root,ignore_errors=True)
def mk(path, n, seed=1):
    os.makedirs(os.path.dirname(path), exist_ok=True)
    open(path,'wb').write(random.Random(seed).randbytes(n))
def q(f,*a,**k):
    with redirect_stdout(io.StringIO()):
        return f(*a,**k)
B=16384
bad=0
for trial in range(80):
    r=random.Random(trial); d=f'{root}/t{trial}'; pl=r.choice([B,2*B,4*B])
    single = trial%5==0
    if single:
        d=d+'/f'; mk(d, r.choice([0,1,B,pl-1,pl,pl+1,3*pl,3*pl+5]), trial)
    else:
        for i in range(r.randrange(1,6)):
            nm=r.choice(['a','b','s/c','s/d','t/u/e','z'])+str(i)
            mk(f'{d}/{nm}', r.choice([0,1,5,pl-1,pl,pl+1,2*pl,2*pl+1,B-1,3*pl-1,5*pl,r.randrange(0,6*pl)]), trial*10+i)
    def norm(t):
        m=t.sort_meta(); m.pop('creation date'); return pyben.dumps(m)
    try:
        a=norm(q(TorrentFileV2,path=d,piece_length=pl,progress=0)); b=norm(q(TorrentAssembler,path=d,piece_length=pl,progress=0))
        c=norm(q(TorrentFileHybrid,path=d,piece_length=pl,progress=0)); e=norm(q(TorrentAssembler,path=d,piece_length=pl,progress=0,meta_version='3'))
    except Exception as ex:
        print('EXC',trial,single,type(ex).__name__,ex); bad+=1; continue
    if a!=b or c!=e:
        bad+=1; print('DIFF',trial,single,a==b,c==e)
print('bad',bad)
