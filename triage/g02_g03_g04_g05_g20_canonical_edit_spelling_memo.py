"""Throw-away triage experiment used while writing DESIGN.md (section 5).
NOT part of any registered check: it runs the real code to show the failing
input of a genuine defect. Run: /venv/bin/python <this file>"""
import os, sys, hashlib, shutil, io, random
from contextlib import redirect_stdout
import pyben
from torrentfile.torrent import TorrentFile, TorrentFileV2, TorrentFileHybrid, TorrentAssembler
from torrentfile import utils, execute
from torrentfile.edit import edit_torrent
import tempfile, atexit
root=tempfile.mkdtemp(prefix='tf-triage-'); atexit.register(shutil.rmtree, root, True)
def mk(path, n, seed=1):
    os.makedirs(os.path.dirname(path), exist_ok=True)
    r=random.Random(seed)
    open(path,'wb').write(bytes(r.randrange(1,256) for _ in range(n)))
PL=16384
def q(f,*a,**k):
    with redirect_stdout(io.StringIO()):
        return f(*a,**k)
# strict canonical check
def canon(b):
    def dec(i):
        c=b[i:i+1]
        if c==b'i':
            j=b.index(b'e',i); s=b[i+1:j]
            assert s==str(int(s)).encode(), ('int',s)
            return int(s), j+1
        if c==b'l':
            i+=1; out=[]
            while b[i:i+1]!=b'e':
                v,i=dec(i); out.append(v)
            return out,i+1
        if c==b'd':
            i+=1; out={}; last=None
            while b[i:i+1]!=b'e':
                k,i=dec(i); assert isinstance(k,bytes)
                assert last is None or k>last, ('order',last,k)
                last=k
                v,i=dec(i); out[k]=v
            return out,i+1
        j=b.index(b':',i); n=int(b[i:j]); assert b[i:j]==str(n).encode()
        return b[j+1:j+1+n], j+1+n
    v,i=dec(0); assert i==len(b); return v
# C06: piece layers order
d=root+'/c6'; shutil.rmtree(d,ignore_errors=True)
for i in range(6): mk(f'{d}/f{i}', PL*2+1, i)
out=root+'/c6.torrent'
for cls,kw in ((TorrentAssembler,{}),(TorrentFileV2,{}),(TorrentFileHybrid,{}),(TorrentAssembler,{'meta_version':'3'})):
    t=q(cls,path=d,piece_length=PL,progress=0,**kw); q(t.write,out)
    try: canon(open(out,'rb').read()); print(cls.__name__,kw,'canonical')
    except AssertionError as e: print(cls.__name__,kw,'NONCANON',str(e)[:60])
# edit ordering
t=q(TorrentFile,path=d,piece_length=PL,progress=0); q(t.write,out)
edit_torrent(out,{'announce':'http://x','comment':'zz'})
try: canon(open(out,'rb').read()); print('edit canonical')
except AssertionError as e: print('edit NONCANON',str(e)[:80])
# C07 CLI edit sets private
t=q(TorrentFile,path=d,piece_length=PL,progress=0); q(t.write,out)
q(execute,['edit',out,'--comment','hi'])
print('private after CLI edit naming only comment:', pyben.load(out)['info'].get('private'))
# C08 spellings
for sp in [d, d+'/', d+'/.', d+'//', os.path.dirname(d)+'/./c6', d+'/../c6']:
    for cls,kw in ((TorrentFile,{}),(TorrentAssembler,{'meta_version':'3'})):
        try:
            t=q(cls,path=sp,piece_length=PL,progress=0,**kw)
            print(repr(sp[-12:]), cls.__name__, repr(t.meta['info']['name']), hashlib.sha1(pyben.dumps(t.sort_meta()['info'])).hexdigest()[:8])
        except Exception as e: print(repr(sp[-12:]), cls.__name__, 'EXC', type(e).__name__, e)
os.chdir(d)
for cls,kw in ((TorrentFile,{}),(TorrentAssembler,{'meta_version':'3'})):
    try:
        t=q(cls,path='.',piece_length=PL,progress=0,**kw)
        print("'.'", cls.__name__, repr(t.meta['info']['name']))
    except Exception as e: print("'.'", cls.__name__, 'EXC', type(e).__name__, e)
os.chdir('/')
# C09 memo staleness
d9=root+'/c9'; shutil.rmtree(d9,ignore_errors=True)
mk(d9+'/a',100,1)
t=q(TorrentFile,path=d9,piece_length=PL,progress=0)
mk(d9+'/b',100,2)
t2=q(TorrentFile,path=d9,piece_length=PL,progress=0)
print('C09 files after add:', [f['path'] for f in t2.meta['info']['files']])
