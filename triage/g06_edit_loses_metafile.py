"""Throw-away triage experiment used while writing DESIGN.md (section 5).
NOT part of any registered check: it runs the real code to show the failing
input of a genuine defect. Run: /venv/bin/python <this file>"""
import os, io, shutil
from contextlib import redirect_stdout
import pyben
from torrentfile.edit import edit_torrent
import tempfile, atexit
root=tempfile.mkdtemp(prefix='tf-triage-'); atexit.register(shutil.rmtree, root, True)
mf=root+'/x.torrent'
pyben.dump({'announce':'a','info':{'length':1,'name':'x','piece length':16384,'pieces':b'\x00'*20}}, mf)
# C17: unencodable value -> file lost?
try:
    edit_torrent(mf, {'comment': 3.5})
except Exception as e:
    print('edit raised', type(e).__name__, '| metafile exists afterwards:', os.path.exists(mf))
