"""Throw-away triage experiment used while writing DESIGN.md (section 5).
NOT part of any registered check: it runs the real code to show the failing
input of a genuine defect. Run: /venv/bin/python <this file>"""
import os, sys, hashlib, shutil, io, random, itertools
from contextlib import redirect_stdout
import pyben
from torrentfile.torrent import TorrentFile, TorrentFileV2, TorrentFileHybrid, TorrentAssembler
from torrentfile.hasher import HasherV2, HasherHybrid, FileHasher
import tempfile, atexit
root=tempfile.mkdtemp(prefix='tf-triage-'); atexit.register(shutil.rmtree, root, True)
shutil.rmtree(root,ignore_errors=True)
def mk(path, n, seed=1):
    os.makedirs(os.path.dirname(path), exist_ok=True)
    r=random.Random(seed)
    open(path,'wb').write(r.randbytes(n))
def q(f,*a,**k):
    with redirect_stdout(io.StringIO()):
        return f(*a,**k)
B=16384
def ref_root(data, pl):
    # BEP52
    if not data: return None, b''
    leaves=[hashlib.sha256(data[i:i+B]).digest() for i in range(0,len(data),B)]
    bpp=pl//B
    if len(data) <= pl:
        n=1
        while n < len(leaves): n*=2
        layer=leaves+[bytes(32)]*(n-len(leaves))
        while len(layer)>1: layer=[hashlib.sha256(layer[i]+layer[i+1]).digest() for i in range(0,len(layer),2)]
        return layer[0], b''
    pieces=[]
    for i in range(0,len(leaves),bpp):
        layer=leaves[i:i+bpp]; layer+= [bytes(32)]*(bpp-len(layer))
        while len(layer)>1: layer=[hashlib.sha256(layer[j]+layer[j+1]).digest() for j in range(0,len(layer),2)]
        pieces.append(layer[0])
    pl_layer=b''.join(pieces)
    pad=[bytes(32)]*bpp
    while len(pad)>1: pad=[hashlib.sha256(pad[j]+pad[j+1]).digest() for j in range(0,len(pad),2)]
    n=1
    while n<len(pieces): n*=2
    layer=pieces+[pad[0]]*(n-len(pieces))
    while len(layer)>1: layer=[hashlib.sha256(layer[j]+layer[j+1]).digest() for j in range(0,len(layer),2)]
    return layer[0], pl_layer
bad=0; n=0
for pl in (B, 2*B, 4*B):
    sizes=sorted(set([1,B-1,B,B+1,pl-1,pl,pl+1,2*pl-1,2*pl,2*pl+1,3*pl,3*pl+1,5*pl-B,5*pl,7*pl+3, pl-B+1, pl//2+1]))
    for s in sizes:
        p=f'{root}/f{s}'; mk(p,s,s)
        data=open(p,'rb').read()
        r,l=ref_root(data,pl)
        h2=q(HasherV2,p,pl,progress=0, progress_bar=type('N',(),{'update':lambda s,v:None})())
        hh=q(HasherHybrid,p,pl,progress=0, progress_bar=type('N',(),{'update':lambda s,v:None})())
        fh=FileHasher(p,pl,progress=0,hybrid=True, progress_bar=type('N',(),{'update':lambda s,v:None})()); res=list(fh)
        n+=1
        layer_fh=b''.join(x[0] for x in res)
        ok=(h2.root==r==hh.root==fh.root)
        okl = all((x if s>pl else b'')==l for x in (h2.piece_layer, hh.piece_layer, layer_fh))
        okp = hh.pieces==[x[1] for x in res]
        if not (ok and okl and okp):
            bad+=1; print('MISMATCH',pl,s,ok,okl,okp, h2.root==r, hh.root==r, fh.root==r)
print('hashers checked',n,'bad',bad)
# v1 reference
def ref_v1(files, pl):
    stream=b''.join(open(f,'rb').read() for f in files)
    return b''.join(hashlib.sha1(stream[i:i+pl]).digest() for i in range(0,len(stream),pl))
bad=0;n=0
for trial in range(60):
    r=random.Random(trial)
    d=f'{root}/v1_{trial}'
    pl=r.choice([B,2*B])
    names=[]
    for i in range(r.randrange(1,6)):
        nm=r.choice(['a','b','s/c','s/d','t/u/e','z','0','A','s.x'])+str(i)
        sz=r.choice([0,1,5,pl-1,pl,pl+1,2*pl,2*pl+1,B-1,3*pl-1, r.randrange(0,3*pl)])
        mk(f'{d}/{nm}',sz,trial*10+i); names.append(nm)
    t=q(TorrentFile,path=d,piece_length=pl,progress=0)
    info=t.meta['info']
    files=[os.path.join(d,*f['path']) for f in info['files']]
    all_files=sorted(os.path.join(r_,f) for r_,_,fs in os.walk(d) for f in fs)
    n+=1
    if sum(os.path.getsize(f) for f in all_files)==0: continue
    ok = sorted(files)==all_files and len(set(files))==len(files) and all(os.path.getsize(p)==f['length'] for p,f in zip(files,info['files'])) and bytes(info['pieces'])==ref_v1(files,pl) and info['piece length']==pl
    if not ok: bad+=1; print('V1 MISMATCH',trial,[ (f['path'],f['length']) for f in info['files']], len(info['pieces'])//20)
print('v1 checked',n,'bad',bad)
