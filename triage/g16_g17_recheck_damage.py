"""Throw-away triage experiment used while writing DESIGN.md (section 5).
NOT part of any registered check: it runs the real code to show the failing
input of a genuine defect. Run: /venv/bin/python <this file>"""
import os, sys, hashlib, shutil, io, random
from contextlib import redirect_stdout
import pyben
from torrentfile.torrent import TorrentFile, TorrentFileV2, TorrentFileHybrid, TorrentAssembler
from torrentfile.recheck import Checker
from torrentfile import utils
import tempfile, atexit
root=tempfile.mkdtemp(prefix='tf-triage-'); atexit.register(shutil.rmtree, root, True)
def mk(path, n, seed=1):
    os.makedirs(os.path.dirname(path), exist_ok=True)
    r=random.Random(seed)
    open(path,'wb').write(bytes(r.randrange(1,256) for _ in range(n)))
PL=16384
def build(name, sizes):
    d=f'{root}/{name}/payload'
    shutil.rmtree(f'{root}/{name}', ignore_errors=True)
    for i,(fn,n) in enumerate(sizes): mk(d+'/'+fn, n, i+7)
    return d
def create(cls, d, out, **kw):
    with redirect_stdout(io.StringIO()):
        t=cls(path=d, piece_length=PL, progress=0, **kw); t.write(out)
    return out
def chk(mf, p):
    try:
        with redirect_stdout(io.StringIO()):
            return Checker(mf, p).results()
    except Exception as e:
        return ('EXC', type(e).__name__, str(e)[:80])
layouts = {
 'L1': [('a',PL+5),('b',10),('c',0),('d',2*PL)],
 'L2': [('a',0),('b',PL*2),('c',5)],
 'L3': [('a',100),('b',0),('z',PL*3+1)],
 'L4': [('a',PL),('b',PL)],
 'L5': [('a',5),('b',0)],
 'L6': [('sub/a',PL*2+3),('sub/b',0),('t/c',1)],
}
for ln, sizes in layouts.items():
  for cname,cls,kw in (('v1',TorrentFile,{}),('v2',TorrentAssembler,{}),('hy',TorrentAssembler,{'meta_version':'3'}),('v2c',TorrentFileV2,{}),('hyc',TorrentFileHybrid,{})):
    d=build(ln, sizes)
    mf=create(cls,d,f'{root}/{ln}.{cname}.torrent',**kw)
    r1=chk(mf,d); r2=chk(mf,os.path.dirname(d))
    out=[ln,cname,'intact',r1,r2]
    # damage: for each file: flip last byte / truncate / remove
    for fn,n in sizes:
        if n==0: continue
        p=d+'/'+fn
        orig=open(p,'rb').read()
        b=bytearray(orig); b[-1]^=0xff; open(p,'wb').write(b)
        out.append((fn,'flip',chk(mf,d)))
        open(p,'wb').write(orig[:-1])
        out.append((fn,'trunc',chk(mf,d)))
        os.remove(p)
        out.append((fn,'rm',chk(mf,d)))
        open(p,'wb').write(orig)
    print(out)
