"""Throw-away triage experiment used while writing DESIGN.md (section 5).
NOT part of any registered check: aligned v1 metafiles vs. reference hashing
of the padded stream.  Run: [PYTHONPATH=<tree>] /venv/bin/python <this file>"""
import os, sys, hashlib, shutil, io, random, tempfile, atexit
from contextlib import redirect_stdout
from torrentfile.torrent import TorrentFile
root=tempfile.mkdtemp(prefix='tf-triage-'); atexit.register(shutil.rmtree, root, True)
B=16384
def mk(path, n, seed):
    os.makedirs(os.path.dirname(path), exist_ok=True)
    open(path,'wb').write(random.Random(seed).randbytes(n))
def q(f,*a,**k):
    with redirect_stdout(io.StringIO()):
        return f(*a,**k)
bad=n=0
for trial in range(150):
    r=random.Random(trial); d=f'{root}/t{trial}'; pl=r.choice([B,2*B])
    single = trial%7==0
    if single:
        d=d+'/f'; mk(d, r.choice([1,pl-1,pl,pl+1,3*pl,3*pl+5]), trial)
    else:
        for i in range(r.randrange(1,6)):
            mk(f"{d}/{r.choice(['a','b','s/c','z'])}{i}", r.choice([0,1,5,pl-1,pl,pl+1,2*pl,2*pl+1,3*pl-1,r.randrange(0,4*pl)]), trial*10+i)
    t=q(TorrentFile,path=d,piece_length=pl,progress=0,align=True); info=t.meta['info']; n+=1
    if single:
        stream=open(d,'rb').read(); ok = info['length']==len(stream)
    else:
        stream=b''; ok=True; prev_real=False
        for f in info['files']:
            if f.get('attr')=='p':
                ok &= (len(stream)+f['length'])%pl==0 and 0<f['length']<pl
                stream+=bytes(f['length'])
            else:
                ok &= len(stream)%pl==0
                data=open(os.path.join(d,*f['path']),'rb').read(); ok &= len(data)==f['length']; stream+=data
    ref=b''.join(hashlib.sha1(stream[i:i+pl]).digest() for i in range(0,len(stream),pl))
    if not ok or bytes(info['pieces'])!=ref:
        bad+=1
        if bad<6: print('MISMATCH',trial,'single' if single else '',ok,[(f.get('attr'),f['length']) for f in info.get('files',[])])
print('align differential: cases',n,'bad',bad)
