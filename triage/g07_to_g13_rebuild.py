"""Throw-away triage experiment used while writing DESIGN.md (section 5).
NOT part of any registered check: it runs the real code to show the failing
input of a genuine defect. Run: /venv/bin/python <this file>"""
import os, sys, hashlib, shutil, io, random
from contextlib import redirect_stdout
import pyben
from torrentfile.torrent import TorrentFile, TorrentAssembler
from torrentfile.rebuild import Assembler
from torrentfile.recheck import Checker
import tempfile, atexit
root=tempfile.mkdtemp(prefix='tf-triage-'); atexit.register(shutil.rmtree, root, True)
def mk(path, n, seed=1):
    os.makedirs(os.path.dirname(path), exist_ok=True)
    r=random.Random(seed)
    open(path,'wb').write(bytes(r.randrange(1,256) for _ in range(n)))
PL=16384
def q(f,*a,**k):
    with redirect_stdout(io.StringIO()):
        return f(*a,**k)
def tree(d):
    out={}
    for r,ds,fs in os.walk(d):
        for f in fs:
            p=os.path.join(r,f); out[os.path.relpath(p,d)]=os.path.getsize(p)
    return out
def run(name, sizes, cls, kw, decoy=False):
    base=f'{root}/{name}'; shutil.rmtree(base,ignore_errors=True)
    d=base+'/src/payload'
    for i,(fn,n) in enumerate(sizes): mk(d+'/'+fn,n,i+3)
    if decoy:
        for i,(fn,n) in enumerate(sizes): mk(base+'/src/0decoy/'+os.path.basename(fn),n,i+100)
    mf=base+'/p.torrent'
    t=q(cls,path=d,piece_length=PL,progress=0,**kw); q(t.write,mf)
    dest=base+'/dest'; os.makedirs(dest)
    try:
        n=q(lambda: Assembler([mf],[base+'/src'],dest).assemble_torrents())
    except Exception as e:
        n=('EXC',type(e).__name__,str(e)[:60])
    print(name, cls.__name__, kw, 'decoy' if decoy else '', 'count',n,'dest',tree(dest))
L=[('a',PL*2),('b',PL*2)]
run('r1',L,TorrentFile,{})
run('r1',L,TorrentAssembler,{})
run('r1',L,TorrentAssembler,{'meta_version':'3'})
L2=[('a',PL+5),('b',100),('s/c',3*PL+1)]
run('r2',L2,TorrentFile,{})
run('r2',L2,TorrentFile,{},decoy=True)
run('r2',L2,TorrentAssembler,{})
L3=[('a',PL+5),('e',0),('s/c',3*PL+1)]
run('r3',L3,TorrentFile,{})
run('r3',L3,TorrentAssembler,{})
# C19 traversal: craft v1 metafile with name '../evil'
base=f'{root}/r4'; shutil.rmtree(base,ignore_errors=True)
mk(base+'/src/x.bin', 100, 5)
data=open(base+'/src/x.bin','rb').read()
meta={'info':{'length':100,'name':'x.bin','piece length':PL,'pieces':hashlib.sha1(data).digest()}}
meta2={'info':{'files':[{'length':100,'path':['..','..','escaped','x.bin']}],'name':'n','piece length':PL,'pieces':hashlib.sha1(data).digest()}}
os.makedirs(base+'/dest/inner')
pyben.dump(meta2, base+'/m.torrent')
try:
    n=q(lambda: Assembler([base+'/m.torrent'],[base+'/src'],base+'/dest/inner').assemble_torrents())
except Exception as e: n=('EXC',type(e).__name__,str(e))
print('C19', n, tree(base))
