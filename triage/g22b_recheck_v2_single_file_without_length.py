#!/venv/bin/python
"""Triage G22 (second script) (run by hand, not a registered check): recheck of a pure v2 single-file metafile written by a
specification-conformant encoder (BEP 52: no `length` key in info, file tree = {name: {"": {length, pieces root}}}).

Expected by C05: 100 for the intact file, whether the content path is the file or its parent directory.
usage: g22b_recheck_v2_single_file_without_length.py [repo root]   (default /repo)
"""
import hashlib
import os
import shutil
import sys
import tempfile

repo = sys.argv[1] if len(sys.argv) > 1 else "/repo"
sys.path.insert(0, repo)
import pyben  # noqa: E402
from torrentfile.recheck import Checker  # noqa: E402

BLOCK = 16384


def merkle(hashes, pad):
    n = 1
    while n < len(hashes):
        n *= 2
    hashes = list(hashes) + [pad] * (n - len(hashes))
    while len(hashes) > 1:
        hashes = [hashlib.sha256(hashes[i] + hashes[i + 1]).digest() for i in range(0, len(hashes), 2)]
    return hashes[0]


def v2_file(data, plen):
    blocks = [hashlib.sha256(data[i:i + BLOCK]).digest() for i in range(0, len(data), BLOCK)]
    per = plen // BLOCK
    if len(data) <= plen:
        return merkle(blocks, bytes(32)), None
    layer = []
    for i in range(0, len(blocks), per):
        layer.append(merkle(blocks[i:i + per] + [bytes(32)] * (per - len(blocks[i:i + per])), bytes(32)))
    pad_piece = merkle([bytes(32)] * per, bytes(32))
    return merkle(layer, pad_piece), b"".join(layer)


tmp = tempfile.mkdtemp()
bad = 0
try:
    for size in (5000, 40000, 100000):
        for plen in (16384, 32768):
            data = bytes((i * 7 + 3) % 251 for i in range(size))
            d = os.path.join(tmp, "c_%d_%d" % (size, plen))
            os.makedirs(d)
            fpath = os.path.join(d, "payload.bin")
            open(fpath, "wb").write(data)
            root, layer = v2_file(data, plen)
            info = {"file tree": {"payload.bin": {"": {"length": size, "pieces root": root}}}, "meta version": 2, "name": "payload.bin", "piece length": plen}
            meta = {"info": info, "piece layers": {root: layer} if layer else {}}
            tpath = os.path.join(d, "x.torrent")
            pyben.dump(meta, tpath)
            for content in (fpath, d):
                try:
                    res = Checker(tpath, content).results()
                except Exception as exc:  # noqa
                    res = "raised %r" % exc
                ok = res == 100
                bad += not ok
                print("size=%d piece=%d content=%s -> %s %s" % (size, plen, "file" if content == fpath else "parent", res, "" if ok else "  <-- expected 100"))
finally:
    shutil.rmtree(tmp, ignore_errors=True)
print("G22", "REPRODUCED" if bad else "not reproduced")
sys.exit(1 if bad else 0)
