"""Throw-away triage experiment used while writing DESIGN.md (section 5).
NOT part of any registered check: it runs the real code to show the failing
input of a genuine defect. Run: /venv/bin/python <this file>"""
import os, sys, hashlib, shutil, io
from contextlib import redirect_stdout
import pyben
from torrentfile.torrent import TorrentFile, TorrentFileV2, TorrentFileHybrid, TorrentAssembler
from torrentfile import utils
import tempfile, atexit
root=tempfile.mkdtemp(prefix='tf-triage-'); atexit.register(shutil.rmtree, root, True)
shutil.rmtree(root, ignore_errors=True); os.makedirs(root)
def mk(path, n, seed=1):
    os.makedirs(os.path.dirname(path), exist_ok=True)
    import random; r=random.Random(seed)
    open(path,'wb').write(bytes(r.randrange(1,256) for _ in range(n)))
PL=16384
# C15 align
d=root+'/al'; mk(d+'/a',PL+5,1); mk(d+'/b',10,2); mk(d+'/c',0,3); mk(d+'/d',2*PL,4)
with redirect_stdout(io.StringIO()):
    t=TorrentFile(path=d, piece_length=PL, align=True, progress=0)
for f in t.meta['info']['files']: print(f)
print('pieces', len(t.meta['info']['pieces'])//20, 'total listed', sum(f['length'] for f in t.meta['info']['files'])/PL)
# single-file align
with redirect_stdout(io.StringIO()):
    t=TorrentFile(path=d+'/a', piece_length=PL, align=True, progress=0)
data=open(d+'/a','rb').read()
ref=b''.join(hashlib.sha1(data[i:i+PL]).digest() for i in range(0,len(data),PL))
print('single align ok?', bytes(t.meta['info']['pieces'])==ref)
# C03 single-file hybrid
for cls,kw in ((TorrentFileHybrid,{}),(TorrentAssembler,{'meta_version':'3'})):
    with redirect_stdout(io.StringIO()):
        t=cls(path=d+'/a', piece_length=PL, progress=0, **kw)
    print(cls.__name__, 'single hybrid v1 ok?', bytes(t.meta['info']['pieces'])==ref, t.meta['info'].get('length'))
# meta_version int
with redirect_stdout(io.StringIO()):
    t=TorrentAssembler(path=d, piece_length=PL, progress=0, meta_version=3)
print('int meta_version hybrid?', 'pieces' in t.meta['info'])
