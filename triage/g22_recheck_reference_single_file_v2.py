"""Throw-away triage experiment used while writing DESIGN.md (section 5).
NOT part of any registered check: a spec-conformant single-file v2 metafile
(BEP 52 has no info.length) rechecked against its intact payload.
Run: [PYTHONPATH=<tree>] /venv/bin/python <this file>"""
import os, io, shutil, random, tempfile, atexit
from contextlib import redirect_stdout
import pyben
from torrentfile.torrent import TorrentAssembler
from torrentfile.recheck import Checker
root=tempfile.mkdtemp(prefix='tf-triage-'); atexit.register(shutil.rmtree, root, True)
p=root+'/f.bin'; open(p,'wb').write(random.Random(1).randbytes(50000))
with redirect_stdout(io.StringIO()):
    t=TorrentAssembler(path=p,piece_length=16384,progress=0); t.write(root+'/own.torrent')
meta=pyben.load(root+'/own.torrent')
def run(mf):
    try:
        with redirect_stdout(io.StringIO()):
            return Checker(mf,p).results()
    except Exception as e: return ('EXC',type(e).__name__,str(e)[:60])
print('own metafile (has info.length):', run(root+'/own.torrent'))
del meta['info']['length']                      # what an independent BEP 52 encoder writes
pyben.dump(meta, root+'/ref.torrent')
print('reference metafile (no info.length):', run(root+'/ref.torrent'))
