#!/venv/bin/python
"""Run every claimed check (tier given as argv[1], default quick) against /repo, write evidence, report exit codes."""
import json, subprocess, sys, time, os
HERE = os.path.dirname(os.path.dirname(os.path.abspath(__file__)))
tier = sys.argv[1] if len(sys.argv) > 1 else "quick"
m = json.load(open(os.path.join(HERE, "MANIFEST.json")))
bad = 0
for c in m["checks"]:
    cmd = c["thorough_cmd"] if tier == "thorough" else c["quick_cmd"]
    t = time.time()
    p = subprocess.run(cmd, shell=True, cwd=HERE, capture_output=True, text=True)
    first = p.stdout.strip().splitlines()[0] if p.stdout.strip() else ""
    print("%s exit=%d %.1fs  %s" % (c["property_id"], p.returncode, time.time() - t, first))
    if p.returncode != 0:
        bad += 1
        print(p.stdout[-1500:])
sys.exit(1 if bad else 0)
