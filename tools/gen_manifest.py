#!/venv/bin/python
"""Regenerate /verif/MANIFEST.json from the rule modules that exist (rules/cXX.py with CLAIM)."""
import importlib
import json
import os
import sys

HERE = os.path.dirname(os.path.dirname(os.path.abspath(__file__)))
sys.path.insert(0, HERE)

NOT_BUILT = "no static rule built for this property in this revision (see DESIGN.md section 4 for the planned clauses)"


def main():
    checks, na, serves = [], [], []
    for i in range(1, 21):
        pid = "C%02d" % i
        path = os.path.join(HERE, "rules", pid.lower() + ".py")
        claim = None
        if os.path.exists(path):
            mod = importlib.import_module("rules." + pid.lower())
            claim = getattr(mod, "CLAIM", None)
        if not claim:
            na.append({"property_id": pid, "reason": getattr(mod, "NOT_APPLICABLE", NOT_BUILT) if os.path.exists(path) else NOT_BUILT})
            continue
        serves.append(pid)
        checks.append({
            "property_id": pid,
            "quick_cmd": "/venv/bin/python /verif/check.py %s --tier quick" % pid,
            "thorough_cmd": "/venv/bin/python /verif/check.py %s --tier thorough" % pid,
            "evidence_file": "/verif/evidence/%s.json" % pid,
            "replay_cmd_template": "/venv/bin/python /verif/check.py %s --replay {path}" % pid,
            "engine": "tfsa",
            "level_claimed": {"category": "other", "text": claim["text"], "design_ref": claim.get("design_ref", "DESIGN.md section 4, " + pid)},
            "level_note": claim["note"],
            "technique": claim["technique"],
        })
    manifest = {
        "version": 1,
        "setup_cmd": "/venv/bin/python -c \"import ast, sys; sys.exit(0 if sys.version_info >= (3, 9) else 1)\"",
        "hooks": {
            "guard": "TORRENTFILE_VERIF",
            "enable": "none needed: the checks parse /repo's sources with the stdlib ast module and execute nothing from it; the guard variable is unused",
            "baseline_off_cmd": "cd /repo && /venv/bin/python -m pytest -ra -q -p no:cacheprovider --timeout=900 --continue-on-collection-errors",
            "source_commits": [],
            "add_only": True,
        },
        "engines": [{
            "name": "tfsa",
            "path": "/verif/tfsa",
            "serves_properties": serves,
            "kind_free_text": "repository-specific static analyser on the stdlib ast module: loader, kind inference / resolver, whole-package call graph, "
                              "statement CFG with dominance and control dependence, effect table and summaries, value-origin terms (backward data-dependence slices), "
                              "decision tables, self-test by mutation of scratch copies",
        }],
        "checks": checks,
        "not_applicable": na,
        "notes": "Static analysis only: every verdict is computed from the source text of /repo at the time the check runs. "
                 "exit 0 holds / exit 1 VIOLATION / exit 2 ANALYSIS-ERROR (undecided, never reported as a violation). "
                 "Genuine defects found were repaired by 'fix:' commits in /repo and are listed as fixed in /verif/known_findings.json.",
    }
    with open(os.path.join(HERE, "MANIFEST.json"), "w") as fh:
        json.dump(manifest, fh, indent=1)
    print("claimed:", serves, "not applicable:", [x["property_id"] for x in na])


if __name__ == "__main__":
    main()
