#!/venv/bin/python
"""benign_status.py [ids...] : re-run, on scratch copies, the checks that answered UNDECIDED on the behaviour-preserving
refactorings kept under seeded/ and print what they answer now.  Development aid (reads metas, writes nothing)."""
import glob
import json
import os
import shutil
import subprocess
import sys
import tempfile
from concurrent.futures import ProcessPoolExecutor

HERE = os.path.dirname(os.path.dirname(os.path.abspath(__file__)))
sys.path.insert(0, HERE)
sys.path.insert(0, os.path.join(HERE, "tools"))


def job(args):
    sid, prop, patch = args
    from seedtest import one
    tmp = tempfile.mkdtemp(prefix="bs_")
    try:
        shutil.copytree("/repo/torrentfile", os.path.join(tmp, "torrentfile"), ignore=shutil.ignore_patterns("__pycache__"))
        r = subprocess.run(["patch", "-p1", "-s", "-i", patch], cwd=tmp, capture_output=True, text=True)
        if r.returncode != 0:
            return sid, prop, "PATCH-FAILED", ""
        _, viol, und, floors, dt = one((prop, tmp))
        if viol:
            return sid, prop, "VIOLATION", "%s @%s: %s" % viol[0]
        if und or floors:
            return sid, prop, "undecided", ("%s @%s: %s" % und[0]) if und else "floor: %s" % (floors[0][0],)
        return sid, prop, "clean", ""
    finally:
        shutil.rmtree(tmp, ignore_errors=True)


def main():
    only = set(sys.argv[1:])
    jobs = []
    for mp in sorted(glob.glob(os.path.join(HERE, "seeded", "*", "meta.json"))):
        m = json.load(open(mp))
        if m.get("kind") != "benign-refactoring" or (only and m["id"] not in only and not (only & set(m.get("undecided_for", {})))):
            continue
        for prop in sorted(m.get("undecided_for", {})):
            if only and m["id"] not in only and prop not in only:
                continue
            jobs.append((m["id"], prop, os.path.join(os.path.dirname(mp), "patch.diff")))
    with ProcessPoolExecutor(max_workers=16) as ex:
        res = list(ex.map(job, jobs))
    tally = {}
    for sid, prop, st, msg in res:
        tally[st] = tally.get(st, 0) + 1
        print("%-9s %s %-10s %s" % (sid, prop, st, msg[:200]))
    print(tally)


if __name__ == "__main__":
    main()
