#!/venv/bin/python
"""collect_seeds.py : copy confirmed seeded changes from /tmp/seed/<ID>/out/<X> into /verif/seeded/<ID>-<X>/ with meta.json.

A seed is kept only if the confirmation run (/tmp/seed/confirm.sh, executed by the author of /verif, not by the sub-agent)
showed: demo exits 0 on the clean worktree, 1 with the patch, and the unedited suite passes with the patch.
meta.json records which property it targets, what it needs to manifest (from the sub-agent's notes), what was run, and
which checks report it (computed now by running every rule module over a scratch copy with the patch applied).
"""
import json
import os
import re
import shutil
import subprocess
import sys

HERE = os.path.dirname(os.path.dirname(os.path.abspath(__file__)))
SEED = os.environ.get("SEED_DIR", "/tmp/seed")
MISSED_FIRST = {  # seeds not reported by the checks as they stood when the seed arrived -> what was strengthened
    "C01-A": "C01.6 now follows the reaching definition of the continuation buffer and rejects a size that is stale after the piece grew",
    "C03-B": "C09 now treats class-level containers aliased into instances (self.kws = self.hasher_kws) as shared state, key by key; C03.4 additionally requires the keyword dictionary carrying the pad switch to be created per instance",
    "C04-A": "new rule C04.6 / C16.6: the early-exhaustion guard must count recorded pieces (ceil), not length // piece_length",
    "C06-A": "new rule C06.7: the encoding must be the only content of a file opened in a truncating binary mode",
    "C09-A": "C09.3 now requires a pure process-lifetime table to be read at a position selected by the caller's argument",
    "C11-A": "C11.1 reported 'anchor vanished' (exit 2); it now reports a violation when the digests are taken over the output of any encoder other than pyben.dumps",
    "C12-B": "C12.2 could not fold module-level constants (MAX_EXP) in the loop bound (exit 2); it now does and reports the bound 25",
    "C13-A": "new rule C13.5: per-name candidate lists must be merged (extend), never replaced (dict.update / assignment), when indexing several search directories",
    "C13-B": "reported by C14.3 only; new rule C13.6: a candidate loop must not mutate state shared between iterations (hasher.update on an outer object)",
    "C15-A": "the q/r-cell evaluator was limited to a few shapes (exit 2); it is now integer-linear arithmetic over 1, P, r, q, q*P with // and % by P, so the multi-step boundary computation is evaluated",
    "C16-A": "new rule C04.7 / C16.8: byte conservation of the zero-fill / read helpers (paired progress counter, or closed form with the divmod identity)",
    "C16-B": "new rule C16.7: the choice between reading a payload file and the all-zero stand-in may depend on existence only",
    "C20-A": "C20.4 extended: the list stored in the metafile must be the one left after the recovery arm removed a swallowed content path",
    "C20-B": "new rule C20.6: the configuration parser must be constructed with its defaults (values taken verbatim)",
    # ---- round 2 (three per property: other module / two cooperating sites / rare circumstance)
    "C01-r2A": "reported by C09.3 only (memoised directory listing); C01 itself has no rule about state across operations - that is C09's subject",
    "C02-r2A": "reported by C06 only at first; new rule C02.5 / C03.5 (post-assembly integrity): nothing outside the assembling functions may drop, filter, reorder or replace info/'file tree', 'piece layers', info/files, info/pieces, info/length (points-to over the metafile dictionary; order-only copies accepted)",
    "C02-r2C": "still UNDECIDED (exit 2), not reported as a violation: the closed form of the level-by-level helper padding_root(count) is outside the normal forms the extractor compares; the check fails closed",
    "C03-r2A": "new rule C03.5 (post-assembly integrity of info/files): `del files[-1]` in sort_meta",
    "C03-r2B": "new fact entry.call (C02.1 / C03.1 / C10.3): the traversal is entered once, on the content root, outside any loop, and its result is the file tree; also fixed an engine hang (key-path enumeration) and an unsoundness (nested def bodies) this seed exposed",
    "C03-r2C": "C03.3 ignored `self.end` atoms in the zero-extension guard (they came from transitive control dependence on the early `raise StopIteration`); it now uses control dependence without raise-only branches and compares the full guard",
    "C04-r2A": "new rule in C04.2 / C05.3 / C16.4: a StopIteration that can escape from a function outside the iterator classes (here `next(fits)` in ProgressBar.new, reached through get_progress_tracker) out of a hand-written __next__ is a stray exhaustion signal",
    "C04-r2B": "new rule in C04.1 / C16.2 / C05.4: the payload total grows for exactly the entries that are handed to the piece checker (same control dependence as the path being recorded) and by the recorded length",
    "C04-r2C": "new rule in C04.1 / C16.2: the stored percentage is not rewritten (round / int / ...) after it was computed, and the CLI command returns the value of results() unchanged",
    "C05-r2A": "new rule C05.5: the piece length both piece checkers hash with is the metafile's recorded value itself (origin term = decoded['info']['piece length'], no creator-side normalisation)",
    "C05-r2B": "C05 did not run the bookkeeping rules; now C05.4 = bookkeeping (denominator / payload total)",
    "C06-r2C": "reported by C17 only at first (for the wrong reason); the resolver now derives the effective mode of os.fdopen(os.open(path, flags), mode) from the flags (no O_TRUNC -> 'r+b'), so C06.7 reports the missing truncation; C17 recognises the construct as a write to the temporary path",
    "C07-r2A": "new rule C07.6: nothing between parse_args and the dispatch rewrites namespace attributes of the edit options (setattr / attribute stores / vars() stores in the entry point and the package functions it hands the namespace to)",
    "C09-r2B": "reported by C11 only at first (for the wrong reason: the argparse table was looked for in cli.execute only); the table extractor now finds the parser builder wherever it is, and new rule C09.2: a memoised parser builder keeps its default containers alive, so an in-place modification of such an option value anywhere in the package is a violation",
    "C10-r2A": "new fact merkle.pure (C02.4 / C10.2): merkle_root must not modify the list it is given when a caller reads that list again (HasherV2 asks for the root of the same all-zero piece list in a loop)",
    "C11-r2A": "C11.5 looked only at get_magnet's call of magnet(); it now judges every caller in the package: the version passed must be an integer (constant, int(...), or an option declared type=int)",
    "C12-r2A": "reported by C09.3 only (memoised path size): state across operations is C09's subject; C12's routes are not affected structurally",
    "C12-r2C": "reported by C20.1 only (the configuration route rewrites the value before it reaches the validator); C12 cannot follow the value through **kwargs into MetaFile.__init__",
    "C13-r2A": "new rule C13.5 (index not pruned): points-to over the search index; slice-assignment of a filtered comprehension to the per-name candidate lists",
    "C13-r2B": "reported by C14.3 only at first; C13.6 now follows local aliases of a shared mutable buffer (tmp = shared; tmp += ...) using the origin term of the shared value (bytearray vs bytes)",
    "C13-r2C": "C13.4 extended: the v1 file list must be visited in the metafile's own order (sorted / reversed / filter / slice of info['files'] is a violation)",
    "C14-r2A": "new rule C14.4: every node of the v1 piece map covers at least one byte of its file (reaching definitions + dominating sign test on the amount); a zero-length node lets a piece verify without reading the file whose candidate is then copied",
    "C14-r2B": "new rule C14.5: symbolic evaluation of destination paths as component sequences (NAME, PATH*, PARTIALS*, KEY) from the reader's record literals to each copy site",
    "C14-r2C": "new rule C14.5 (single-file discriminator): the walk may drop the NAME directory only under a test that compares the tree's key with the torrent name",
    "C15-r2A": "C01.6 accepted any one `raise StopIteration` tied to (empty read and no next file); now every raise must be; reused as C15.3",
    "C16-r2A": "reported by C05.1 only at first; C16 now also runs the path-mapping facts (C16.9)",
    "C16-r2C": "was UNDECIDED (the result store in if/else statement form and attribute-valued accumulators were not understood); bookkeeping now handles both and requires accumulators that live on the object to be reset at the start of a run",
    "C17-r2A": "was UNDECIDED (Path.unlink on a glob element could not be classified); elements of Path.glob / iterdir are paths, and a pattern <metafile name> + '*' also yields the metafile itself",
    "C17-r2C": "new clause in C17.2: a temporary file opened with buffering=0 is a raw file whose write() may be short; the ignored count is a violation",
    "C20-r2A": "new rule C20.8: in find_config_file every default-location result must be control dependent on no explicit --config-path having been given",
    "C20-r2B": "was reported for a wrong reason (add_argument(**settings) was not expanded, so list options looked like strings); the table extractor now expands dictionary literals passed with **, and new rule C20.7 reports one container object shared as default by several options when an option value is modified in place",
    # ---- round 4 (A: a refactoring that is not quite equivalent; B: a plausible feature, optimisation or bug-fix attempt)
    "C01-r4A": "was reported, partly for reasons that were false alarms on the sound part of the refactoring (first open through a helper, iterator instead of an index); C01.6 now follows a StopIteration that a callee lets escape while bytes are pending, and answers undecided for hand-over forms it cannot read",
    "C01-r4B": "target check undecided (prefix-length slicing instead of relpath is outside the extractor); reported by C08.1 (the listed paths depend on how the content path is spelled)",
    "C02-r4A": "undecided (exit 2): the piece layer is a property derived from a list that the root computation pads in place; the hasher facts are not extractable from the mixin form",
    "C02-r4B": "was undecided for C02 and silent for C09; C09.2 now judges values parked on a class object (type(self).attr = ...) by one operation and handed out to later ones",
    "C03-r4A": "was reported by four checks for reasons that were false (the hasher object obtained through functools.partial was not identified, so leaf / layer facts were compared as text); the facts are now undecided when the hasher is not identified - the seed is answered undecided (exit 2): a dead store after partial(**self.kws) copied the dictionary is not followed",
    "C03-r4B": "undecided (exit 2): memoryview-based hashing of a reused buffer is outside the hasher fact extractor (anchor not found)",
    "C04-r4A": "undecided (exit 2): generators that return the unfinished piece (`partial = yield from ...`) are outside the carried-buffer rules",
    "C05-r4A": "undecided (exit 2): the reader trio replaced by a while-form reader",
    "C05-r4B": "was silent for C05 (and falsely reported by C08, whose parameter fallback took the new reader-side call of merkle_root for a creating context); new rules C05.5: the recorded hashes the checkers compare with are taken verbatim from the metafile, and a reader that recomputes a pieces root pads the layer like the writers do (root of an all-zero piece, not 32 zero bytes)",
    "C07-r4A": "was reported partly for wrong reasons; C07.2 now resolves the conversion function of each table row and folds it for an unnamed field (None): `_flag(None) == 1` is named as the cause, the other rows hold",
    "C07-r4B": "undecided (exit 2): the filter gained a second pass over both dictionaries (not a single loop over the request)",
    "C08-r4A": "the C08 analysis crashed (a malformed term of the new enumerate support) and C20 raised false alarms (starred tuple return); fixed both; C08.1 no longer takes Path.absolute() for a normaliser: '..' survives it, so the name depends on the spelling",
    "C09-r4A": "was reported by C03.4 only; C09.2 now follows a class-level container through a local alias and a method that hands it out (self.kws = self.hasher_options())",
    "C10-r4A": "undecided (exit 2): the hasher loop split into generator + comprehension",
    "C10-r4B": "undecided (exit 2): memoryview-based hashing of a reused buffer",
    "C11-r4A": "undecided (exit 2): the digest computation moved into a helper and the URI is built by urlencode",
    "C12-r4A": "undecided (exit 2): the normaliser rewritten over exponents with helper exact_log2()",
    "C12-r4B": "was silent; new rule in C12.2: the payload size that picks the piece length must be the total of the listing that is hashed (utils.filelist_total), not a walk of its own",
    "C13-r4A": "was silent (the piece map was declared undecided territory); new rule C13.9: no file of the list is passed over without a node; a map that positions itself by bisect instead of advancing a counter is answered undecided (exit 2)",
    "C13-r4B": "was silent (the call piece_node.find_matches was not resolved, so the index object did not reach _find_matches); element kinds of list attributes are now inferred, and C13.5 reports a candidate list replaced by a fixed-size display",
    "C14-r4A": "was reported for two false reasons (same resolution gap); now answered undecided by the right rule (C14.4: cannot show that every node of the closed-form map covers a byte)",
    "C15-r4A": "was reported for false reasons (first open through a helper, `size > 0` instead of `size == 0`); the end-of-iteration rule now evaluates worlds, and C15.3 follows a read buffer kept on the object: the aligned arm hashes stale bytes",
    "C15-r4B": "undecided (exit 2): the guard of the padding entry compares the path with the last file",
    "C16-r4A": "undecided (exit 2): generators returning the unfinished piece",
    "C20-r4A": "was reported for false reasons (C06 and C20.3 did not read the table-driven stores); loops over literal tables are now evaluated column by column (flow, points-to, C20.3/.4): the seed is reported by C20.4 - the table holds the lists as they were before the recovery of a swallowed content path",
    "C20-r4B": "was reported for a false reason (re.split not evaluated: kind '?'); the configuration route is now evaluated by value on representatives that contain what is legal in a URL: the comma split is reported",
    "C10-r2C": "new fact single.key (C02.1 / C10.3): the key of a single-file payload's leaf in the file tree is the recorded name (all definitions of the attribute used agree with what is stored as info['name'], modulo abspath)",
    # ---- round 7 (C: an everyday maintenance change with one slip)
    "C01-r7C": "was reported by C08 for a false reason (`filelist.sort()` inside the directory arm was not taken for a sort); the origin terms now model an in-place default sort that stands between every change to the list and the read; the seed (glob leaves out dot-names) is answered undecided: a glob walk is outside C01.2",
    "C02-r7C": "was reported by C02 for a false reason (a padding width held in a case-split local compared as text); such locals now count as unresolved: undecided (the closed form of next_power_2 is outside the structural fact)",
    "C03-r7C": "undecided (exit 2): the padding of the short piece moved into a helper of the hasher",
    "C06-r7C": "reported by C06.5 (length and files both stored for a single file) and C03.4; C08 reported it as well for a false reason (bare name under `{name: tree} if single else tree`), now evaluated as an isfile guard",
    "C07-r7C": "reported by C07.5 (the value dumped is not only the decoded metafile); C06.3 reported it as well for a false reason (a comprehension over sorted(d.items()) with a filter), now recognised as ordered",
    "C09-r7C": "the target check was SILENT at first contact (only C08 reported, for a questionable reason): the revived Memo serves its results through `self.cache.get(path)`, and C09.3 recognised only `self.cache[path]`; caches served through get / pop / setdefault are now recognised and C09.3 reports the stale directory listing",
    "C10-r7C": "undecided (exit 2): the padding rule moved into a module helper with a hoisted flag",
    "C11-r7C": "undecided (exit 2): the parameter names of the URI come out of a shared formatter",
    "C12-r7C": "undecided (exit 2): bit_length arithmetic is outside the abstract domain of C12.1",
    "C13-r7C": "undecided (exit 2): how the per-directory maps are merged is not read (C13.5)",
    "C14-r7C": "was reported by C13.3 and by C14.3 at the v1 matcher for false reasons (guard clauses with `length and ...`, size filter inside the candidates comprehension); both are now evaluated (non-empty world, filter of the comprehension) and the seed is reported by C14.3 at _match_v2 only: the copy is not conditional on the size",
    "C15-r7C": "was reported by C01.6 for a false reason (two extends in exclusive arms counted as two); extends are now counted per path. C15.3 follows one read in __next__ and the rewrite spells the same read twice (before and inside a `while size == 0` loop): identical reads now count as one, and C15.3 reports the slip - with the align switch on, the handler reaches `... and self.next_file()` before the piece is complete, so the last file's tail is left short",
    "C16-r7C": "undecided (exit 2): the padding generator's emissions are not recognised in the reshaped loop",
    "C17-r7C": "reported by C17.2 (the temporary file is never closed before the replace); C07.2 reported it as well for a false reason (isinstance guard on a value that is None when the field is not named), now evaluated",
    "C01-r8C": "was reported by C01.6 for a false reason (a continuation buffer capped with min(), which the clean twin has as well - now undecided); the hand-over tests are now evaluated over what next_file() returns when it opened a file (constants, byte counts that are 0 for an empty file) and C01.6 / C15.3 report the slip itself: `not self.next_file()` ends the iteration at an empty file in the middle of the list",
    "C03-r8C": "silent at first contact; the per-file hasher's options are now a judged fact (C03.2, C02.1): options chosen file by file are undecided (exit 2) - which files end up padded is a question about two traversal orders the fact table does not answer",
    "C04-r8C": "was reported by C16.7 only, for a false reason (reader selection `exists and getsize > 0`, which the clean twin has as well - now accepted: an empty file has no piece that could verify); new obligation C04.6 / C16.6: the stand-in hasher is told what is still owed BEFORE advance() books the piece - reports the slip itself",
    "C12-r8C": "was reported by C12.1 for a false reason (int() inside try/except ValueError was taken for an escaping error - the handler's raise is now followed); sign-blind primitives (bit_length, bin, bit_count) make the negatives of powers of two cells of their own, each spelling of the power-of-two test is evaluated as written for x <= 0, and C12.1 reports the slip itself: -32768 is returned as valid",
    "C13-r8C": "silent for C13 at first contact (C14.4 undecided); C13.9 now asks that a continued file be left only where the code says nothing of it remains (a test that speaks of the remainder, or `remainder = 0` beside the advance); `if target:` is undecided (exit 2)",
    "C16-r8C": "was reported by C05.5 only, for a false reason (an attribute holding a digest made from the piece length is not a piece length - now skipped); new obligation C04.5 / C16.3: the hash handed out for a v1 piece is the digest of the piece read in this call, a stored digest only under identity / equality with the buffer it was made from - reports the slip itself (a flag and a length test do not look at the content)",
    "C19-r8C": "silent at first contact: the taint model accepted anything downstream of the containment check; C19.1 now reports a text-rewriting operation (replace, strip, expanduser, ...) applied AFTER the check - the path written is not the path checked",
    "C20-r7C": "was reported by C20.3 and C08 for false reasons (stores driven by a local table were not read); local dictionary tables walked with .items() are now written out row by row, their values taken where the display is evaluated - and C20.4 reports the slip itself: the list is copied BEFORE the recovery arm removes a swallowed content path",
}


ROUND = os.environ.get("SEED_ROUND", "")      # e.g. "r2" -> ids C01-r2A


def main():
    only = sys.argv[1:]
    for d in sorted(os.listdir(SEED)):
        if not re.fullmatch(r"C\d\d", d):
            continue
        for x in os.environ.get("SEED_LETTERS", "ABC"):
            sid = "%s-%s%s" % (d, ROUND, x)
            if ROUND == "r4":
                meta_kind = {"A": "refactoring gone wrong", "B": "plausible feature / optimisation / bug-fix attempt"}.get(x)
            if only and sid not in only and d not in only:
                continue
            src = os.path.join(SEED, d, "out", x)
            conf = os.path.join(SEED, "confirm_%s_%s.txt" % (d, x))
            if not os.path.isfile(os.path.join(src, "patch.diff")) or not os.path.isfile(conf):
                continue
            c = dict(line.strip().split("=", 1) for line in open(conf) if "=" in line)
            ok = c.get("demo_clean_exit") == "0" and c.get("demo_patched_exit") == "1" and c.get("suite_exit", "").startswith("0 ")
            if not ok:
                print(sid, "NOT CONFIRMED", c)
                continue
            r = subprocess.run([sys.executable, os.path.join(HERE, "tools", "seedtest.py"), os.path.join(src, "patch.diff")], capture_output=True, text=True)
            fired = []
            rules = []
            undecided = []
            for line in r.stdout.splitlines():
                mu = re.match(r"(C\d\d) undecided", line)
                if mu:
                    undecided.append(mu.group(1))
                if line.startswith("FIRED:"):
                    fired = [f for f in line.split()[1:] if f != "none"]
                m = re.match(r"\s+(C\d\d\.\w+) @(\S+): (.*)", line)
                if m:
                    rules.append("%s @%s" % (m.group(1), m.group(2).rstrip(":")))
            dst = os.path.join(HERE, "seeded", sid)
            os.makedirs(dst, exist_ok=True)
            for f in ("patch.diff", "demo.py", "notes.md"):
                if os.path.isfile(os.path.join(src, f)):
                    shutil.copy(os.path.join(src, f), os.path.join(dst, f))
            # behaviour-preserving parts of a multi-site change (each verified by me: the seed's own demonstration exits 0
            # with only that part applied).  They must NOT be reported by the checks of the properties listed in clean_for.
            benign = []
            bdir = os.path.join(src, "benign")
            if os.path.isdir(bdir):
                for bf in sorted(os.listdir(bdir)):
                    if not bf.endswith(".diff"):
                        continue
                    rb = subprocess.run([sys.executable, os.path.join(HERE, "tools", "seedtest.py"), os.path.join(bdir, bf)], capture_output=True, text=True)
                    noisy = set()
                    for line in rb.stdout.splitlines():
                        m2 = re.match(r"(C\d\d) (VIOLATION|undecided)", line)
                        if m2:
                            noisy.add(m2.group(1))
                    name = "benign_" + bf
                    shutil.copy(os.path.join(bdir, bf), os.path.join(dst, name))
                    benign.append({"file": name, "demo_exit_with_only_this_part": 0,
                                   "clean_for": [p for p in ["C%02d" % i for i in range(1, 21)] if p not in noisy],
                                   "reported_or_undecided_for": sorted(noisy)})
            notes = open(os.path.join(src, "notes.md")).read() if os.path.isfile(os.path.join(src, "notes.md")) else ""
            meta = {
                "id": sid,
                "property": d,
                "author": "independent sub-agent given only the property text and a scratch worktree of /repo (no access to /verif)",
                "needs_to_manifest": notes.strip()[:1500],
                "confirmed_by_me": {
                    "commands": ["cd <worktree> && python out/%s/demo.py   (clean tree)" % x, "git apply out/%s/patch.diff" % x, "python out/%s/demo.py   (patched)" % x,
                                 "/venv/bin/python -m pytest -q -p no:cacheprovider --timeout=900   (patched)"],
                    "demo_exit_clean": int(c["demo_clean_exit"]), "demo_exit_patched": int(c["demo_patched_exit"]), "suite_with_patch": c["suite_exit"][2:],
                },
                "checks_reporting_it": fired,
                "checks_undecided_on_it": undecided,
                "rules_reporting_it": sorted(set(rules))[:12],
                "target_check_reports_it": d in fired,
                "benign_parts": benign,
                "missed_when_it_arrived": sid in MISSED_FIRST,
                "strengthening": MISSED_FIRST.get(sid, ""),
            }
            with open(os.path.join(dst, "meta.json"), "w") as fh:
                json.dump(meta, fh, indent=1)
            print(sid, "kept; fired:", " ".join(fired) or "NONE", "" if d in fired else "   <<< target property check silent")


if __name__ == "__main__":
    main()
