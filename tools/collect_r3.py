#!/venv/bin/python
"""collect_r3.py [ids...] : keep the behaviour-preserving refactorings of round 3 as standing false-alarm regression cases.

Reads /tmp/seed/<ID>/out/<X>/{patch.diff,demo.py,notes.md} and the confirmation log /tmp/r3_confirm.txt (written by
/tmp/seed/confirm3.sh, run by the author of /verif: demonstration exits 0 on the clean and on the patched worktree, unedited
suite passes with the patch).  A refactoring is kept as /verif/seeded/<ID>-r3<X>/ with meta.json:
  kind            "benign-refactoring"
  clean_for       properties whose check is silent and decided on the refactored tree      -> self-test row, expect clean
  undecided_for   properties whose check answers UNDECIDED (exit 2) on the refactored tree -> self-test row, expect no alarm
A property whose check reports a VIOLATION is a false alarm: the tool prints it and keeps the case out of both lists for that
property, so that the self-test does not bless it.
"""
import json
import os
import re
import shutil
import subprocess
import sys
import tempfile

HERE = os.path.dirname(os.path.dirname(os.path.abspath(__file__)))
sys.path.insert(0, HERE)
sys.path.insert(0, os.path.join(HERE, "tools"))
SEED = os.environ.get("SEED_DIR", "/tmp/seed")
ROUND = os.environ.get("SEED_ROUND", "r3")            # r3 | r5
CONFIRM = os.environ.get("SEED_CONFIRM", "/tmp/r3_confirm.txt")
# round 5: checks that alarmed when the refactoring was first run (before the rules were generalised), for the record
FIRST_CONTACT_R7 = {
    "C01-A": "C01 C08", "C01-B": "C15", "C02-A": "C02 C03 C06 C08", "C02-B": "C02 C03 C10", "C03-B": "C02 C03 C10", "C05-B": "C02", "C06-A": "C06 C07",
    "C06-B": "C02 C03 C06 C08 C10", "C07-A": "C07", "C07-B": "C07", "C09-A": "C01 C08", "C09-B": "C13 C14", "C10-A": "C06", "C13-A": "C13", "C13-B": "C13 C14",
    "C14-A": "C13", "C15-A": "C01", "C17-B": "C17", "C18-B": "C02 C03 C06 C08 C10", "C19-A": "C13 C14", "C19-B": "C19", "C20-A": "C20",
}
FIRST_CONTACT_R8 = {"C01-A": "C01 C15", "C04-A": "C16", "C16-A": "C04 C05 C16"}
FIRST_CONTACT_R5 = {
    "C01-A": "C01 C15", "C02-B": "C06", "C04-A": "C04 C16", "C05-A": "C05 C16", "C06-B": "C06", "C07-A": "C06 C07", "C07-B": "C07",
    "C08-A": "C02 C03 C06 C08", "C08-B": "C20", "C09-A": "C08", "C09-B": "C01", "C10-A": "C02 C10", "C11-A": "C11", "C12-A": "C20",
    "C12-B": "C12", "C13-A": "C14", "C14-A": "C13 C14", "C15-B": "C01", "C17-B": "C06 C17", "C19-A": "C14", "C19-B": "C13", "C20-A": "C20",
    "C20-B": "C06 C12 C20",
}
PROPS = ["C%02d" % i for i in range(1, 21)]


def confirmations():
    out = {}
    p = CONFIRM
    if os.path.isfile(p):
        for line in open(p):
            m = re.match(r"(C\d\d)-([ABC]) demo_clean=(\d+) demo_patched=(\d+) suite: (.*)", line.strip())
            if m:
                out["%s-%s" % (m.group(1), m.group(2))] = (int(m.group(3)), int(m.group(4)), m.group(5))
    return out


def classify(patch, repo="/repo"):
    from seedtest import one
    from concurrent.futures import ProcessPoolExecutor
    tmp = tempfile.mkdtemp(prefix="r3_")
    try:
        shutil.copytree(os.path.join(repo, "torrentfile"), os.path.join(tmp, "torrentfile"), ignore=shutil.ignore_patterns("__pycache__"))
        r = subprocess.run(["patch", "-p1", "-s", "-i", patch], cwd=tmp, capture_output=True, text=True)
        if r.returncode != 0:
            return None
        with ProcessPoolExecutor(max_workers=16) as ex:
            results = list(ex.map(one, [(p, tmp) for p in PROPS]))
        clean, und, alarm = [], {}, {}
        for prop, viol, undl, floors, dt in results:
            if viol:
                alarm[prop] = ["%s @%s: %s" % v for v in viol[:3]]
            elif undl or floors:
                und[prop] = (["%s @%s: %s" % u for u in undl[:2]] + ["floor: %s" % f[0] for f in floors[:1]])[:2]
            else:
                clean.append(prop)
        return clean, und, alarm
    finally:
        shutil.rmtree(tmp, ignore_errors=True)


def main():
    only = sys.argv[1:]
    conf = confirmations()
    for d in sorted(os.listdir(SEED)):
        if not re.fullmatch(r"C\d\d", d):
            continue
        for x in os.environ.get("SEED_LETTERS", "ABC"):
            src = os.path.join(SEED, d, "out", x)
            sid = "%s-%s%s" % (d, ROUND, x)
            if only and sid not in only and d not in only:
                continue
            if not os.path.isfile(os.path.join(src, "patch.diff")):
                continue
            c = conf.get("%s-%s" % (d, x))
            if c is None or c[0] != 0 or c[1] != 0 or "passed" not in c[2] or "failed" in c[2]:
                print("%s: NOT confirmed (%s) - skipped" % (sid, c))
                continue
            dst = os.path.join(HERE, "seeded", sid)
            patch = os.path.join(src, "patch.diff")
            rebased = os.path.join(dst, "patch.diff") if os.path.isfile(os.path.join(dst, "patch_as_delivered.diff")) else None
            res = classify(rebased or patch)
            if res is None:
                print("%s: patch does not apply to /repo - skipped (rebase by hand, keep the original as patch_as_delivered.diff)" % sid)
                continue
            clean, und, alarm = res
            os.makedirs(dst, exist_ok=True)
            if not rebased:
                shutil.copy(patch, os.path.join(dst, "patch.diff"))
            for f in ("demo.py", "notes.md"):
                if os.path.isfile(os.path.join(src, f)):
                    shutil.copy(os.path.join(src, f), os.path.join(dst, f))
            notes = open(os.path.join(src, "notes.md")).read() if os.path.isfile(os.path.join(src, "notes.md")) else ""
            meta = {
                "id": sid, "property": d, "kind": "benign-refactoring",
                "author": "independent sub-agent given only the property text and a scratch worktree of /repo (no access to /verif), asked for a behaviour-preserving refactoring",
                "what": notes.strip().split("\n")[0].lstrip("# ").strip()[:300],
                "confirmed_by_me": {"commands": ["python out/%s/demo.py (clean worktree)" % x, "git apply out/%s/patch.diff" % x, "python out/%s/demo.py (patched)" % x,
                                                  "/venv/bin/python -m pytest -q -p no:cacheprovider --timeout=900 -x (patched)"],
                                    "demo_exit_clean": c[0], "demo_exit_patched": c[1], "suite_with_patch": c[2]},
                "clean_for": clean, "undecided_for": und, "false_alarms_now": alarm,
            }
            if ROUND == "r7":
                meta["author"] = meta["author"].replace("a behaviour-preserving refactoring", "a behaviour-preserving change of whatever kind a maintainer makes on a normal working day (idioms, data structures, recursion <-> iteration, guard clauses, library calls)")
                meta["false_alarms_at_first_contact"] = FIRST_CONTACT_R7.get("%s-%s" % (d, x), "").split()
                if d == "C17":
                    meta["isolation_note"] = "the sub-agent reported having read the title lines of the earlier C17 seeds under /verif/seeded (it was told to use nothing from /verif); kept, with this note"
            if ROUND == "r8":
                meta["author"] = meta["author"].replace("a behaviour-preserving refactoring", "a behaviour-preserving change in the same functions, of the same size and flavour, as its breaking twin (%s-r8C)" % d)
                meta["false_alarms_at_first_contact"] = FIRST_CONTACT_R8.get("%s-%s" % (d, x), "").split()
            if ROUND == "r6":
                meta["author"] = meta["author"].replace("a behaviour-preserving refactoring", "a behaviour-preserving refactoring of the extract / move / wrap family (helpers, small classes, records, generator helpers)")
            if ROUND == "r5":
                meta["author"] = meta["author"].replace("a behaviour-preserving refactoring", "a larger behaviour-preserving refactoring (several functions or a whole class reshaped)")
                meta["false_alarms_at_first_contact"] = FIRST_CONTACT_R5.get("%s-%s" % (d, x), "").split()
            json.dump(meta, open(os.path.join(dst, "meta.json"), "w"), indent=1, sort_keys=True)
            print("%s: clean for %d, undecided for %s%s" % (sid, len(clean), sorted(und) or "-", ("  FALSE ALARMS: %s" % sorted(alarm)) if alarm else ""))


if __name__ == "__main__":
    main()
