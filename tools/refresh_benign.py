#!/venv/bin/python
"""refresh_benign.py [ids...] : re-classify the behaviour-preserving refactorings kept under seeded/ against the current
rules and rewrite the clean_for / undecided_for lists of their meta.json (the self-test expects `clean` where a check was
decided, `no alarm` where it was undecided).  A check that reports a violation is printed and left out of both lists."""
import glob
import json
import os
import sys

HERE = os.path.dirname(os.path.dirname(os.path.abspath(__file__)))
sys.path.insert(0, HERE)
sys.path.insert(0, os.path.join(HERE, "tools"))
from collect_r3 import classify  # noqa: E402


def main():
    only = set(sys.argv[1:])
    for mp in sorted(glob.glob(os.path.join(HERE, "seeded", "*", "meta.json"))):
        m = json.load(open(mp))
        if m.get("kind") != "benign-refactoring" or (only and m["id"] not in only):
            continue
        res = classify(os.path.join(os.path.dirname(mp), "patch.diff"))
        if res is None:
            print("%s: patch does not apply" % m["id"])
            continue
        clean, und, alarm = res
        before = (len(m.get("clean_for", [])), sorted(m.get("undecided_for", {})))
        m["clean_for"], m["undecided_for"], m["false_alarms_now"] = clean, und, alarm
        json.dump(m, open(mp, "w"), indent=1, sort_keys=True)
        print("%s: clean %d -> %d, undecided %s -> %s%s" % (m["id"], before[0], len(clean), " ".join(before[1]) or "-", " ".join(sorted(und)) or "-", ("  FALSE ALARMS: %s" % sorted(alarm)) if alarm else ""))


if __name__ == "__main__":
    main()
