#!/venv/bin/python
"""seed_table.py [round]: markdown table of the seeded changes kept under /verif/seeded (from their meta.json)."""
import json
import os
import sys

HERE = os.path.dirname(os.path.dirname(os.path.abspath(__file__)))

# what the checks said when the seed arrived (recorded by hand from the seedtest runs at that time)
FIRST_CONTACT_R2 = {
    "C01-r2A": "other check only (C09)", "C01-r2B": "reported", "C01-r2C": "reported",
    "C02-r2A": "other check only (C06)", "C02-r2B": "reported", "C02-r2C": "undecided",
    "C03-r2A": "silent", "C03-r2B": "analysis did not terminate (engine defect)", "C03-r2C": "silent",
    "C04-r2A": "silent", "C04-r2B": "silent", "C04-r2C": "silent",
    "C05-r2A": "silent", "C05-r2B": "silent", "C05-r2C": "reported",
    "C06-r2A": "reported", "C06-r2B": "reported", "C06-r2C": "other check only (C17, for a wrong reason)",
    "C07-r2A": "undecided", "C07-r2B": "reported", "C07-r2C": "reported",
    "C08-r2A": "reported", "C08-r2B": "reported", "C08-r2C": "reported",
    "C09-r2A": "reported", "C09-r2B": "other check only (C11, for a wrong reason)", "C09-r2C": "reported",
    "C10-r2A": "silent", "C10-r2B": "reported", "C10-r2C": "silent",
    "C11-r2A": "silent", "C11-r2B": "reported", "C11-r2C": "reported",
    "C12-r2A": "other check only (C09)", "C12-r2B": "reported", "C12-r2C": "other check only (C20)",
    "C13-r2A": "silent", "C13-r2B": "other check only (C14)", "C13-r2C": "silent",
    "C14-r2A": "silent", "C14-r2B": "silent", "C14-r2C": "silent",
    "C15-r2A": "silent", "C15-r2B": "reported", "C15-r2C": "reported",
    "C16-r2A": "other check only (C05)", "C16-r2B": "reported", "C16-r2C": "undecided",
    "C17-r2A": "undecided", "C17-r2B": "reported", "C17-r2C": "silent",
    "C18-r2A": "reported", "C18-r2B": "reported", "C18-r2C": "reported",
    "C19-r2A": "reported", "C19-r2B": "reported", "C19-r2C": "reported",
    "C20-r2A": "silent", "C20-r2B": "reported (for a wrong reason)", "C20-r2C": "reported",
}


FIRST_CONTACT_R4 = {
    "C01-r4A": "reported (partly for a wrong reason)", "C01-r4B": "other check only (C08); target undecided",
    "C02-r4A": "undecided", "C02-r4B": "undecided (C09, whose subject it is, silent)",
    "C03-r4A": "reported (for a wrong reason)", "C03-r4B": "undecided",
    "C04-r4A": "undecided", "C04-r4B": "reported",
    "C05-r4A": "undecided", "C05-r4B": "silent (and a false alarm of C08)",
    "C06-r4A": "reported", "C06-r4B": "reported",
    "C07-r4A": "reported (partly for a wrong reason)", "C07-r4B": "undecided",
    "C08-r4A": "analysis crashed (engine defect); false alarm of C20", "C08-r4B": "reported",
    "C09-r4A": "other check only (C03)", "C09-r4B": "reported",
    "C10-r4A": "undecided", "C10-r4B": "undecided",
    "C11-r4A": "undecided", "C11-r4B": "reported",
    "C12-r4A": "undecided", "C12-r4B": "silent",
    "C13-r4A": "silent", "C13-r4B": "silent",
    "C14-r4A": "reported (for a wrong reason)", "C14-r4B": "reported",
    "C15-r4A": "reported (for a wrong reason)", "C15-r4B": "undecided",
    "C16-r4A": "undecided", "C16-r4B": "reported",
    "C17-r4A": "reported", "C17-r4B": "reported",
    "C18-r4A": "reported", "C18-r4B": "reported",
    "C19-r4A": "reported", "C19-r4B": "reported",
    "C20-r4A": "reported (for a wrong reason; false alarm of C06)", "C20-r4B": "reported (for a wrong reason)",
}


FIRST_CONTACT_R7C = {
    "C01-r7C": "C08 (wrong reason; now undecided)", "C02-r7C": "C02 (wrong reason; now undecided)", "C03-r7C": "none (undecided)", "C04-r7C": "C04 C05 C16", "C05-r7C": "C04 C05 C16",
    "C06-r7C": "C03 C06 C08 (C08 for a wrong reason; now C03 C06)", "C07-r7C": "C06 C07 (C06 for a wrong reason; now C07)", "C08-r7C": "C03 C08", "C09-r7C": "C08 only - C09 was silent (cache served through get())",
    "C10-r7C": "none (undecided)", "C11-r7C": "none (undecided)", "C12-r7C": "none (undecided)", "C13-r7C": "none (undecided)", "C14-r7C": "C13 C14 (both for wrong reasons; now C14 for the slip)",
    "C15-r7C": "C01 (wrong reason; now C15 for the slip)", "C16-r7C": "none (undecided)", "C17-r7C": "C07 C17 (C07 for a wrong reason; now C17)", "C18-r7C": "C18", "C19-r7C": "C19",
    "C20-r7C": "C08 C20 (both for wrong reasons; now C20.4 for the slip)",
}
FIRST_CONTACT_R8C = {
    "C01-r8C": "C01 (wrong reason - capped buffer, also in the clean twin; now C01 C15 for the slip)", "C02-r8C": "C09 (for the slip: a class-level cache shared by instances); C02 C10 undecided",
    "C03-r8C": "none - SILENT (now C02 C03 undecided)", "C04-r8C": "C16 (wrong reason - reader selection, also in the clean twin; now C04 C16 for the slip)", "C10-r8C": "none (C02 C10 undecided)",
    "C11-r8C": "C11", "C12-r8C": "C12 (wrong reason - int() inside a try was taken for an escaping ValueError; now C12 for the slip: negative powers of two)",
    "C13-r8C": "none - SILENT for C13 (C14 undecided; now C13 undecided as well)", "C16-r8C": "C05 (wrong reason - a digest attribute taken for a piece length; now C04 C16 for the slip)",
    "C19-r8C": "none - SILENT (now C19 for the slip)",
}
FIRST_CONTACT_R6C = {
    "C01-r6C": "C01", "C02-r6C": "C02 C03 C06 (all three for a wrong reason; now undecided)", "C03-r6C": "none (undecided)", "C04-r6C": "C04 C05 C16", "C05-r6C": "none (undecided)",
    "C06-r6C": "C06", "C07-r6C": "C06 C07 (wrong reason; now undecided)", "C08-r6C": "C06 only - C08 was silent (generators did not carry iteration order)", "C09-r6C": "C09",
    "C10-r6C": "C02", "C11-r6C": "none (undecided)", "C12-r6C": "none (undecided)", "C13-r6C": "C13 C14 (reports that did not name the slip; now undecided)", "C14-r6C": "C13 C14 (C14 for a wrong reason; now C13 only)",
    "C15-r6C": "none (undecided)", "C16-r6C": "C04", "C17-r6C": "C07 C17 (C07 for a wrong reason; now C17 only)", "C18-r6C": "C18", "C19-r6C": "C19", "C20-r6C": "C12 C20",
}


def table_r3(root, tag="-r3"):
    rows = []
    first = 0
    full = part = 0
    tgt_und = 0
    for d in sorted(os.listdir(root)):
        if tag not in d:
            continue
        mp = os.path.join(root, d, "meta.json")
        if not os.path.isfile(mp):
            continue
        m = json.load(open(mp))
        if m.get("kind") != "benign-refactoring":
            continue
        und = sorted(m.get("undecided_for", {}))
        if und:
            part += 1
        else:
            full += 1
        if m["property"] in und:
            tgt_und += 1
        fc = m.get("false_alarms_at_first_contact")
        if fc:
            first += 1
        extra = " %s |" % (" ".join(fc) or "-") if fc is not None else ""
        rows.append("| %s | %s | %d | %s |%s %s |" % (d, m["property"], len(m.get("clean_for", [])), " ".join(und) or "-", extra, (m.get("what") or "").replace("|", "/")[:110]))
    if tag in ("-r5", "-r6", "-r7", "-r8"):
        print("| refactoring | written for | checks silent and decided | checks answering undecided | false alarms at first contact | what it is |")
        print("|---|---|---|---|---|---|")
    else:
        print("| refactoring | written for | checks silent and decided | checks answering undecided | what it is |")
        print("|---|---|---|---|---|")
    print("\n".join(rows))
    print()
    if tag in ("-r5", "-r6", "-r7", "-r8"):
        print("%d of these refactorings were reported as a violation by at least one check when first run; each report was a false alarm and was removed by generalising the rule." % first)
        print()
    print("%d refactorings: %d decided clean by all 20 checks, %d with at least one undecided answer (the target property's own check undecided for %d); none is reported as a violation." % (full + part, full, part, tgt_und))


def main():
    rnd = sys.argv[1] if len(sys.argv) > 1 else "r2"
    root = os.path.join(HERE, "seeded")
    if rnd in ("r3", "r5", "r6", "r7", "r8"):
        return table_r3(root, "-" + rnd)
    first = FIRST_CONTACT_R4 if rnd == "r4" else (FIRST_CONTACT_R6C if rnd == "r6C" else (FIRST_CONTACT_R7C if rnd == "r7C" else (FIRST_CONTACT_R8C if rnd == "r8C" else FIRST_CONTACT_R2)))
    rows = []
    for d in sorted(os.listdir(root)):
        if ("-" + rnd) not in d:
            continue
        mp = os.path.join(root, d, "meta.json")
        if not os.path.isfile(mp):
            continue
        m = json.load(open(mp))
        fired = " ".join(m.get("checks_reporting_it", [])) or "none (undecided, exit 2: %s)" % " ".join(m.get("checks_undecided_on_it", []) or ["target"])
        nb = len(m.get("benign_parts", []))
        rows.append("| %s | %s | %s | %s | %s | %s |" % (d, m["property"], fired, first.get(d, "?"), nb or "", (m.get("strengthening") or "-").replace("|", "/")))
    print("| seed | target | reported by (now) | at first contact | benign parts kept | what was strengthened |")
    print("|---|---|---|---|---|---|")
    print("\n".join(rows))
    fc = {}
    for k, v in first.items():
        key = v.split(" (")[0]
        fc[key] = fc.get(key, 0) + 1
    print()
    print("first contact:", ", ".join("%d %s" % (n, k) for k, n in sorted(fc.items(), key=lambda x: -x[1])))


if __name__ == "__main__":
    main()
