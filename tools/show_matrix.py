import json,sys
e=json.load(open(sys.argv[1]))
print(e['coverage'].get('self_test'))
for m in e['coverage'].get('kill_matrix',[]): print(' ',m['mutant'],'=>',m['outcome'],m['rules'],m['why'])
