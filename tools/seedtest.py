#!/venv/bin/python
"""seedtest.py <patch.diff> [property ids...]

Apply a seeded change to a scratch copy of /repo (never to /repo itself), run the rule modules of the given
properties (default: all 20) over the copy and print which rules report VIOLATED / UNDECIDED.
Exit code 0 always; this is a development aid, not a registered check.
"""
import os
import shutil
import subprocess
import sys
import tempfile
import time

HERE = os.path.dirname(os.path.dirname(os.path.abspath(__file__)))
sys.path.insert(0, HERE)
sys.setrecursionlimit(10000)


def one(args):
    prop, root = args
    import signal

    def _alarm(signum, frame):
        raise TimeoutError("analysis timeout")
    signal.signal(signal.SIGALRM, _alarm)
    signal.alarm(240)
    try:
        return _one(prop, root)
    except TimeoutError:
        return prop, [], [("%s.engine" % prop, "<module>", "analysis did not finish within 240 s")], [], 240.0
    finally:
        signal.alarm(0)


def _one(prop, root):
    from check import analyse
    from tfsa.report import load_known, match_known
    t = time.time()
    ctx, _ = analyse(prop, root)
    known = load_known()
    viol = [o for o in ctx.obs if o.status == "VIOLATED" and not match_known(o, known)]
    und = [o for o in ctx.obs if o.status == "UNDECIDED"]
    floors = [f for f in ctx.floors if f[2] < f[1]]
    return prop, [(o.rule, o.site, o.detail[:200]) for o in viol], [(o.rule, o.site, o.detail[:160]) for o in und], floors, time.time() - t


def main():
    patch = os.path.abspath(sys.argv[1])
    props = [p.upper() for p in sys.argv[2:]] or ["C%02d" % i for i in range(1, 21)]
    repo = os.environ.get("SEED_REPO", "/repo")
    tmp = tempfile.mkdtemp(prefix="seedtest_")
    try:
        shutil.copytree(os.path.join(repo, "torrentfile"), os.path.join(tmp, "torrentfile"), ignore=shutil.ignore_patterns("__pycache__"))
        if os.path.isdir(os.path.join(repo, "bin")):
            shutil.copytree(os.path.join(repo, "bin"), os.path.join(tmp, "bin"))
        r = subprocess.run(["patch", "-p1", "-s", "-i", patch], cwd=tmp, capture_output=True, text=True)
        if r.returncode != 0:
            print("PATCH FAILED:", r.stdout, r.stderr)
            return 0
        # SEED_EDIT='[["torrentfile/x.py", "old text", "new text"], ...]': exact replacements made on top of the patch
        import json
        for f, old, new in json.loads(os.environ.get("SEED_EDIT", "[]")):
            src = open(os.path.join(tmp, f)).read()
            if src.count(old) != 1:
                print("EDIT FAILED: %r occurs %d times in %s" % (old, src.count(old), f))
                return 0
            open(os.path.join(tmp, f), "w").write(src.replace(old, new))
        from concurrent.futures import ProcessPoolExecutor
        with ProcessPoolExecutor(max_workers=min(16, len(props))) as ex:
            results = list(ex.map(one, [(p, tmp) for p in props]))
        fired = []
        for prop, viol, und, floors, dt in results:
            if viol:
                fired.append(prop)
                print("%s VIOLATION (%d)  [%.1fs]" % (prop, len(viol), dt))
                for rule, site, detail in viol[:4]:
                    print("     %s @%s: %s" % (rule, site, detail))
            elif und or floors:
                print("%s undecided (%d)" % (prop, len(und) + len(floors)))
                for rule, site, detail in und[:2]:
                    print("     %s @%s: %s" % (rule, site, detail))
                for f in floors[:2]:
                    print("     floor: %s (need %s, got %s)" % (f[0], f[1], f[2]))
        print("FIRED:", " ".join(fired) or "none")
    finally:
        shutil.rmtree(tmp, ignore_errors=True)
    return 0


if __name__ == "__main__":
    sys.exit(main())
