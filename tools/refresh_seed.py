#!/venv/bin/python
"""refresh_seed.py <seed id>... : re-run every check over seeded/<id>/patch.diff (scratch copy) and update the lists of
checks / rules reporting it in meta.json (after rules changed).  The confirmation data in meta.json is left untouched."""
import json
import os
import re
import subprocess
import sys

HERE = os.path.dirname(os.path.dirname(os.path.abspath(__file__)))


def main():
    for sid in sys.argv[1:]:
        d = os.path.join(HERE, "seeded", sid)
        mp = os.path.join(d, "meta.json")
        meta = json.load(open(mp))
        r = subprocess.run([sys.executable, os.path.join(HERE, "tools", "seedtest.py"), os.path.join(d, "patch.diff")], capture_output=True, text=True)
        fired, rules, undecided = [], [], []
        for line in r.stdout.splitlines():
            mu = re.match(r"(C\d\d) undecided", line)
            if mu:
                undecided.append(mu.group(1))
            if line.startswith("FIRED:"):
                fired = [f for f in line.split()[1:] if f != "none"]
            m = re.match(r"\s+(C\d\d\.\w+) @(\S+): (.*)", line)
            if m:
                rules.append("%s @%s" % (m.group(1), m.group(2).rstrip(":")))
        old = meta.get("checks_reporting_it")
        meta["checks_reporting_it"] = fired
        meta["rules_reporting_it"] = sorted(set(rules))[:12]
        meta["target_check_reports_it"] = meta["property"] in fired
        meta["checks_undecided_on_it"] = undecided
        json.dump(meta, open(mp, "w"), indent=1)
        print(sid, "was", old, "now", fired, ("undecided: %s" % undecided) if undecided else "")


if __name__ == "__main__":
    main()
