#!/bin/bash
# confirm8.sh <ID> <X>: demo on clean worktree, demo patched, unedited suite patched; writes both confirmation formats
ID=$1; X=$2; W=/tmp/seed8/$ID
cd $W || exit 9
git checkout -q -- . ; git clean -fdq -e out
export PYTHONPATH=$W
[ -f out/$X/patch.diff ] || { echo "$ID-$X no patch"; exit 0; }
timeout 300 /venv/bin/python out/$X/demo.py > out/$X/demo_clean.log 2>&1; dc=$?
git apply out/$X/patch.diff || { echo "$ID-$X patch does not apply"; exit 0; }
touched=$(git diff --name-only | tr '\n' ' ')
timeout 300 /venv/bin/python out/$X/demo.py > out/$X/demo_patched.log 2>&1; dp=$?
s=$(/venv/bin/python -m pytest -q -p no:cacheprovider --timeout=900 2>&1 | tail -1); 
git checkout -q -- . ; git clean -fdq -e out
case "$s" in *failed*|*error*) se=1;; *passed*) se=0;; *) se=1;; esac
echo "$ID-$X demo_clean=$dc demo_patched=$dp suite: $s" >> /tmp/seed8/confirm.txt
printf "demo_clean_exit=%s\ndemo_patched_exit=%s\nsuite_exit=%s %s\ntouched=%s\n" $dc $dp $se "$s" "$touched" > /tmp/seed8/confirm_${ID}_${X}.txt
echo "$ID-$X demo_clean=$dc demo_patched=$dp suite: $s touched: $touched"
