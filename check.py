#!/venv/bin/python
"""check.py <property id> [--tier quick|thorough] [--repo DIR] [--replay FILE]

Static decision of one property of alexpdev/torrentfile from the source under --repo
(default /repo). Nothing from the repository is imported or executed.

exit 0  every obligation holds (or is a listed known finding)
exit 1  at least one unlisted violated obligation   (prints VIOLATION property=<id> replay=<path>)
exit 2  nothing violated but something undecided / anchor vanished / analyser crashed (ANALYSIS-ERROR)
"""
import argparse
import importlib
import json
import os
import sys
import time
import traceback

HERE = os.path.dirname(os.path.abspath(__file__))
sys.path.insert(0, HERE)
sys.setrecursionlimit(10000)

from tfsa.loader import AnalysisError  # noqa: E402
from tfsa.report import Ctx, finish, UNDECIDED  # noqa: E402

ALL = ["C%02d" % i for i in range(1, 21)]


def _analyse_once(prop, root, normalise):
    mod = importlib.import_module("rules." + prop.lower())
    ctx = Ctx(root, prop, normalise=normalise)
    try:
        mod.run(ctx)
    except AnalysisError as exc:
        ctx.undecided(prop + ".engine", None, "analysis could not be completed: %s" % exc)
    except RecursionError:
        ctx.undecided(prop + ".engine", None, "analysis recursion limit")
    except Exception as exc:  # analyser bug: never a verdict
        tb = traceback.format_exc().strip().splitlines()
        ctx.undecided(prop + ".engine", None, "analyser crashed: %r (%s)" % (exc, " | ".join(tb[-3:])))
    return ctx, mod


def _open_questions(ctx):
    from tfsa.report import load_known, match_known
    known = load_known()
    viol = [o for o in ctx.obs if o.status == "VIOLATED" and not match_known(o, known)]
    und = [o for o in ctx.obs if o.status == UNDECIDED] + [f for f in ctx.floors if f[2] < f[1]]
    return viol, und


def analyse(prop, root):
    """Run the rule module of `prop` over the tree at root; returns Ctx (never raises).

    The tree is read as written.  When that reading leaves something undecided or reports a violation, the tree is read a
    second time with small helpers dissolved into their callers (tfsa/inline.py - the inverse of "extract method"), and the
    two readings of what is equivalent code are reconciled per rule:
      * undecided first, decided second: the second reading is adopted (holds or violated);
      * violated in one reading, holds in the other: a contradiction between two readings of equivalent code - one of them
        misreads the code, and it is not known which: UNDECIDED, never a violation;
      * violated in one reading, undecided in the other (or the other reading could not be completed): the violation stands.
    VERIF_NO_SECOND_READING=1 switches the second reading off."""
    ctx, mod = _analyse_once(prop, root, False)
    if os.environ.get("VERIF_NO_SECOND_READING"):
        return ctx, mod
    viol, und = _open_questions(ctx)
    if not viol and not und:
        return ctx, mod
    try:
        ctx2, _ = _analyse_once(prop, root, True)
    except AnalysisError:
        return ctx, mod
    if not ctx2.prog.dissolved:
        return ctx, mod
    viol2, und2 = _open_questions(ctx2)

    def open_rules(c, u):
        """rule ids a reading left open; '*' when the reading as a whole is incomplete (engine trouble, a floor not met)."""
        out = set()
        for o in u:
            if hasattr(o, "rule"):
                out.add("*" if o.rule.endswith(".engine") or o.rule.endswith(".selftest") else o.rule)
            else:
                out.add("*")
        return out
    open1, open2 = open_rules(ctx, und), open_rules(ctx2, und2)
    near = lambda o, c: [x.split(":", 1)[1] for x in c.prog.dissolved if str(o.site).startswith(x.split(":", 1)[0] + ":")] or ["helpers of other modules"]
    if viol:
        # the first reading reports something: is it confirmed by the second?
        keys2 = {(o.rule, str(o.site)) for o in viol2}
        open2k = {(o.rule, str(o.site)) for o in und2 if hasattr(o, "rule")}
        changed = False
        for o in viol:
            site = str(o.site)
            if (o.rule, site) in keys2 or "*" in open2:
                continue        # confirmed, or the second reading as a whole is incomplete
            if site not in ctx2.prog.functions and site not in ("<module>", "None"):
                # the function the finding sits in was itself dissolved into its callers: the finding is confirmed if the second
                # reading reports the same rule anywhere, and stands if it leaves that rule open anywhere; if the rule holds
                # everywhere in the second reading, the two readings contradict each other
                if any(r_ == o.rule for r_, _ in keys2) or any(r_ == o.rule for r_, _ in open2k):
                    continue
            elif (o.rule, site) in open2k or (o.rule, "<module>") in open2k or (site in ("<module>", "None") and (o.rule in open2 or any(r_ == o.rule for r_, _ in keys2))):
                continue        # the second reading leaves this very rule open at this place
            o.status = UNDECIDED
            o.detail += " [not confirmed: read again with %s inlined, rule %s holds everywhere - two readings of equivalent code disagree, so this is not reported as a violation]" % (
                ", ".join(near(o, ctx2)[:6]), o.rule)
            changed = True
        if changed:
            ctx.info["second_reading"] = {"why": "the first reading reported violations", "helpers_inlined": ctx2.prog.dissolved,
                                          "violations_not_confirmed": sorted({o.rule for o in viol if o.status == UNDECIDED})}
        return ctx, mod
    # nothing violated, something undecided
    for o in viol2:
        if not (o.rule in open1 or "*" in open1):
            # the first reading had decided this rule (it holds there): a contradiction, not a finding
            o.status = UNDECIDED
            o.detail += " [only in the second reading, after inlining %s; the reading of the tree as written decides rule %s and finds it holding - the two disagree, so this is not reported as a violation]" % (
                ", ".join(near(o, ctx2)[:6]), o.rule)
    viol2, und2 = _open_questions(ctx2)
    if viol2 or not und2:
        for o in viol2:
            o.detail += " [second reading, after inlining %s]" % ", ".join(near(o, ctx2)[:8])
        ctx2.info["second_reading"] = {
            "why": "the tree as written left %d obligation(s) undecided" % len(und),
            "first_reading_undecided": [getattr(o, "detail", None) or str(o[0]) for o in und][:12],
            "helpers_inlined": ctx2.prog.dissolved,
        }
        return ctx2, mod
    ctx.info["second_reading"] = {"tried": True, "helpers_inlined": ctx2.prog.dissolved, "still_undecided": len(und2)}
    return ctx, mod


def _watchdog(seconds):
    """An analysis that does not finish is never a verdict: exit 2 after `seconds`."""
    import signal

    def _alarm(signum, frame):
        print("ANALYSIS-ERROR analysis did not finish within %d s" % seconds)
        sys.stdout.flush()
        os._exit(2)
    try:
        signal.signal(signal.SIGALRM, _alarm)
        signal.alarm(seconds)
    except (ValueError, AttributeError):
        pass


def main(argv=None):
    # (the thorough tier replays several hundred seeded variants of the tree; give it an hour before calling it stuck)
    thorough = "thorough" in (argv if argv is not None else sys.argv[1:]) or os.environ.get("VERIF_TIER") == "thorough"
    _watchdog(int(os.environ.get("VERIF_TIMEOUT", "3600" if thorough else "900")))
    ap = argparse.ArgumentParser()
    ap.add_argument("prop")
    ap.add_argument("--tier", default=os.environ.get("VERIF_TIER", "quick"), choices=["quick", "thorough"])
    ap.add_argument("--repo", default="/repo")
    ap.add_argument("--replay")
    ap.add_argument("--out")
    ap.add_argument("--jobs", type=int, default=min(16, os.cpu_count() or 1))
    args = ap.parse_args(argv)
    prop = args.prop.upper()
    if prop not in ALL:
        print("unknown property", prop)
        return 2
    seed = int(os.environ.get("VERIF_SEED", "0") or 0)
    t0 = time.time()
    try:
        ctx, mod = analyse(prop, args.repo)
    except AnalysisError as exc:
        print("ANALYSIS-ERROR property=%s cannot load the source tree: %s" % (prop, exc))
        return 2
    except ModuleNotFoundError as exc:
        print("ANALYSIS-ERROR property=%s rule module missing: %s" % (prop, exc))
        return 2
    if args.replay:
        with open(args.replay) as fh:
            want = json.load(fh)["obligation"]
        hits = [o for o in ctx.obs if o.rule == want["rule"] and o.site == want["site"]
                and o.as_dict().get("construct", "") == want.get("construct", "")]
        for o in hits:
            print(json.dumps(o.as_dict(), indent=1))
        bad = [o for o in hits if o.status != "HOLDS"]
        if bad:
            print("VIOLATION property=%s replay=%s" % (prop, args.replay))
            return 1
        print("replay: obligation %s" % ("holds now" if hits else "no longer present"))
        return 0
    extra = {}
    if args.tier == "thorough" or getattr(mod, "QUICK_CANARIES", None):
        from tfsa import selftest
        try:
            st = selftest.run(prop, mod, args.repo, args.tier, seed, args.jobs)
        except Exception as exc:
            tb = traceback.format_exc().strip().splitlines()
            ctx.undecided(prop + ".selftest", None, "self-test crashed: %r (%s)" % (exc, " | ".join(tb[-3:])))
            st = None
        if st is not None:
            extra["self_test"] = st["summary"]
            extra["kill_matrix"] = st["matrix"]
            for msg in st["failures"]:
                ctx.undecided(prop + ".selftest", None, msg)
    code, _ = finish(ctx, args.tier, seed, t0, mod.EXPLANATION, mod.RULE_TEXT, extra=extra,
                     out_dir=args.out)
    return code


if __name__ == "__main__":
    try:
        rc = main()
    except SystemExit:
        raise
    except BaseException as exc:  # pragma: no cover
        print("ANALYSIS-ERROR analyser crashed: %r" % (exc,))
        traceback.print_exc()
        rc = 2
    sys.stdout.flush()
    os._exit(rc)
