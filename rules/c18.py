"""C18 - inspecting commands are read-only; create writes one file; rename never clobbers.

Decided by effect summaries over the whole-package call graph (who-may-write), CFG dominance /
must-pass-through for the probe and the rename guard, and value-origin terms for the targets.
"""
import ast

from tfsa.flow import Flow, show
from tfsa.effects import mode_is_write
from tfsa.report import norm
from tfsa.loader import own_nodes
from . import common as C

PROP = "C18"
EXPLANATION = (
    "Who-may-write analysis: from every entry point of info / recheck / magnet (commands, the Checker classes, "
    "the interactive recheck, the shared prefix of cli.execute and all import-time code) the set of reachable "
    "file-system-mutating primitives (effect table, tfsa/effects.py) must be empty and every reachable open() must "
    "have a constant read-only mode. For create the reachable mutating sites must be exactly the writability probe "
    "(append-open + removal of the same variable, removal on every normal path) and a single, non-looping pyben.dump "
    "whose target does not derive from the payload path (except through basename); every other reachable primitive "
    "is a violation. For rename the only mutating site is os.rename, dominated by an existence test on the same "
    "destination whose 'exists' branch cannot reach the rename. The argument covers all inputs because it is about "
    "which primitives are reachable in the call graph at all, not about sampled executions.")
RULE_TEXT = ("one obligation per (entry group x reachable primitive site) plus one 'nothing else reachable' obligation per "
             "entry; non-trivial = decided through call-graph reachability, CFG dominance or an origin-term walk")

RO_FUNCS = ["torrentfile.commands:info", "torrentfile.commands:recheck", "torrentfile.commands:magnet",
            "torrentfile.commands:get_magnet", "torrentfile.interactive:recheck_torrent"]
RO_CLASSES = ["torrentfile.recheck:Checker", "torrentfile.recheck:FeedChecker", "torrentfile.recheck:HashChecker"]
CREATE_FUNCS = ["torrentfile.commands:create"]
CREATE_CLASSES = ["torrentfile.torrent:MetaFile", "torrentfile.torrent:TorrentFile", "torrentfile.torrent:TorrentFileV2",
                  "torrentfile.torrent:TorrentFileHybrid", "torrentfile.torrent:TorrentAssembler",
                  "torrentfile.hasher:Hasher", "torrentfile.hasher:HasherV2", "torrentfile.hasher:HasherHybrid",
                  "torrentfile.hasher:FileHasher"]
OPEN_PRIMS = ("builtins.open", "io.open", "codecs.open", "Path.open")


def _eff_text(e):
    return "%s  [%s]" % (norm(e.site), e.prim + (" " + e.detail if e.detail else ""))


def readonly(ctx, label, entries, skip_dispatch=False, floor_opens=0):
    effs, precise, full = C.reach_effects(ctx, entries, ("fs-write", "fs-write?", "fs-read"), skip_dispatch)
    nwrite = 0
    opens = 0
    for e, chain, prec in effs:
        where = C.chain_text(chain, e.fn)
        if e.kind == "fs-write":
            nwrite += 1
            if prec:
                ctx.violated("C18.1", e.fn, "%s reaches a file-system-mutating primitive: %s" % (label, _eff_text(e)),
                             e.site, path=where)
            else:
                ctx.undecided("C18.1", e.fn, "%s may reach %s, but only through a call on an unresolved receiver" % (label, _eff_text(e)),
                              e.site, path=where)
        elif e.kind == "fs-write?":
            nwrite += 1
            ctx.undecided("C18.1", e.fn, "%s reaches a primitive that cannot be classified: %s" % (label, _eff_text(e)),
                          e.site, path=where)
        elif e.prim in OPEN_PRIMS:
            opens += 1
            ctx.holds("C18.1", e.fn, "%s: reachable open() has constant read-only %s" % (label, e.detail), e.site, path=where)
    ctx.decide("C18.1", None, nwrite == 0,
               "%s: no file-system-mutating primitive reachable (%d functions, %d reached only by name over-approximation)" % (
                   label, len(full), len(full) - len(precise)),
               "%s: %d file-system-mutating primitive site(s) reachable" % (label, nwrite),
               construct="entry group " + label, nontrivial=True)
    if floor_opens:
        ctx.floor("open() sites reachable from " + label, floor_opens, opens)
    return full


def target_problems(terms, allowed_params, allowed_attrs):
    """Walk an origin-term set of a written path; returns (payload-derived leaves, unknown leaves)."""
    bad, unk = [], []

    def walk(ts, under_base):
        for t in ts:
            k = t[0]
            if k == "param":
                if t[2] in allowed_params or under_base:
                    continue
                bad.append("parameter %s of %s" % (t[2], t[1].split(":")[1]))
            elif k == "attr":
                base_is_param = any(b[0] == "param" for b in t[1])
                if base_is_param:
                    if t[2] in allowed_attrs or under_base:
                        continue
                    bad.append("attribute .%s of the command namespace" % t[2])
                else:
                    # Path(...).name / .stem: the base name of a path object, like os.path.basename
                    walk(t[1], under_base or t[2] in ("name", "stem"))
            elif k == "ext":
                ub = under_base or t[1] in ("os.path.basename",)
                for a in t[2]:
                    walk(a, ub)
                for _, v in (t[3] if len(t) > 3 else ()):
                    walk(v, ub)
            elif k == "meth":
                walk(t[2], under_base)
                for a in t[3]:
                    walk(a, under_base)
            elif k in ("op", "list", "fstr"):
                for a in t[2] if k == "op" else t[1]:
                    walk(a, under_base)
            elif k == "dict":
                for a, b in t[1]:
                    walk(a, under_base)
                    walk(b, under_base)
            elif k in ("sub",):
                tail = any(i == ("const", 1) for i in t[2]) and all(b[0] == "ext" and b[1] == "os.path.split" for b in t[1]) and t[1]
                walk(t[1], under_base or bool(tail))
            elif k in ("elem", "added"):
                walk(t[1], under_base)
            elif k in ("kelem", "inloop"):
                walk(t[1], under_base)
                walk(t[2], under_base)
            elif k == "pkgcall":
                for _, v in t[2]:
                    walk(v, under_base)
            elif k == "inst":
                for _, v in t[2]:
                    walk(v, under_base)
            elif k in ("selfattr", "unknown"):
                if not under_base:
                    unk.append(repr(t)[:80])
            # const / global / self / rec / lambda: harmless
    walk(terms, False)
    return bad, unk


def create_rules(ctx):
    entries = C.funcs(ctx, CREATE_FUNCS) + C.class_methods(ctx, CREATE_CLASSES)
    effs, precise, full = C.reach_effects(ctx, entries, ("fs-write", "fs-write?"))
    stop = C.funcs(ctx, ["torrentfile.torrent:MetaFile.__init__", "torrentfile.torrent:MetaFile.write",
                         "torrentfile.commands:create"])
    flow = Flow(ctx.prog, ctx.res, stop_funcs=stop)
    dumps = []
    probes = []
    for e, chain, prec in effs:
        where = C.chain_text(chain, e.fn)
        if not prec or e.kind == "fs-write?":
            ctx.undecided("C18.2", e.fn, "create may reach %s (%s)" % (_eff_text(e), "unresolved receiver" if not prec else "unclassified"),
                          e.site, path=where)
            continue
        if e.prim == "pyben.dump":
            dumps.append((e, where))
            continue
        if e.prim in ("builtins.open", "io.open"):
            probes.append((e, where))
            continue
        if e.prim in ("os.remove", "os.unlink"):
            # accepted only as the removal half of a probe (checked below)
            continue
        ctx.violated("C18.2", e.fn, "create reaches a file-system-mutating primitive that is neither the writability probe nor the metafile dump: %s" % _eff_text(e),
                     e.site, path=where)
    # --- the probe: append-open of V, removal of the same V on every normal path
    removes = [(e, ch) for e, ch, p in effs if e.prim in ("os.remove", "os.unlink") and p]
    paired = set()
    for e, where in probes:
        fn = e.fn
        mode = e.detail
        call = e.site
        ok = False
        why = ""
        if "'a" not in mode and "a" not in mode.replace("mode=", ""):
            why = "open for writing with %s truncates or creates content" % mode
        elif not call.args or not isinstance(call.args[0], ast.Name):
            why = "probe target is not a plain variable"
        else:
            var = call.args[0].id
            g = C.cfg_of(fn)
            on = C.stmt_node(ctx, fn, call)
            for r, _ in removes:
                if r.fn is fn and r.site.args and isinstance(r.site.args[0], ast.Name) and r.site.args[0].id == var:
                    rn = C.stmt_node(ctx, fn, r.site)
                    if g.must_pass(on, g.exit, {rn}) and not C.names_assigned_between(ctx, fn, on, rn, var):
                        ok = True
                        paired.add(id(r.site))
            if not ok:
                why = "no removal of the same variable on every normal path after the append-open"
        if ok:
            t = flow.term(call.args[0], fn)
            bad, unk = target_problems(t, {"outfile"}, {"outfile"})
            if bad:
                ctx.violated("C18.2", fn, "writability probe target derives from %s" % ", ".join(sorted(set(bad))), call, path=where)
            elif unk:
                ctx.undecided("C18.2", fn, "origin of the probe target not understood: %s" % unk[0], call, path=where)
            else:
                ctx.holds("C18.2", fn, "writability probe: append-open and removal of the same variable on every normal path; target derives from the output argument / cwd only",
                          call, path=where)
        else:
            ctx.violated("C18.2", fn, "create opens a file for writing that is not a removed probe: %s" % why, call, path=where)
    for r, chain in removes:
        if id(r.site) not in paired:
            ctx.violated("C18.2", r.fn, "create removes a file that is not its own writability probe", r.site,
                         path=C.chain_text(chain, r.fn))
    # --- exactly one dump, not in a loop, target not payload derived
    ctx.floor("pyben.dump sites reachable from create", 1, len(dumps))
    if len(dumps) > 1:
        for e, where in dumps[1:]:
            ctx.violated("C18.2", e.fn, "create reaches more than one metafile dump site", e.site, path=where)
    for e, where in dumps[:1]:
        fn = e.fn
        call = e.site
        loop = C.in_loop(ctx, fn, call)
        if loop:
            ctx.violated("C18.2", fn, "the metafile dump can execute more than once per create (it lies on a loop)", call, path=where)
            continue
        if len(call.args) < 2:
            ctx.undecided("C18.2", fn, "dump call without positional target", call)
            continue
        t = flow.term(call.args[1], fn)
        bad, unk = target_problems(t, {"outfile"}, {"outfile"})
        if bad:
            ctx.violated("C18.2", fn, "the dump target derives from %s (the payload path may only contribute its base name)" % ", ".join(sorted(set(bad))),
                         call, path=where)
        elif unk:
            ctx.undecided("C18.2", fn, "origin of the dump target not understood: %s" % unk[0], call, path=where)
        else:
            ctx.holds("C18.2", fn, "single non-looping pyben.dump; target = %s" % show(t, maxdepth=3)[:160], call, path=where)
    return full


def _vacancy_guard(ctx, fn, use, dst, depth):
    """Is the statement containing `use` reached only when nothing exists at the path held by variable `dst`?
    (True, text, weak) / (False, text, weak) / (None, reason, weak).  The test may sit in this function, or in the package
    function that produced the path (a helper that builds the destination and insists it is free)."""
    g = C.cfg_of(fn)
    rn = C.stmt_node(ctx, fn, use)
    weak = []
    for tnode in g.live_nodes():
        if tnode.kind != "test" or not g.dominates(tnode, rn):
            continue
        texpr = C.test_expr(tnode)

        def atom(x):
            # only a test for *any* kind of entry protects: is_file / isfile lets a directory, FIFO, socket or a link to a
            # directory through, and os.rename silently replaces those (shutil.move moves into a directory)
            if C.is_ext_call(ctx, x, fn, ("os.path.exists", "os.path.lexists")) and x.args \
                    and isinstance(x.args[0], ast.Name) and x.args[0].id == dst:
                return True
            if isinstance(x, ast.Call) and isinstance(x.func, ast.Attribute) and x.func.attr in ("exists",) \
                    and isinstance(x.func.value, ast.Name) and x.func.value.id == dst:
                return True
            if C.is_ext_call(ctx, x, fn, ("os.path.isfile", "os.path.isdir", "os.path.islink")) and x.args and isinstance(x.args[0], ast.Name) and x.args[0].id == dst:
                weak.append(norm(x))
            if isinstance(x, ast.Call) and isinstance(x.func, ast.Attribute) and x.func.attr in ("is_file", "is_dir", "is_symlink") and isinstance(x.func.value, ast.Name) and x.func.value.id == dst:
                weak.append(norm(x))
            return None
        lab = C.branch_when(tnode, atom)
        if lab is None:
            continue
        taken = C.succ_by_label(tnode, lab)
        if any(rn is s_ or rn in g.reachable(s_) for s_ in taken):
            continue
        if C.names_assigned_between(ctx, fn, tnode, rn, dst):
            continue
        return True, "dominated by the test '%s' in %s; when the destination exists the %s branch is taken and it cannot reach this statement" % (norm(texpr), fn.name, lab), weak
    # the path may come, already vetted, from a package function
    bl = ctx.res.bindings(fn).get(dst, [])
    if len(bl) == 1 and bl[0][0] == "value" and isinstance(bl[0][1], ast.Call):
        tg = C.targets_of(ctx, fn, bl[0][1])
        if tg and depth < 2:
            texts = []
            for f in tg:
                rets = [r for r in own_nodes(f.node) if isinstance(r, ast.Return) and r.value is not None]
                if not rets or not all(isinstance(r.value, ast.Name) for r in rets):
                    return None, "the destination comes from %s, whose return value is not a plain variable" % f.name, weak
                for r in rets:
                    v, t, w = _vacancy_guard(ctx, f, r, r.value.id, depth + 1)
                    weak += w
                    if v is not True:
                        return v, t, weak
                    texts.append(t)
            return True, "the destination comes from %s: %s" % (", ".join(f.name for f in tg), texts[0]), weak
        if tg:
            return None, "the destination comes through more than two helper levels", weak
    return False, "", weak


def rename_rules(ctx):
    entries = C.funcs(ctx, ["torrentfile.commands:rename"])
    effs, precise, full = C.reach_effects(ctx, entries, ("fs-write", "fs-write?"))
    n_rename = 0
    for e, chain, prec in effs:
        where = C.chain_text(chain, e.fn)
        if not prec or e.kind == "fs-write?":
            ctx.undecided("C18.3", e.fn, "rename may reach %s" % _eff_text(e), e.site, path=where)
            continue
        if e.prim not in ("os.rename", "shutil.move"):
            ctx.violated("C18.3", e.fn, "rename reaches a file-system-mutating primitive other than os.rename: %s" % _eff_text(e),
                         e.site, path=where)
            continue
        n_rename += 1
        fn, call = e.fn, e.site
        mover = e.prim == "shutil.move"     # acts like os.rename only when the destination does not exist at all (else it moves INTO a directory)
        if len(call.args) < 2 or not isinstance(call.args[1], ast.Name):
            ctx.undecided("C18.3", fn, "destination of os.rename is not a plain variable", call)
            continue
        dst = call.args[1].id
        verdict, text, weak = _vacancy_guard(ctx, fn, call, dst, 0)
        if verdict is True:
            ctx.holds("C18.3", fn, "%s: %s" % (e.prim, text), call, path=where)
        elif verdict is None:
            ctx.undecided("C18.3", fn, "%s(%s, %s): %s" % (e.prim, norm(call.args[0]), dst, text), call, path=where)
        else:
            ctx.violated("C18.3", fn, "%s(%s, %s) is not guarded by an existence test on the destination whose 'exists' branch leaves the function: an existing %s" % (
                e.prim, norm(call.args[0]), dst, "entry that is not a regular file (directory, FIFO, link to a directory) passes `%s` and is replaced%s" % (
                    weak[0], " - shutil.move even moves the metafile into an existing directory" if mover else "") if weak else "file would be replaced"), call, path=where)
    ctx.floor("os.rename sites reachable from commands.rename", 1, n_rename)


def run(ctx):
    ctx.trust("effect table of external primitives (tfsa/effects.py): open modes, os/shutil/pathlib/pyben primitives")
    ctx.trust("pyben.load only reads; pyben.dump(obj, path) opens path 'wb' once")
    ctx.trust("no exec/eval/importlib/non-constant getattr in the package (dynamic-feature scan)")
    ro = C.funcs(ctx, RO_FUNCS) + C.class_methods(ctx, RO_CLASSES)
    readonly(ctx, "info/recheck/magnet", ro, floor_opens=2)
    ex = C.funcs(ctx, ["torrentfile.cli:execute", "torrentfile.cli:main", "torrentfile.__main__:main"])
    readonly(ctx, "cli.execute prefix (before dispatch) and import-time code", ex + C.module_level_entries(ctx), skip_dispatch=True)
    create_rules(ctx)
    rename_rules(ctx)
    from .dynscan import dynamic_features
    dynamic_features(ctx, "C18.0")


MUTANTS = [
    {"name": "recheck-open-rplus", "file": "torrentfile/recheck.py", "expect": "violated", "rule": "C18.1", "canary": True, "quick": True,
     "what": "recheck opens payload files r+b", "edits": [('with open(path, "rb") as current:', 'with open(path, "r+b") as current:')]},
    {"name": "filehasher-open-rplus", "file": "torrentfile/hasher.py", "expect": "violated", "rule": "C18.1", "canary": True,
     "what": "FileHasher (used by recheck) opens r+b", "edits": [('self.current = open(path, "rb")\n        self.hybrid', 'self.current = open(path, "r+b")\n        self.hybrid')]},
    {"name": "recheck-logfile", "file": "torrentfile/recheck.py", "expect": "violated", "rule": "C18.1", "canary": True,
     "what": "Checker.log_msg appends to a log file next to the metafile",
     "edits": [("            logger.log(level, message)\n", "            logger.log(level, message)\n            with open(str(self.metafile) + '.log', 'a') as logfile:\n                logfile.write(message)\n")]},
    {"name": "magnet-cache-file", "file": "torrentfile/commands.py", "expect": "violated", "rule": "C18.1", "canary": True,
     "what": "magnet writes the URI to a sidecar file via pathlib",
     "edits": [('    sys.stdout.write("\\n" + magnet + "\\n")\n    return magnet', '    sys.stdout.write("\\n" + magnet + "\\n")\n    Path(str(metafile) + ".magnet").write_text(magnet)\n    return magnet')]},
    {"name": "info-basicconfig-filename", "file": "torrentfile/commands.py", "expect": "violated", "rule": "C18.1",
     "what": "info configures a log file", "edits": [("    metafile = args.metafile\n    meta = pyben.load(metafile)\n    data = meta[\"info\"]", "    metafile = args.metafile\n    logging.basicConfig(filename=metafile + '.log')\n    meta = pyben.load(metafile)\n    data = meta[\"info\"]")]},
    {"name": "progressbar-state-file", "file": "torrentfile/mixins.py", "expect": "violated", "rule": "C18.1", "canary": True,
     "what": "progress bar persists its state (reached from recheck through an unresolved receiver)",
     "edits": [("        self.state += val\n", "        self.state += val\n        os.makedirs('.progress', exist_ok=True)\n")]},
    {"name": "rename-guard-dropped", "file": "torrentfile/commands.py", "expect": "violated", "rule": "C18.3", "canary": True, "quick": True,
     "what": "rename no-clobber guard removed (a nocover line)",
     "edits": [("    if os.path.exists(new_path):\n        raise FileExistsError  # pragma: nocover\n", "")]},
    {"name": "rename-guard-wrong-var", "file": "torrentfile/commands.py", "expect": "violated", "rule": "C18.3", "canary": True,
     "what": "guard tests the source instead of the destination",
     "edits": [("    if os.path.exists(new_path):\n        raise FileExistsError", "    if not os.path.exists(target):\n        raise FileExistsError")]},
    {"name": "rename-guard-logs-only", "file": "torrentfile/commands.py", "expect": "violated", "rule": "C18.3", "canary": True,
     "what": "guard only logs and falls through",
     "edits": [("        raise FileExistsError  # pragma: nocover\n", "        logger.warning('exists')\n")]},
    {"name": "rename-uses-replace", "file": "torrentfile/commands.py", "expect": "violated", "rule": "C18.3",
     "what": "rename copies content instead of renaming", "edits": [("    os.rename(target, new_path)", "    shutil.copy(target, new_path)\n    os.remove(target)")]},
    {"name": "create-probe-not-removed", "file": "torrentfile/utils.py", "expect": "violated", "rule": "C18.2", "canary": True,
     "what": "probe file left behind", "edits": [("        os.remove(path)\n    except PermissionError", "        pass\n    except PermissionError")]},
    {"name": "create-probe-truncates", "file": "torrentfile/utils.py", "expect": "violated", "rule": "C18.2", "canary": True,
     "what": "probe opens 'wb' (truncates an existing output)", "edits": [('with open(path, "ab") as _:', 'with open(path, "wb") as _:')]},
    {"name": "create-hasher-rplus", "file": "torrentfile/hasher.py", "expect": "violated", "rule": "C18.2", "canary": True,
     "what": "v1 hasher opens payload r+b", "edits": [('self.current = open(path, "rb")\n            return True', 'self.current = open(path, "r+b")\n            return True')]},
    {"name": "create-second-dump", "file": "torrentfile/torrent.py", "expect": "violated", "rule": "C18.2", "canary": True,
     "what": "create also writes a backup copy next to the payload",
     "edits": [("            pyben.dump(self.meta, self.outfile)\n", "            pyben.dump(self.meta, self.outfile)\n            pyben.dump(self.meta, str(self.path) + '.bak')\n")]},
    {"name": "create-dump-into-payload", "file": "torrentfile/torrent.py", "expect": "violated", "rule": "C18.2", "canary": True,
     "what": "default output placed inside the payload directory",
     "edits": [('            path = os.path.join(os.getcwd(), self.name) + ".torrent"', '            path = os.path.join(self.path, self.name) + ".torrent"')]},
    {"name": "create-listing-cache", "file": "torrentfile/utils.py", "expect": "violated", "rule": "C18.2",
     "what": "file list cached on disk", "edits": [("    return total, sorted(filelist)", "    Path(path, '.filelist').write_text(str(filelist))\n    return total, sorted(filelist)")]},
    # benign transforms
    {"name": "benign-extra-readonly-open", "file": "torrentfile/commands.py", "expect": "clean",
     "what": "magnet reads the file once more", "edits": [("    meta = pyben.load(metafile)\n    info_dict = meta[\"info\"]", "    with open(metafile, 'rb') as _fd:\n        _fd.read(1)\n    meta = pyben.load(metafile)\n    info_dict = meta[\"info\"]")]},
    {"name": "benign-rename-guard-rewritten", "file": "torrentfile/commands.py", "expect": "clean",
     "what": "guard rewritten with else branch", "edits": [("    if os.path.exists(new_path):\n        raise FileExistsError  # pragma: nocover\n    os.rename(target, new_path)\n", "    if not os.path.exists(new_path):\n        os.rename(target, new_path)\n    else:\n        raise FileExistsError(new_path)\n")]},
    {"name": "benign-stream-output", "file": "torrentfile/recheck.py", "expect": "clean",
     "what": "extra print to stderr", "edits": [("        print(\"Extracting data from torrent file...\")", "        print(\"Extracting data from torrent file...\")\n        import sys\n        sys.stderr.write('x')")]},
]
QUICK_CANARIES = True

CLAIM = {
    "text": "Decided for all inputs and configurations as a who-may-write argument: no file-system-mutating primitive is reachable in the call graph "
            "from info / recheck / magnet / the CLI prefix; create reaches only its removed writability probe and one non-looping dump whose target "
            "is not payload-derived; rename reaches only os.rename under a dominating existence guard. Byte-for-byte equality of untouched files "
            "follows because nothing that could change them is reachable, under the effect table. The destination guard of rename must test for any kind of entry (exists / lexists), not is_file.",
    "note": "Trusted: CPython/pyben primitive semantics as tabulated in tfsa/effects.py; call resolution is over-approximating (unknown receivers link to every "
            "same-named package method; unresolved writes are reported as undecided, exit 2); user-supplied callbacks are outside the package.",
    "technique": "effect summaries over the resolved call graph (who-may-write), CFG dominance / must-pass-through, origin-term slicing of written paths",
    "design_ref": "DESIGN.md section 4, C18; section 3.3-3.5",
}
