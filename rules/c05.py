"""C05 - recheck reports exactly 100% for intact content (path-mapping clauses only)."""
from . import recheck_rules as R
from .recheck_mutants import MUT_C05

PROP = "C05"
EXPLANATION = (
    "Thin partial. The verdict itself is hash equality over all inputs and is not decidable statically. Decided is the "
    "path mapping and reader/writer agreement that intact content needs: C05.1 find_root returns the given path only on a name match, "
    "<path>/<name> only when that entry exists, never a directory for a single-file metafile and never a second level for a directory torrent given by its own root, so root and parent "
    "spelling are indistinguishable downstream; the single-file layout of a v2 file tree is recognised from the tree, not only from info.length; C05.2 v1: one path per info.files entry (padding entries included), in "
    "order, built from the entry's components; v2/hybrid: one path per file-tree leaf built from the accumulated keys; "
    "a hybrid is never checked through info.files (so an independent encoder's missing trailing padding entry cannot "
    "matter); C05.3 every read of a leaf key the creators omit for empty files is guarded, and the reader's piece-layer "
    "predicate is the creators' strict length > piece length; plus the carried-buffer / iterator clauses shared with C04 "
    "that make an intact torrent ending in an empty file or containing empty files still reach 100%; C05.4 the bookkeeping "
    "shared with C04.1 (result = matched / examined * 100 handed through unchanged; the payload total grows for exactly the entries "
    "that are compared), without which intact content is reported as more or less than 100; C05.5 the piece length both piece checkers hash with "
    "is the metafile's recorded value itself (origin term of the attribute = decoded['info']['piece length'], no creator-side normalisation in between).")
RULE_TEXT = "one obligation per mapping fact; shared iterator clauses re-labelled"


def run(ctx):
    ctx.trust("hash equality on intact content is NOT decided")
    R.path_mapping(ctx, "C05.1")
    R.carried_buffer(ctx, "C05.2")
    R.stop_iteration_discipline(ctx, "C05.3")
    R.bookkeeping(ctx, "C05.4")
    R.recorded_piece_length(ctx, "C05.5")
    R.recorded_hashes_verbatim(ctx, "C05.5")
    R.reader_merkle_padding(ctx, "C05.5")


MUTANTS = MUT_C05
QUICK_CANARIES = True
CLAIM = {
    "text": "Thin partial: decides only that metafile entries are mapped to the right disk paths completely and in order for both content-path spellings, that readers tolerate what writers "
            "omit, and that the iteration cannot end before the last piece. 'Exactly 100%' additionally needs the hashers and extractors to be right, which is not claimed here. C05.4 = the bookkeeping shared with C04.1; C05.5: the piece length the checkers hash with is the metafile's recorded value itself.",
    "note": "Not decided: the percentage itself. G22 (single-file v2 metafile without info.length) and G29 (parent directory named like a single file) are repaired in /repo; the rules of C05.1 report both if they return.",
    "technique": "return-shape and accepting-test enumeration, must-pass-through in reader loops, control dependence, reader/writer key and predicate agreement",
    "design_ref": "DESIGN.md section 4, C05",
}
