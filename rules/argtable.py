"""Extraction of the argparse tables of cli.execute (sub-parsers, rows, dispatch)."""
import ast

from tfsa.loader import own_nodes, AnalysisError
from tfsa.resolve import const_str

MISSING = object()


class _Subst(ast.NodeTransformer):
    def __init__(self, mapping):
        self.mapping = mapping

    def visit_Name(self, node):
        return self.mapping.get(node.id, node) if isinstance(node.ctx, ast.Load) else node


def loop_instances(ctx, fn, call):
    """add_argument inside `for a, b in ((..), (..))` over a literal table: one {loop variable: literal node} map per table
    row (nested loops multiply).  [{}] when the call is not inside such a loop; None when a loop's table cannot be read."""
    maps = [{}]
    p = ctx.prog.parent.get(call)
    while p is not None and p is not fn.node:
        if isinstance(p, (ast.While, ast.AsyncFor)):
            return None
        if isinstance(p, ast.For):
            it = p.iter
            if isinstance(it, ast.Name):
                lits = [n.value for n in own_nodes(fn.node) if isinstance(n, ast.Assign) and len(n.targets) == 1 and isinstance(n.targets[0], ast.Name) and n.targets[0].id == it.id]
                it = lits[0] if len(lits) == 1 else it
            if not isinstance(it, (ast.Tuple, ast.List)):
                return None
            rows = []
            for el in it.elts:
                if isinstance(p.target, ast.Name):
                    rows.append({p.target.id: el})
                elif isinstance(p.target, (ast.Tuple, ast.List)) and isinstance(el, (ast.Tuple, ast.List)) and len(el.elts) == len(p.target.elts) \
                        and all(isinstance(t, ast.Name) for t in p.target.elts):
                    rows.append({t.id: v for t, v in zip(p.target.elts, el.elts)})
                else:
                    return None
            maps = [dict(m, **r) for r in rows for m in maps]
        p = ctx.prog.parent.get(p)
    return maps


class Row:
    def __init__(self, call, scope=None, subst=None):
        self.call = call            # the statement as written (for reports); loop variables are replaced in a copy
        if subst:
            import copy
            call = _Subst(subst).visit(copy.deepcopy(call))
        self.flags = [const_str(a) for a in call.args]
        kw = {}
        # add_argument(..., **settings) with `settings` a dictionary literal bound once in the same function
        for k in call.keywords:
            if k.arg is None and isinstance(k.value, ast.Name) and scope is not None:
                lits = [n.value for n in own_nodes(scope) if isinstance(n, ast.Assign) and len(n.targets) == 1 and isinstance(n.targets[0], ast.Name)
                        and n.targets[0].id == k.value.id]
                if len(lits) == 1 and isinstance(lits[0], ast.Dict):
                    for dk, dv in zip(lits[0].keys, lits[0].values):
                        if dk is not None and const_str(dk):
                            kw[const_str(dk)] = dv
                    self.shared_settings = k.value.id
        kw.update({k.arg: k.value for k in call.keywords if k.arg})
        self.kw = kw
        self.action = const_str(kw["action"]) if "action" in kw else "store"
        self.nargs = _const(kw.get("nargs"), None)
        self.has_default = "default" in kw
        self.default = _const(kw.get("default"), MISSING) if "default" in kw else MISSING
        self.choices = _const(kw.get("choices"), None)
        self.required = _const(kw.get("required"), False)
        self.positional = bool(self.flags) and all(f is not None and not f.startswith("-") for f in self.flags)
        if "dest" in kw:
            self.dest = const_str(kw["dest"])
        elif self.positional:
            self.dest = self.flags[0]
        else:
            longs = [f for f in self.flags if f and f.startswith("--")]
            first = (longs or [f for f in self.flags if f])[0] if self.flags else None
            self.dest = first.lstrip("-").replace("-", "_") if first else None

    def long_options(self):
        return [f for f in self.flags if f and f.startswith("--")]

    def absent_value(self):
        """Value of the destination when the option is not on the command line (MISSING if undeterminable)."""
        if self.positional:
            if self.nargs in ("?", "*"):
                return self.default if self.has_default else (None if self.nargs == "?" else [])
            return MISSING  # always supplied
        if self.has_default:
            return self.default
        if self.action == "store_true":
            return False
        if self.action == "store_false":
            return True
        return None

    def value_kind(self):
        if self.action in ("store_true", "store_false"):
            return "bool"
        if self.nargs in ("+", "*") or isinstance(self.nargs, int) or self.action in ("append", "extend"):
            return "list"
        return "str"


def _const(node, default):
    if node is None:
        return default
    try:
        return ast.literal_eval(node)
    except Exception:
        return MISSING


class Parsers:
    def __init__(self, ctx):
        self.ctx = ctx
        fn = ctx.prog.func("torrentfile.cli:execute")
        self.fn = fn
        self.sub = {}    # variable -> {"names": [...], "rows": [Row], "func": expr|None, "node": call}
        self.main_rows = []
        self.unreadable = []     # add_argument calls inside loops whose table could not be read
        # the parser may be built in the entry point itself or in helper(s) it calls: every package function that
        # creates sub-parsers is a builder (variables are local to their builder)
        builders = [f for f in ctx.prog.functions.values()
                    if any(isinstance(n, ast.Call) and isinstance(n.func, ast.Attribute) and n.func.attr == "add_parser" for n in own_nodes(f.node))]
        self.builders = builders
        for b in builders:
            self._scan(b)
        for v in self.sub.values():
            v["rows"].sort(key=lambda r: r.call.lineno)

    def _scan(self, fn):
        key = (lambda var: var) if fn is self.fn or len(self.builders) == 1 else (lambda var: "%s.%s" % (fn.qual, var))
        for n in own_nodes(fn.node):
            if isinstance(n, ast.Assign) and len(n.targets) == 1 and isinstance(n.targets[0], ast.Name) and isinstance(n.value, ast.Call) \
                    and isinstance(n.value.func, ast.Attribute) and n.value.func.attr == "add_parser":
                call = n.value
                names = [const_str(call.args[0])] if call.args else []
                for kw in call.keywords:
                    if kw.arg == "aliases":
                        v = _const(kw.value, [])
                        if isinstance(v, (list, tuple)):
                            names += list(v)
                self.sub[key(n.targets[0].id)] = {"names": names, "rows": [], "func": None, "node": call, "builder": fn}
        for n in own_nodes(fn.node):
            if isinstance(n, ast.Call) and isinstance(n.func, ast.Attribute) and isinstance(n.func.value, ast.Name):
                var = key(n.func.value.id)
                if n.func.attr == "add_argument":
                    inst = loop_instances(self.ctx, fn, n)
                    if inst is None:
                        self.unreadable.append(n)
                        inst = [{}]
                    for m in inst:
                        if var in self.sub:
                            self.sub[var]["rows"].append(Row(n, fn.node, m))
                        else:
                            self.main_rows.append(Row(n, fn.node, m))
                elif n.func.attr == "set_defaults" and var in self.sub:
                    for kw in n.keywords:
                        if kw.arg == "func":
                            self.sub[var]["func"] = kw.value

    def by_command(self, name):
        for var, p in self.sub.items():
            if name in p["names"]:
                return p
        raise AnalysisError("anchor vanished: sub-parser %r" % name)

    def by_func(self, func_name):
        out = []
        for var, p in self.sub.items():
            f = p["func"]
            if f is not None and ast.unparse(f).split(".")[-1] == func_name:
                out.append(p)
        return out
