"""C09 - results never depend on what the process did earlier."""
import ast

from tfsa.loader import own_nodes, AnalysisError
from tfsa.report import norm
from tfsa.resolve import const_str
from . import common as C

PROP = "C09"
EXPLANATION = (
    "State inventory plus relevance analysis. C09.1: every construct in the package that can carry information from one "
    "operation to the next inside one process is enumerated - functools caches, class-based decorator instances that "
    "hold containers, module-level and class-level containers mutated from functions, `global` rebinding, class "
    "attribute stores (callback slots), os.environ stores, sys.stdout/stderr rebinding, logging configuration. "
    "C09.2: for each slot the readers are located and it is decided whether a value read back can reach a result "
    "(a return value, the metafile, a recheck verdict, a written path): callback slots are result-irrelevant when every "
    "call through them discards the return value, unless the registered callable is the package's own, in which case it "
    "must be re-registered unconditionally by the constructor of each operation object with a bound method of that new "
    "object; flag slots are irrelevant when no reader uses the value. C09.3 memoisation detector: a function whose result "
    "can be served from a process-lifetime container (lru_cache, a caching decorator instance, or a module/class-level "
    "container it both fills and returns from) is a violation if anything it computes depends on the file system, the "
    "clock, the environment or directory enumeration (effect summary over its call graph) - an existence test does not "
    "validate a directory listing. A history-dependent result needs such a slot, so an empty relevant inventory decides "
    "the property for every sequence of operations.")
RULE_TEXT = "one obligation per state slot (inventory + relevance) and per memoised function"

IMPURE = ("fs-read", "enum", "clock", "cwd", "random", "fs-write", "fs-write?")
CACHE_DECORATORS = {"functools.lru_cache", "functools.cache", "functools.cached_property"}
CONTAINER_CALLS = {"builtins.dict", "builtins.list", "builtins.set", "collections.defaultdict", "collections.OrderedDict",
                   "collections.deque", "collections.Counter", "weakref.WeakValueDictionary"}


def is_container_expr(ctx, e, mod):
    if isinstance(e, (ast.Dict, ast.List, ast.Set, ast.DictComp, ast.ListComp, ast.SetComp)):
        return True
    if isinstance(e, ast.Call):
        return any(k[0] == "ext" and k[1] in CONTAINER_CALLS for k in ctx.res.kinds(e.func, None, mod))
    return False


def impure_effects(ctx, fn):
    effs, precise, full = C.reach_effects(ctx, [fn], IMPURE)
    return [(e, ch) for e, ch, p in effs]


def value_impure(ctx, fn, stmts):
    """A value stored by the mutation statements derives from the file system / clock / environment (origin terms)."""
    from tfsa.flow import Flow, walk_terms
    from tfsa import effects as E
    flow = Flow(ctx.prog, ctx.res)
    watched = E.FS_READING | E.ENUM_SOURCES | E.CLOCK | E.CWD | E.RANDOM | {"builtins.open", "io.open", "os.environ.get", "os.getenv"}
    for st in stmts:
        vals = []
        if isinstance(st, ast.Assign):
            vals.append(st.value)
        elif isinstance(st, ast.AugAssign):
            vals.append(st.value)
        elif isinstance(st, ast.Call):
            vals += list(st.args)
        elif isinstance(st, ast.Attribute):
            par = ctx.prog.parent.get(st)
            while par is not None and not isinstance(par, ast.stmt):
                par = ctx.prog.parent.get(par)
            if isinstance(par, ast.Assign):
                vals.append(par.value)
            elif isinstance(par, ast.Expr) and isinstance(par.value, ast.Call):
                vals += list(par.value.args)
        for v in vals:
            for x in walk_terms(flow.term(v, fn)):
                if x[0] == "ext" and x[1] in watched:
                    return x[1]
                if x[0] == "meth" and x[1] in ("read", "readinto", "iterdir", "stat", "read_bytes", "read_text"):
                    return "file." + x[1]
    return None


def mutations_of_name(ctx, fn, name):
    """Statements of fn that mutate (not rebind) the object bound to global `name`."""
    out = []
    if name in ctx.res.bindings(fn) and not _declares_global(fn, name):
        return out
    for n in own_nodes(fn.node):
        if isinstance(n, ast.Assign):
            for t in n.targets:
                if isinstance(t, ast.Subscript) and _root_name(t.value) == name:
                    out.append(n)
        elif isinstance(n, ast.AugAssign) and _root_name(n.target) == name:
            out.append(n)
        elif isinstance(n, ast.Call) and isinstance(n.func, ast.Attribute) and _root_name(n.func.value) == name \
                and n.func.attr in ("append", "extend", "add", "update", "setdefault", "insert", "pop", "clear", "appendleft", "remove", "discard"):
            out.append(n)
        elif isinstance(n, ast.Delete):
            for t in n.targets:
                if isinstance(t, ast.Subscript) and _root_name(t.value) == name:
                    out.append(n)
    return out


def _declares_global(fn, name):
    return any(isinstance(n, ast.Global) and name in n.names for n in own_nodes(fn.node))


def _root_name(e):
    while isinstance(e, (ast.Subscript, ast.Attribute)):
        e = e.value
    return e.id if isinstance(e, ast.Name) else None


def reads_in_returns(ctx, fn, pred):
    """True if a value for which pred(expr) holds can flow (through local definitions) into a return / yield of fn."""
    seen = set()
    work = [n.value for n in own_nodes(fn.node) if isinstance(n, (ast.Return, ast.Yield, ast.YieldFrom)) and n.value is not None]
    while work:
        e = work.pop()
        for n in ast.walk(e):
            if pred(n):
                return n
            if isinstance(n, ast.Name) and isinstance(n.ctx, ast.Load) and n.id not in seen:
                seen.add(n.id)
                for what, payload in ctx.res.bindings(fn).get(n.id, []):
                    if what == "value":
                        work.append(payload)
                    elif what in ("iter",):
                        work.append(payload)
                    elif what in ("unpack", "iterunpack"):
                        work.append(payload[0])
    return None


def run(ctx):
    ctx.trust("CPython: module and class objects, os.environ and sys.stdout live for the whole process; instances created by an operation die with it")
    prog = ctx.prog
    n_slots = 0
    # ---------------------------------------------------------------- memoisation: functools caches
    for f in prog.functions.values():
        for d in f.decorators:
            target = d.func if isinstance(d, ast.Call) else d
            for k in ctx.res.kinds(target, None, f.module):
                if k[0] == "ext" and k[1] in CACHE_DECORATORS:
                    n_slots += 1
                    imp = impure_effects(ctx, f)
                    if imp:
                        e, ch = imp[0]
                        ctx.violated("C09.3", f, "%s memoises a result that depends on %s (%s): after the file system changes, a later operation in the same process gets the stale value" % (
                            k[1], e.kind, norm(e.site)[:60]), "@" + norm(d) + " " + f.name, path=C.chain_text(ch, e.fn))
                    else:
                        ctx.holds("C09.3", f, "%s on a function with no file-system / clock / environment dependence: unobservable" % k[1], "@" + norm(d) + " " + f.name)
                    cached_defaults(ctx, f, k[1], d)
                elif k[0] == "class":
                    # class-based decorator: an instance lives at module level for the whole process
                    n_slots += 1
                    decorator_instance(ctx, f, k[1], d)
    # instances of caching classes bound at module level:  cached = Memo(func)
    for mod in prog.modules.values():
        for name, vals in mod.assigns.items():
            for v in vals:
                if isinstance(v, ast.Call):
                    for k in ctx.res.kinds(v.func, None, mod):
                        if k[0] == "class" and k[1].module.name.startswith(prog.PKG) and v.args:
                            for ak in ctx.res.kinds(v.args[0], None, mod):
                                if ak[0] == "func":
                                    n_slots += 1
                                    decorator_instance(ctx, ak[1], k[1], v)
    # caching classes and their applications
    for cls in prog.classes.values():
        call = prog.find_method(cls, "__call__")
        if call is None or call.cls is not cls:
            continue
        def from_own_container(x):
            # self.<attr>[key]  |  self.<attr>.get(key) / .pop(key) / .setdefault(key, ...)
            if isinstance(x, ast.Subscript) and isinstance(x.value, ast.Attribute) and isinstance(x.value.value, ast.Name) and x.value.value.id == call.self_name:
                return True
            return isinstance(x, ast.Call) and isinstance(x.func, ast.Attribute) and x.func.attr in ("get", "pop", "setdefault") and isinstance(x.func.value, ast.Attribute) \
                and isinstance(x.func.value.value, ast.Name) and x.func.value.value.id == call.self_name
        served = reads_in_returns(ctx, call, from_own_container)
        if served is None:
            continue
        init = prog.find_method(cls, "__init__")
        uses = [cs for cs in (ctx.res.callsites_of(init) if init else [])]
        ctx.holds("C09.1", call, "caching class %s (serves results from %s): %d application(s) in the package, each judged by C09.3" % (cls.name, norm(served), len(uses)),
                  "caching class " + cls.name)
    # ---------------------------------------------------------------- module-level / class-level containers
    for mod in prog.modules.values():
        for name, vals in mod.assigns.items():
            if not any(is_container_expr(ctx, v, mod) for v in vals):
                continue
            writers, readers = [], []
            for f in prog.functions.values():
                if f.module is not mod and name not in [a for a, d in f.module.imports.items() if d.endswith("." + name)]:
                    continue
                m = mutations_of_name(ctx, f, name)
                if m:
                    writers.append((f, m))
                if name not in ctx.res.bindings(f) or _declares_global(f, name):
                    if any(isinstance(n, ast.Name) and n.id == name and isinstance(n.ctx, ast.Load) for n in own_nodes(f.node)):
                        readers.append(f)
            if not writers:
                continue        # a constant table
            n_slots += 1
            container_slot(ctx, "module-level container %s.%s" % (mod.name, name), name, writers, readers, mod)
    for cls in prog.classes.values():
        for name, vals in cls.class_assigns.items():
            if not any(is_container_expr(ctx, v, cls.module) for v in vals):
                continue
            n_slots += shared_class_container(ctx, cls, name)
    # ---------------------------------------------------------------- global rebinding
    for f in prog.functions.values():
        for n in own_nodes(f.node):
            if isinstance(n, ast.Global):
                for name in n.names:
                    n_slots += 1
                    readers = [g for g in prog.functions.values() if g.module is f.module and g is not f and name not in ctx.res.bindings(g)
                               and any(isinstance(x, ast.Name) and x.id == name and isinstance(x.ctx, ast.Load) for x in own_nodes(g.node))]
                    used = [g for g in readers + [f] if reads_in_returns(ctx, g, lambda x: isinstance(x, ast.Name) and x.id == name)]
                    if used and impure_effects(ctx, f):
                        ctx.violated("C09.2", f, "module variable %r is rebound by an operation and read back into a result by %s: the next operation sees the previous one's state" % (name, used[0].qualname), n)
                    elif used:
                        ctx.undecided("C09.2", f, "module variable %r is rebound and read back into a result" % name, n)
                    else:
                        ctx.holds("C09.2", f, "module variable %r is rebound but never flows into a result" % name, n)
    # ---------------------------------------------------------------- class attribute slots (callbacks, hooks, flags)
    slots = {}
    for f in prog.functions.values():
        for n in own_nodes(f.node):
            if isinstance(n, ast.Assign):
                for t in n.targets:
                    if isinstance(t, ast.Attribute) and isinstance(t.value, ast.Name):
                        ks = ctx.res.kinds(t.value, f)
                        cl = [k[1] for k in ks if k[0] == "class"]
                        if cl and not any(k[0] == "inst" for k in ks):
                            slots.setdefault(t.attr, []).append((f, n, cl))
    for attr, writes in sorted(slots.items()):
        n_slots += 1
        class_slot(ctx, attr, writes)
    # ---------------------------------------------------------------- environment / streams / logging
    for f in prog.functions.values():
        for n in own_nodes(f.node):
            if isinstance(n, ast.Assign):
                for t in n.targets:
                    if isinstance(t, ast.Subscript) and norm(t.value) in ("os.environ", "environ"):
                        n_slots += 1
                        env_slot(ctx, f, n, const_str(t.slice))
                    if isinstance(t, ast.Attribute) and isinstance(t.value, ast.Name) and t.value.id == "sys" and t.attr in ("stdout", "stderr", "stdin"):
                        n_slots += 1
                        ctx.holds("C09.2", f, "sys.%s is rebound for the rest of the process: affects terminal output only; no result is read from it" % t.attr, n,
                                  nontrivial=False)
            elif isinstance(n, ast.Call) and C.is_ext_call(ctx, n, f, ("os.environ.setdefault", "os.putenv", "os.environ.update", "os.chdir")):
                n_slots += 1
                if C.is_ext_call(ctx, n, f, ("os.chdir",)):
                    ctx.violated("C09.2", f, "os.chdir changes the working directory for every later operation: relative paths resolve differently", n)
                else:
                    env_slot(ctx, f, n, const_str(n.args[0]) if n.args else None)
            elif isinstance(n, ast.Call) and C.is_ext_call(ctx, n, f, ("logging.basicConfig",)):
                n_slots += 1
                ctx.holds("C09.2", f, "logging configuration persists but only routes log output", n, nontrivial=False)
    ctx.floor("process-lifetime state slots inventoried", 5, n_slots)
    ctx.info["slots"] = n_slots


MUTATORS = ("append", "extend", "insert", "remove", "sort", "reverse", "clear", "pop", "update", "add", "setdefault", "discard", "popitem")


def cached_defaults(ctx, f, deco, site):
    """A memoised function keeps what it returns - and every container literal it placed inside it - for the rest of the
    process.  For an argument parser these are the `default=[...]` objects: argparse hands the very same object to every
    parse that does not give the option.  They carry state as soon as any code modifies such a value in place."""
    from .argtable import Row
    rows = []
    for n in own_nodes(f.node):
        if isinstance(n, ast.Call) and isinstance(n.func, ast.Attribute) and n.func.attr in ("add_argument", "set_defaults"):
            for kw in n.keywords:
                if n.func.attr == "add_argument" and kw.arg == "default" and is_container_expr(ctx, kw.value, f.module):
                    rows.append((Row(n).dest, n))
                elif n.func.attr == "set_defaults" and kw.arg and is_container_expr(ctx, kw.value, f.module):
                    rows.append((kw.arg, n))
    if not rows:
        return
    dests = {d for d, _ in rows if d}
    hits = inplace_option_mutations(ctx, dests)
    label = "@%s %s :: default containers" % (norm(site), f.name)
    if hits:
        g, n, d = hits[0]
        ctx.violated("C09.2", g, "%s keeps the parser - and the default container of option %r - for the whole process, and `%s` modifies the value of %r in place: "
                     "when the option is not given this is the shared default, so the next operation starts from what this one left in it" % (deco, d, norm(n)[:70], d), label)
    else:
        ctx.holds("C09.2", f, "%s keeps %d default container(s) alive, none of the option values (%s) is ever modified in place" % (deco, len(rows), ", ".join(sorted(dests))), label)


def inplace_option_mutations(ctx, dests):
    """[(function, statement, dest)] : statements that modify in place a value read from an option by name
    (ns.dest / kw['dest'] / kw.get('dest') / kw.setdefault('dest', ...), directly or through one local alias)."""
    hits = []
    for g in ctx.prog.functions.values():
        alias = {}       # local name -> dest it was read from
        for n in own_nodes(g.node):
            if isinstance(n, ast.Assign) and len(n.targets) == 1 and isinstance(n.targets[0], ast.Name):
                d = _dest_read(n.value, dests)
                if d:
                    alias[n.targets[0].id] = d
        for n in own_nodes(g.node):
            recv = None
            if isinstance(n, ast.Call) and isinstance(n.func, ast.Attribute) and n.func.attr in MUTATORS:
                recv = n.func.value
            elif isinstance(n, ast.AugAssign):
                recv = n.target
            elif isinstance(n, (ast.Assign, ast.Delete)):
                for t in n.targets:
                    if isinstance(t, ast.Subscript) and (_dest_read(t.value, dests) or (isinstance(t.value, ast.Name) and t.value.id in alias)):
                        recv = t.value
            if recv is None:
                continue
            d = _dest_read(recv, dests) or (alias.get(recv.id) if isinstance(recv, ast.Name) else None)
            if d and not (isinstance(n, ast.Call) and n.func.attr == "setdefault" and _dest_read(n, dests)):
                hits.append((g, n, d))
    return hits


def _dest_read(e, dests):
    """e reads an option value by name:  ns.dest / kw['dest'] / kw.get('dest'[, x]) / kw.setdefault('dest', x)  -> dest."""
    if isinstance(e, ast.Attribute) and e.attr in dests:
        return e.attr
    if isinstance(e, ast.Subscript) and const_str(e.slice) in dests:
        return const_str(e.slice)
    if isinstance(e, ast.Call) and isinstance(e.func, ast.Attribute) and e.func.attr in ("get", "setdefault", "pop") and e.args and const_str(e.args[0]) in dests:
        return const_str(e.args[0])
    return None


def decorator_instance(ctx, f, cls, site):
    """Function f is wrapped by an instance of package class cls that lives as long as the module."""
    call = ctx.prog.find_method(cls, "__call__")
    holds_container = False
    for m in cls.methods.values():
        for n in own_nodes(m.node):
            if isinstance(n, ast.Assign) and any(isinstance(t, ast.Attribute) and isinstance(t.value, ast.Name) and t.value.id == m.self_name for t in n.targets) \
                    and is_container_expr(ctx, n.value, cls.module):
                holds_container = True
    served = None
    if call is not None:
        def from_own_container(x):
            if isinstance(x, ast.Subscript) and isinstance(x.value, ast.Attribute) and isinstance(x.value.value, ast.Name) and x.value.value.id == call.self_name:
                return True
            return isinstance(x, ast.Call) and isinstance(x.func, ast.Attribute) and x.func.attr in ("get", "pop", "setdefault") and isinstance(x.func.value, ast.Attribute) \
                and isinstance(x.func.value.value, ast.Name) and x.func.value.value.id == call.self_name
        served = reads_in_returns(ctx, call, from_own_container)
    if not (holds_container and served is not None):
        ctx.holds("C09.3", f, "decorator class %s keeps no container from which results are served" % cls.name, "@%s %s" % (cls.name, f.name))
        return
    imp = impure_effects(ctx, f)
    if imp:
        e, ch = imp[0]
        ctx.violated("C09.3", f, "%s is wrapped in the process-wide cache %s and its result depends on %s (%s): a second operation after the file system changed is answered from the cache "
                     "(an existence test on the key does not validate a directory listing or a file size)" % (f.name, cls.name, e.kind, norm(e.site)[:50]),
                     "@%s %s" % (cls.name, f.name), path=C.chain_text(ch, e.fn))
    else:
        ctx.holds("C09.3", f, "%s caches a function without file-system / clock / environment dependence" % cls.name, "@%s %s" % (cls.name, f.name))


def shared_class_container(ctx, cls, name):
    """A container assigned in the class body: one object shared by every instance for the life of the process.

    Instance attributes bound to it without copying (self.y = self.name) are aliases; writes through any alias persist.
    Returns 1 if a slot was judged, 0 if the container is never mutated (a constant table)."""
    prog = ctx.prog
    fam = [c for c in prog.subclasses(cls)]
    aliases = {name}
    methods = [m for c in fam for m in c.methods.values()]
    changed = True
    while changed:
        changed = False
        for m in methods:
            if not m.self_name:
                continue
            for n in own_nodes(m.node):
                if isinstance(n, ast.Assign) and len(n.targets) == 1 and isinstance(n.targets[0], ast.Attribute) and isinstance(n.targets[0].value, ast.Name) \
                        and n.targets[0].value.id == m.self_name and isinstance(n.value, ast.Attribute) and n.value.attr in aliases and n.targets[0].attr not in aliases:
                    ks = ctx.res.kinds(n.value.value, m)
                    if any(k[0] in ("inst", "class") for k in ks):
                        aliases.add(n.targets[0].attr)
                        changed = True
    # shadowing: an instance attribute of the same name assigned a fresh container in __init__ hides the class-level one
    fresh = set()
    for m in methods:
        if m.name != "__init__" or not m.self_name:
            continue
        for n in own_nodes(m.node):
            if isinstance(n, ast.Assign) and len(n.targets) == 1 and isinstance(n.targets[0], ast.Attribute) and n.targets[0].attr == name \
                    and isinstance(n.targets[0].value, ast.Name) and n.targets[0].value.id == m.self_name and is_container_expr(ctx, n.value, m.module):
                fresh.add(m.cls)
    # methods that hand the container out (return self.<alias>, or a local bound to it): self.y = self.method() aliases it too
    changed = True
    handing = set()
    while changed:
        changed = False
        for m in methods:
            if not m.self_name or m in handing:
                continue
            local_alias = {n.targets[0].id for n in own_nodes(m.node) if isinstance(n, ast.Assign) and len(n.targets) == 1 and isinstance(n.targets[0], ast.Name)
                           and isinstance(n.value, ast.Attribute) and n.value.attr in aliases and isinstance(n.value.value, ast.Name) and n.value.value.id == m.self_name}
            for r in own_nodes(m.node):
                if isinstance(r, ast.Return) and r.value is not None and ((isinstance(r.value, ast.Name) and r.value.id in local_alias) or
                                                                        (isinstance(r.value, ast.Attribute) and r.value.attr in aliases and isinstance(r.value.value, ast.Name) and r.value.value.id == m.self_name)):
                    handing.add(m)
                    changed = True
        for m in methods:
            if not m.self_name:
                continue
            for n in own_nodes(m.node):
                if isinstance(n, ast.Assign) and len(n.targets) == 1 and isinstance(n.targets[0], ast.Attribute) and isinstance(n.targets[0].value, ast.Name) \
                        and n.targets[0].value.id == m.self_name and n.targets[0].attr not in aliases and isinstance(n.value, ast.Call) \
                        and any(t in handing for t in C.targets_of(ctx, m, n.value)):
                    aliases.add(n.targets[0].attr)
                    changed = True
    writes, reads = [], []
    for m in methods:
        if not m.self_name:
            continue
        g = None
        local_alias = {n.targets[0].id for n in own_nodes(m.node) if isinstance(n, ast.Assign) and len(n.targets) == 1 and isinstance(n.targets[0], ast.Name)
                       and isinstance(n.value, ast.Attribute) and n.value.attr in aliases and isinstance(n.value.value, ast.Name) and n.value.value.id == m.self_name}
        for n in own_nodes(m.node):
            if isinstance(n, ast.Name) and n.id in local_alias and isinstance(n.ctx, ast.Load):
                pass        # a local bound to the shared container: judged like self.<alias>
            elif not (isinstance(n, ast.Attribute) and n.attr in aliases and isinstance(n.value, ast.Name) and n.value.id == m.self_name):
                continue
            if isinstance(n, ast.Attribute) and n.attr == name and m.cls in fresh:
                continue
            par = prog.parent.get(n)
            if isinstance(n.ctx, ast.Store):
                continue
            key = None
            mut = False
            if isinstance(par, ast.Subscript) and par.value is n and isinstance(par.ctx, (ast.Store, ast.Del)):
                mut, key = True, const_str(par.slice)
            elif isinstance(par, ast.Attribute) and par.attr in ("update", "setdefault", "append", "extend", "add", "pop", "clear", "insert", "remove", "discard", "appendleft"):
                call = prog.parent.get(par)
                if isinstance(call, ast.Call) and call.func is par:
                    mut = True
                    if par.attr == "update" and not call.args and call.keywords and all(kw.arg for kw in call.keywords):
                        key = tuple(kw.arg for kw in call.keywords)
                    elif par.attr == "setdefault" and call.args:
                        key = const_str(call.args[0])
            elif isinstance(par, ast.AugAssign) and par.target is n:
                mut = True
            if mut:
                g = g or C.cfg_of(m)
                node = C.stmt_node(ctx, m, n)
                uncond = m.name == "__init__" and node is not None and g.dominates(node, g.exit)
                keys = key if isinstance(key, tuple) else ((key,) if key else (None,))
                for k in keys:
                    writes.append((m, n, k, uncond))
            else:
                # an alias assignment is not a read of the content
                if isinstance(par, ast.Assign) and par.value is n and ((isinstance(par.targets[0], ast.Attribute) and par.targets[0].attr in aliases)
                                                                       or (isinstance(par.targets[0], ast.Name) and par.targets[0].id in local_alias)):
                    continue
                if isinstance(par, ast.Return):
                    continue
                reads.append((m, n))
    if not writes:
        return 0
    label = "class-level container %s.%s%s" % (cls.qual, name, (" (aliased as %s)" % ", ".join("self." + a for a in sorted(aliases - {name}))) if len(aliases) > 1 else "")
    init_keys = {k for (m, n, k, u) in writes if u and k is not None}
    persistent = [(m, n, k) for (m, n, k, u) in writes if not (u and k is not None) and (k is None or k not in init_keys)]
    if not reads:
        ctx.holds("C09.2", writes[0][0], "%s is written by operations but never read" % label, label)
        return 1
    if persistent:
        m, n, k = persistent[0]
        rm, rn = reads[0]
        ctx.violated("C09.2", m, "%s is one object for the whole process; %s written in %s is not re-initialised unconditionally by the constructor, so what one operation stores there is read by the next (%s in %s)" % (
            label, ("key %r" % k) if k is not None else "content", m.qualname, norm(prog.enclosing_stmt(rn))[:60], rm.qualname), prog.enclosing_stmt(n))
    else:
        ctx.holds("C09.2", writes[0][0], "%s: every key written (%s) is re-initialised unconditionally in the constructor before use" % (label, sorted(init_keys)), label)
    return 1


def container_slot(ctx, label, name, writers, readers, mod):
    fw = writers[0][0]
    back = None
    for g in {w[0] for w in writers} | set(readers):
        hit = reads_in_returns(ctx, g, lambda x: isinstance(x, ast.Name) and x.id == name or (isinstance(x, ast.Attribute) and x.attr == name))
        if hit is not None:
            back = (g, hit)
            break
    if back is None:
        # read somewhere, though not in a return statement (assigned to a local, stored on an object): where the value goes
        # from there is not followed
        elsewhere = []
        for g in {w[0] for w in writers} | set(readers):
            for x in own_nodes(g.node):
                if ((isinstance(x, ast.Name) and x.id == name) or (isinstance(x, ast.Attribute) and x.attr == name)) and isinstance(x.ctx, ast.Load):
                    par = ctx.prog.parent.get(x)
                    if isinstance(par, ast.Subscript) and par.value is x and isinstance(par.ctx, ast.Load) and isinstance(ctx.prog.parent.get(par), (ast.Assign, ast.Return, ast.Call, ast.BinOp)) \
                            and not (isinstance(ctx.prog.parent.get(par), ast.Call) and ctx.prog.parent.get(par).func is par):
                        gp = ctx.prog.parent.get(par)
                        if isinstance(gp, ast.Assign) and gp.value is par:
                            elsewhere.append((g, x))
        if elsewhere:
            ctx.undecided("C09.3", elsewhere[0][0], "%s is filled by earlier operations and %s reads an entry of it into a local (`%s`); where that value goes was not followed" % (
                label, elsewhere[0][0].qualname, norm(ctx.prog.parent.get(ctx.prog.parent.get(elsewhere[0][1])))[:60]), label)
            return
        ctx.holds("C09.2", fw, "%s is filled by %s but never read back into a result" % (label, fw.qualname), label)
        return
    g = back[0]
    imp = [x for w in writers for x in impure_effects(ctx, w[0])] + impure_effects(ctx, g)
    if not imp:
        for w in writers:
            src = value_impure(ctx, w[0], w[1])
            if src:
                ctx.violated("C09.3", g, "%s is filled during one operation and %s serves results from it; the stored value derives from %s, so later operations in the process see stale state" % (
                    label, g.qualname, src), label)
                return
    if imp:
        e, ch = imp[0]
        ctx.violated("C09.3", g, "%s is filled during one operation and %s serves results from it; what it stores depends on %s (%s), so later operations in the process see stale state" % (
            label, g.qualname, e.kind, norm(e.site)[:50]), label, path=C.chain_text(ch, e.fn))
    else:
        # a pure table is unobservable only if what is read back is selected by the caller's argument, not by how far
        # earlier calls happened to fill it
        hit = back[1]
        par = ctx.prog.parent.get(hit)
        params = set(g.all_params())
        keyed = False
        why = "the table is returned / used as a whole"
        if isinstance(par, ast.Subscript) and par.value is hit:
            names = set()
            work = [par.slice]
            seen = set()
            while work:
                e = work.pop()
                for x in ast.walk(e):
                    if isinstance(x, ast.Name) and x.id not in seen:
                        seen.add(x.id)
                        names.add(x.id)
                        for what, payload in ctx.res.bindings(g).get(x.id, []):
                            if what == "value":
                                work.append(payload)
            keyed = bool(names & params)
            why = "it is read at position %s, which does not depend on the function's argument" % norm(par.slice)
        if keyed:
            ctx.holds("C09.3", g, "%s is a table keyed by the caller's argument holding argument-only values: unobservable" % label, label)
        else:
            ctx.violated("C09.3", g, "%s is extended by earlier operations and %s reads it back into its result, but %s: the result depends on what the process did before" % (label, g.qualname, why), label)


def class_slot(ctx, attr, writes):
    prog = ctx.prog
    f0, n0, cl0 = writes[0]
    # readers: calls through the slot / other loads
    calls, loads = [], []
    for f in prog.functions.values():
        for n in own_nodes(f.node):
            if isinstance(n, ast.Attribute) and n.attr == attr and isinstance(n.ctx, ast.Load):
                ks = ctx.res.kinds(n.value, f)
                if not any(k[0] in ("inst", "class") and any(c in prog.mro(k[1]) or k[1] in prog.mro(c) for c in cl0) for k in ks):
                    continue
                par = prog.parent.get(n)
                if isinstance(par, ast.Call) and par.func is n:
                    calls.append((f, par))
                else:
                    loads.append((f, n))
    used_results = [(f, c) for f, c in calls if not isinstance(prog.parent.get(c), ast.Expr)]
    # registrations from inside the package
    internal = []
    for f, n, cl in writes:
        # the stored value is a parameter: who calls the registering function with what?
        v = n.value
        if isinstance(v, ast.Name) and v.id in f.params:
            for caller, call, bound in ctx.res.callsites_of(f):
                if caller is not None and v.id in bound:
                    internal.append((caller, call, bound[v.id], f))
        elif not (isinstance(v, ast.Constant) and v.value is None):
            internal.append((f, n, v, f))
    label = "class attribute slot .%s (%s)" % (attr, ", ".join(sorted({c.name for _, _, cl in writes for c in cl})))
    # a value (not a callable) parked on the class by an operation and read back into results by later ones
    for f, n, cl in writes:
        v = n.value
        if isinstance(v, ast.Constant) or (isinstance(v, ast.Name) and v.id in f.params):
            continue
        depends = sorted({norm(x) for x in ast.walk(v) if isinstance(x, ast.Attribute) and isinstance(x.value, ast.Name) and f.self_name and x.value.id == f.self_name}
                         | {x.id for x in ast.walk(v) if isinstance(x, ast.Name) and x.id in f.params and x.id != f.self_name})
        # locals of the writer count through their definitions
        for x in [y for y in ast.walk(v) if isinstance(y, ast.Name)]:
            for w_, p_ in ctx.res.bindings(f).get(x.id, []):
                if w_ == "value":
                    depends += sorted({norm(z) for z in ast.walk(p_) if isinstance(z, ast.Attribute) and isinstance(z.value, ast.Name) and f.self_name and z.value.id == f.self_name})
        served = [(g_, l_) for g_, l_ in loads if not isinstance(prog.parent.get(l_), (ast.BoolOp, ast.If, ast.UnaryOp, ast.Compare))]
        if depends and served and not (isinstance(v, ast.Attribute) and isinstance(v.value, ast.Name) and v.value.id == f.self_name and f.name == "__init__"):
            g = C.cfg_of(f)
            wn = C.stmt_node(ctx, f, n)
            uncond = f.name == "__init__" and wn is not None and g.dominates(wn, g.exit)
            if not uncond:
                ctx.violated("C09.2", f, "%s is filled by one operation from its own state (%s) and handed out afterwards (%s in %s): the class object lives for the whole process, so a later operation "
                             "with other parameters is served the earlier one's value" % (label, ", ".join(depends[:3]), norm(prog.enclosing_stmt(served[0][1]))[:50], served[0][0].qualname), n)
                return
    if used_results:
        f, c = used_results[0]
        ctx.violated("C09.2", f, "%s: the value returned by the callable stored there is used (%s), so what an earlier operation registered changes this operation's behaviour" % (label, norm(c)[:60]), c)
        return
    truthy_only = all(isinstance(prog.parent.get(n), (ast.BoolOp, ast.If, ast.UnaryOp)) or isinstance(prog.parent.get(n), ast.Attribute) for f, n in loads)
    if not internal:
        ctx.holds("C09.2", f0, "%s holds a user-supplied callable; %d call site(s) all discard its return value: result-irrelevant" % (label, len(calls)), label)
        return
    # the package registers its own callable: must be re-registered by every operation object, with a method of that object
    for caller, call, val, reg in internal:
        ok_bound = isinstance(val, ast.Attribute) and isinstance(val.value, ast.Name) and val.value.id == caller.self_name and caller.name == "__init__"
        if not ok_bound:
            if isinstance(val, ast.Attribute) and isinstance(val.value, ast.Name) and isinstance(val.ctx, ast.Load) and val.attr == attr:
                continue    # forwarding of a user callback (cls.hasher.set_callback(func))
            if isinstance(val, ast.Name) and val.id in caller.params:
                continue    # forwards its own parameter (a user callback)
            ctx.violated("C09.2", caller, "%s receives a package callable that is not a bound method of the operation object being constructed: state registered by one operation is used by the next" % label, call)
            continue
        g = C.cfg_of(caller)
        cn = C.stmt_node(ctx, caller, call)
        if g.dominates(cn, g.exit):
            ctx.holds("C09.2", caller, "%s is overwritten unconditionally by %s with a bound method of the new object before any use: operation-scoped by re-initialisation" % (label, caller.qualname), call)
        else:
            ctx.violated("C09.2", caller, "%s is registered only on some paths of %s: an operation may run with the callback (and counter) of a previous one" % (label, caller.qualname), call)


def env_slot(ctx, f, node, key):
    prog = ctx.prog
    readers = []
    for g in prog.functions.values():
        for n in own_nodes(g.node):
            hit = False
            if isinstance(n, ast.Subscript) and isinstance(n.ctx, ast.Load) and norm(n.value) in ("os.environ", "environ") and (key is None or const_str(n.slice) == key):
                hit = True
            if isinstance(n, ast.Call) and C.is_ext_call(ctx, n, g, ("os.environ.get", "os.getenv")) and n.args and (key is None or const_str(n.args[0]) == key):
                hit = True
            if hit:
                readers.append(g)
    relevant = []
    for g in readers:
        for caller, call, _ in ctx.res.callsites_of(g):
            par = prog.parent.get(call)
            if not isinstance(par, ast.Expr):
                relevant.append((caller, call))
    if relevant:
        caller, call = relevant[0]
        # re-initialised at the start of the operation?
        ctx.violated("C09.2", caller if caller else f, "environment flag %r set by one operation is read and USED by %s: behaviour depends on what ran earlier in the process" % (
            key, caller.qualname if caller else "module code"), call)
    else:
        ctx.holds("C09.2", f, "environment flag %r is stored for the process but no reader uses its value (%d reader function(s), results discarded)" % (key, len(readers)), node)


MUTANTS = [
    {"name": "G5-regress-memo-filelist", "file": "torrentfile/utils.py", "expect": "violated", "rule": "C09.3", "canary": True, "quick": True,
     "what": "pinned-tree defect G5: @Memo on filelist_total", "edits": [("def filelist_total(pathstring: str) -> os.PathLike:", "@Memo\ndef filelist_total(pathstring: str) -> os.PathLike:")]},
    {"name": "lru-cache-path-size", "file": "torrentfile/utils.py", "expect": "violated", "rule": "C09.3", "canary": True, "quick": True,
     "what": "functools.lru_cache on path_size", "edits": [("import os\nimport ctypes", "import os\nimport functools\nimport ctypes"), ("def path_size(path: str) -> int:", "@functools.lru_cache(maxsize=None)\ndef path_size(path: str) -> int:")]},
    {"name": "module-dict-cache-piece-length", "file": "torrentfile/utils.py", "expect": "violated", "rule": "C09.3", "canary": True,
     "what": "module-level dict cache in path_piece_length",
     "edits": [("def path_piece_length(path: str) -> int:", "_PL_CACHE = {}\n\n\ndef path_piece_length(path: str) -> int:"), ("    psize = path_size(path)\n    return get_piece_length(psize)", "    if path not in _PL_CACHE:\n        _PL_CACHE[path] = get_piece_length(path_size(path))\n    return _PL_CACHE[path]")]},
    {"name": "memo-instance-assigned", "file": "torrentfile/utils.py", "expect": "violated", "rule": "C09.3", "canary": True,
     "what": "Memo applied by assignment instead of decorator", "edits": [("def path_size(path: str) -> int:", "get_file_list_cached = Memo(_filelist_total)\n\n\ndef path_size(path: str) -> int:")]},
    {"name": "class-level-hash-cache", "file": "torrentfile/hasher.py", "expect": "violated", "rule": "C09.3", "canary": True,
     "what": "HasherV2 keeps roots in a class-level dict keyed by path",
     "edits": [("    def __init__(\n        self,\n        path: str,\n        piece_length: int,\n        progress: int = 1,\n        progress_bar=None,\n    ):\n        \"\"\"\n        Calculate and store hash information for specific file.\n        \"\"\"", "    _roots = {}\n\n    def cached_root(self):\n        \"\"\"Return cached root.\"\"\"\n        if self.path not in self._roots:\n            self._roots[self.path] = self.root\n        return self._roots[self.path]\n\n    def __init__(\n        self,\n        path: str,\n        piece_length: int,\n        progress: int = 1,\n        progress_bar=None,\n    ):\n        \"\"\"\n        Calculate and store hash information for specific file.\n        \"\"\"")]},
    {"name": "callback-result-used", "file": "torrentfile/hasher.py", "expect": "violated", "rule": "C09.2", "canary": True,
     "what": "hashing stops when the class-level callback returns false",
     "edits": [("            layer_hash = merkle_root(blocks)\n            self.cb(layer_hash)\n            self.layer_hashes.append(layer_hash)\n        if self.progress == 1:\n            self.progbar.close_out()\n        self._calculate_root()\n\n    def _calculate_root(self):\n        \"\"\"\n        Calculate root hash for the target file.", "            layer_hash = merkle_root(blocks)\n            if self.cb(layer_hash) is False:\n                break\n            self.layer_hashes.append(layer_hash)\n        if self.progress == 1:\n            self.progbar.close_out()\n        self._calculate_root()\n\n    def _calculate_root(self):\n        \"\"\"\n        Calculate root hash for the target file.")]},
    {"name": "assembler-registers-conditionally", "file": "torrentfile/rebuild.py", "expect": "violated", "rule": "C09.2", "canary": True,
     "what": "callback registered only the first time", "edits": [("        Metadata.set_callback(self._callback)\n", "        if not getattr(Metadata, \"_registered\", False):\n            Metadata.set_callback(self._callback)\n")]},
    {"name": "debug-flag-used", "file": "torrentfile/mixins.py", "expect": "violated", "rule": "C09.2", "canary": True,
     "what": "environment debug flag changes behaviour", "edits": [("        debug_is_on()\n        self.total = total", "        self.debug = debug_is_on()\n        self.total = total")]},
    {"name": "chdir-into-payload", "file": "torrentfile/torrent.py", "expect": "violated", "rule": "C09.2", "canary": True,
     "what": "creator changes the working directory", "edits": [("        # base path to torrent content.\n        self.path = path\n", "        # base path to torrent content.\n        self.path = path\n        if os.path.isdir(path):\n            os.chdir(path)\n")]},
    {"name": "benign-counter-global", "file": "torrentfile/utils.py", "expect": "clean",
     "what": "a module-level call counter that is never read into results",
     "edits": [("def path_size(path: str) -> int:", "_CALLS = []\n\n\ndef path_size(path: str) -> int:"), ("    total_size, _ = filelist_total(path)\n    return total_size", "    _CALLS.append(path)\n    total_size, _ = filelist_total(path)\n    return total_size")]},
    {"name": "benign-lru-on-pure", "file": "torrentfile/utils.py", "expect": "clean",
     "what": "lru_cache on next_power_2 (pure)", "edits": [("import os\nimport ctypes", "import os\nimport functools\nimport ctypes"), ("def next_power_2(value: int) -> int:", "@functools.lru_cache(maxsize=None)\ndef next_power_2(value: int) -> int:")]},
]
QUICK_CANARIES = True

CLAIM = {
    "text": "Decided for all operation histories as a state inventory: every process-lifetime slot the package writes is enumerated and shown result-irrelevant (discarded callback results, "
            "unused flag value, output-only streams and logging) or operation-scoped by unconditional re-initialisation; memoisation of anything that depends on the file system, clock, "
            "environment or enumeration is a violation. With no result-relevant slot, an operation's result is a function of its arguments and the file system only. C09.2 also covers a memoised argument-parser builder: its default containers live for the whole process, so any in-place modification of such an option value is a violation.",
    "note": "Trusted: the inventory's notion of process-lifetime state (module/class objects, decorator instances, functools caches, os.environ, sys streams, logging, cwd); "
            "user-supplied callbacks may do anything but their return values are discarded by the package; explicit data flow only.",
    "technique": "process-lifetime state inventory over the AST, effect summaries for purity of memoised functions, def-use into return values, CFG dominance for re-initialisation",
    "design_ref": "DESIGN.md section 4, C09",
}
