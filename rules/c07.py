"""C07 - edit changes only the named fields; hash-bearing data is untouched."""
import ast

from tfsa.flow import Flow, walk_terms
from tfsa.loader import own_nodes, AnalysisError
from tfsa.pointsto import PointsTo, is_sorted_items_copy
from tfsa.report import norm
from tfsa.resolve import const_str
from . import common as C
from .argtable import Parsers, MISSING

PROP = "C07"
EXPLANATION = (
    "Write-set analysis of the editor: the dictionary decoded from the metafile is an abstract object of the points-to "
    "analysis; every statement anywhere in the package that can insert into, delete from or replace part of it (or of "
    "any dictionary / list reachable from it) is enumerated. C07.1: each such statement uses a key of the editable set "
    "for its level (info: comment, source, private; top level: announce, announce-list, url-list, httpseeds), or a key "
    "variable that ranges over the request's own keys, or is the content-preserving re-keying of C06; nothing touches "
    "deeper structures (files, file tree, pieces, piece layers). C07.2: each constant-key store is control-dependent on "
    "the request naming that field and its value derives from that request entry only. C07.3: the None/''/value decision "
    "table of the request filter is evaluated over its atomic predicates and compared with the specification, and the "
    "filter dominates every store. C07.4: for the command line, every option feeding the request yields None when "
    "absent (argparse table), and C07.6 nothing between parse_args and the dispatch rewrites the namespace attributes those options set. C07.5: the object dumped is the decoded one (or its re-keying), written back to the same path.")
RULE_TEXT = "one obligation per mutating statement (C07.1/.2), per filter valuation (C07.3), per edit option (C07.4), per dump (C07.5)"

INFO_EDITABLE = {"comment", "source", "private"}
TOP_EDITABLE = {"announce", "announce-list", "url-list", "httpseeds"}
FIELD_OF_KEY = {"comment": "comment", "source": "source", "private": "private", "announce": "announce",
                "announce-list": "announce", "url-list": "url-list", "httpseeds": "httpseeds"}
OPTION_OF_FIELD = {"url-list": "--web-seed", "httpseeds": "--http-seed", "announce": "--tracker",
                   "source": "--source", "private": "--private", "comment": "--comment"}


def request_key_var(ctx, fn, name):
    """Local `name` iterates over the keys of a dictionary parameter (the request)."""
    for what, payload in ctx.res.bindings(fn).get(name, []):
        if what in ("iter", "iterunpack"):
            it = payload if what == "iter" else payload[0]
            idx = None if what == "iter" else payload[1]
            # for key, val in list(args.items()) / args.items() / for key in args
            e = it
            while isinstance(e, ast.Call) and isinstance(e.func, ast.Name) and e.func.id in ("list", "tuple", "sorted") and e.args:
                e = e.args[0]
            if isinstance(e, ast.Call) and isinstance(e.func, ast.Attribute) and e.func.attr in ("items", "keys") and isinstance(e.func.value, ast.Name):
                if e.func.value.id in fn.params and (idx in (None, 0)):
                    return e.func.value.id
            if isinstance(e, ast.Name) and e.id in fn.params and idx is None:
                return e.id
    return None


def _membership_guarded(ctx, fn, ins):
    """The statement runs only under `<key> in <the dictionary it modifies>`."""
    g = C.cfg_of(fn)
    sn = C.stmt_node(ctx, fn, ins.node)
    if sn is None:
        return False
    for b, lab in g.control_deps(sn):
        t = C.test_expr(b)
        if isinstance(t, ast.Compare) and len(t.ops) == 1 and isinstance(t.ops[0], ast.In) and lab == "true" and norm(t.left) == norm(ins.key) and norm(t.comparators[0]) == norm(ins.base):
            return True
    return False


_KV_RD = {}


def _kv_rd(fn, g):
    from tfsa.reach import ReachDefs
    if fn not in _KV_RD:
        _KV_RD.clear()
        _KV_RD[fn] = ReachDefs(fn, g)
    return _KV_RD[fn]


def run(ctx):
    ctx.trust("pyben.load returns fresh dictionaries; decode->encode is the identity on untouched parts")
    ctx.trust("argparse semantics: store -> None when absent, store_true -> False unless default given")
    edit = ctx.prog.func("torrentfile.edit:edit_torrent")
    pt = PointsTo(ctx.prog, ctx.res, ctx.cg)
    g = C.cfg_of(edit)
    # --- the decoded metafile
    loads = [n for n in own_nodes(edit.node) if isinstance(n, ast.Call) and C.is_ext_call(ctx, n, edit, ("pyben.load",))]
    if not loads:
        raise AnalysisError("anchor vanished: pyben.load in edit_torrent")
    roots = set()
    for l in loads:
        roots |= pt.pts(l, edit)
    kp = pt.key_paths(roots)
    reach = C.reach(ctx, [edit], allow_approx=True)
    muts = pt.insertions_into(kp.keys())
    n_mut = 0
    request_params = {"args"}
    stores_for_c072 = []
    keyvar_stores = []
    for ins, objs in muts:
        fn = ins.fn
        paths = set()
        for o in objs:
            paths |= kp[o]
        in_edit_graph = fn in reach
        n_mut += 1
        where = "%s (%s)" % (norm(ins.node)[:80], "/".join(sorted(paths)[0]) or "<top level>")
        if not in_edit_graph:
            # the same abstract object can only be mutated by code reachable from the editor; anything else is
            # a different run-time object conflated by the flow-insensitive analysis (e.g. commands.info)
            loaded_elsewhere = all(o.kind in ("loaded", "loadedchild") and o.fn is not edit and _root_fn(o) is not edit for o in objs)
            if loaded_elsewhere or not any(_root_fn(o) is edit for o in objs):
                n_mut -= 1
                continue
        if ins.how == "rekey":
            ctx.holds("C07.1", fn, "in-place re-keying (every key is popped and re-inserted with its own value): contents preserved", ins.node)
            continue
        deep = [p for p in paths if p not in ((), ("info",))]
        ck = const_str(ins.key) if ins.key is not None else None
        level_keys = TOP_EDITABLE if () in paths else INFO_EDITABLE
        if ("info",) in paths and () in paths:
            level_keys = TOP_EDITABLE | INFO_EDITABLE
        if deep and not (set(paths) - set(deep)):
            ctx.violated("C07.1", fn, "edit mutates a structure below the editable levels (%s): hash-bearing data must stay byte-for-byte" % "/".join(deep[0]),
                         ins.node)
            continue
        if ins.how == "update" and ins.value is not None:
            # d.update(src): the write set is the key set of src
            src_objs = pt.pts(ins.value, fn)
            req = request_params if "request_params" in dir() else set()
            direct_request = isinstance(ins.value, ast.Name) and ins.value.id in fn.params and any(
                isinstance(b.get(ins.value.id), ast.Name) for c_, call_, b in ctx.res.callsites_of(fn) if c_ is not None) and False
            keys = set()
            known = bool(src_objs)
            for so in src_objs:
                if so.kind not in ("dict",):
                    known = False
                ks = pt.keys_of(so)
                if any(k is None or not isinstance(k, str) or k == "*" for k in ks):
                    known = False
                keys |= {k for k in ks if isinstance(k, str)}
            if known and keys and keys <= level_keys:
                ctx.holds("C07.1", fn, "update from a dictionary built with the keys %s only, all editable at this level" % sorted(keys), ins.node)
                for k in sorted(keys):
                    pass
                continue
            if known and keys - level_keys:
                ctx.violated("C07.1", fn, "update writes key %r, which is not an editable field at this level (editable: %s)" % (sorted(keys - level_keys)[0], sorted(level_keys)), ins.node)
                continue
            if isinstance(ins.value, ast.Name) and ins.value.id in fn.params and fn is edit:
                ctx.violated("C07.1", fn, "bulk mutation (update) of the decoded metafile with the request itself: the write set is not limited to the named fields", ins.node)
                continue
            ctx.undecided("C07.1", fn, "bulk mutation (update) of the decoded metafile from `%s`, whose key set could not be determined" % norm(ins.value), ins.node)
            continue
        if ins.how in ("update", "aug", "append", "extend"):
            ctx.violated("C07.1", fn, "bulk mutation (%s) of the decoded metafile: the write set is not limited to the named fields" % ins.how, ins.node)
            continue
        if ck is not None:
            if ck == "info" and () in paths and ins.how == "store":
                v = ins.value
                src = is_sorted_items_copy(ctx.res, v, fn, fn.module) if isinstance(v, ast.Call) else None
                same = pt.pts(src if src is not None else v, fn)
                info_objs = {o for o, ps in kp.items() if ("info",) in ps}
                if same and same <= info_objs:
                    ctx.holds("C07.1", fn, "identity / re-keying store of the info dictionary (content preserved)", ins.node)
                else:
                    ctx.violated("C07.1", fn, "meta['info'] is replaced by something that is not the decoded info dictionary", ins.node)
                continue
            if ck in level_keys:
                ctx.holds("C07.1", fn, "%s of editable key %r" % ("removal" if ins.how == "del" else "store", ck), ins.node)
                if ins.how == "store" and fn is edit:
                    stores_for_c072.append((ins, ck))
                continue
            ctx.violated("C07.1", fn, "edit %s key %r, which is not an editable field at this level (editable: %s)" % (
                "removes" if ins.how == "del" else "writes", ck, sorted(level_keys)), ins.node)
            continue
        # dynamic key
        cks = pt.const_keys(ins.key, fn) if ins.key is not None else None
        if cks is not None:
            # a key variable that ranges over a literal tuple of field names
            bad_keys = [k for k in cks if k not in level_keys]
            if bad_keys and ins.how == "del" and all(k in (TOP_EDITABLE | INFO_EDITABLE) for k in cks) and _membership_guarded(ctx, fn, ins):
                # `if key in d: del d[key]` with key ranging over the editable fields of both levels: removes the named
                # field from wherever the metafile keeps it (the same thing the request-driven filter does)
                ctx.holds("C07.1", fn, "removal, under `key in <that dictionary>`, of a key that ranges over the editable fields %s" % cks, ins.node)
                continue
            if bad_keys and ins.how == "store" and isinstance(ins.base, ast.Subscript):
                # sections[section][key] = value: which dictionary is written is selected by a second table column
                ctx.undecided("C07.1", fn, "store under a key variable that ranges over %s into a dictionary selected by `%s`: that every field goes to its own level is not decided" % (cks, norm(ins.base)), ins.node)
                continue
            if bad_keys:
                ctx.violated("C07.1", fn, "edit %s key %r (one of the constants the key variable ranges over), which is not an editable field at this level (editable: %s)" % (
                    "removes" if ins.how == "del" else "writes", bad_keys[0], sorted(level_keys)), ins.node)
            else:
                ctx.holds("C07.1", fn, "%s under a key variable that ranges over the editable fields %s" % ("removal" if ins.how == "del" else "store", cks), ins.node)
                if ins.how == "store" and fn is edit:
                    keyvar_stores.append((ins, cks))
            continue
        if isinstance(ins.key, ast.Name):
            src = request_key_var(ctx, fn, ins.key.id)
            if src is not None:
                # the parameter must be bound to the request at the call site(s) in the editor
                ctx.holds("C07.1", fn, "key variable %r ranges over the keys of the request parameter %r" % (ins.key.id, src), ins.node)
                continue
        ctx.violated("C07.1", fn, "edit %s the decoded metafile under a key that is neither a named editable field nor a request key" % (
            "deletes from" if ins.how == "del" else "writes"), ins.node)
    ctx.floor("statements mutating the decoded metafile", 5, n_mut)
    covered = {ck for _, ck in stores_for_c072} | {k for _, cks_ in keyvar_stores for k in cks_}
    ctx.floor("editable fields with a store in the editor", 6, len(covered & (TOP_EDITABLE | INFO_EDITABLE)))

    # whole-object rebinding: top-level `meta = <not a re-keying of meta>` handled by C07.5 below
    # --- C07.2 named guard + value provenance
    flow = Flow(ctx.prog, ctx.res, stop_funcs=[edit])
    for ins, ck in stores_for_c072:
        field = FIELD_OF_KEY[ck]
        node = C.stmt_node(ctx, edit, ins.node)
        deps = g.control_deps(node)
        guarded = False
        for b, lab in deps:
            t = C.test_expr(b)
            if t is None:
                continue

            def atom(x, field=field):
                if isinstance(x, ast.Compare) and len(x.ops) == 1 and isinstance(x.ops[0], ast.In) and const_str(x.left) == field \
                        and isinstance(x.comparators[0], ast.Name) and x.comparators[0].id in request_params:
                    return True
                if isinstance(x, ast.Compare) and len(x.ops) == 1 and isinstance(x.ops[0], ast.NotIn) and const_str(x.left) == field \
                        and isinstance(x.comparators[0], ast.Name) and x.comparators[0].id in request_params:
                    return False
                return None
            if C.branch_when(b, atom) == lab:
                guarded = True
            # the same, read the other way round: when the request does not name the field, this test goes the other way
            # (`"f" in args and isinstance(args["f"], str)` is false then, whatever the second operand says)
            if C.branch_when(b, lambda x, atom=atom: (not atom(x)) if atom(x) is not None else None) not in (None, lab):
                guarded = True
            # `v is not None` with v = <request>.get(field) (possibly through a helper that maps None to None): a field that
            # is not named reads as None
            def atom_nn(x, field=field, b=b):
                if isinstance(x, ast.Compare) and len(x.ops) == 1 and isinstance(x.ops[0], (ast.IsNot, ast.Is)) and isinstance(x.comparators[0], ast.Constant) \
                        and x.comparators[0].value is None and isinstance(x.left, ast.Name):
                    if _none_when_unnamed(ctx, edit, x.left, b, field, request_params):
                        return isinstance(x.ops[0], ast.IsNot)
                if isinstance(x, ast.Compare) and len(x.ops) == 1 and isinstance(x.ops[0], (ast.IsNot, ast.Is)) and isinstance(x.comparators[0], ast.Constant) \
                        and x.comparators[0].value is None and isinstance(x.left, ast.Call) and isinstance(x.left.func, ast.Attribute) and x.left.func.attr == "get" \
                        and isinstance(x.left.func.value, ast.Name) and x.left.func.value.id in request_params and x.left.args and const_str(x.left.args[0]) == field \
                        and (len(x.left.args) == 1 or (isinstance(x.left.args[1], ast.Constant) and x.left.args[1].value is None)):
                    return isinstance(x.ops[0], ast.IsNot)      # <request>.get(field) is not None, written in the test itself
                return None
            if C.branch_when(b, atom_nn) == lab:
                guarded = True

            def unnamed(x, field=field, b=b):
                if isinstance(x, ast.Call) and isinstance(x.func, ast.Name) and x.func.id == "isinstance" and len(x.args) == 2 and isinstance(x.args[0], ast.Name) \
                        and not any(isinstance(y, ast.Name) and y.id in ("object", "NoneType") for y in ast.walk(x.args[1])) \
                        and _none_when_unnamed(ctx, edit, x.args[0], b, field, request_params):
                    return False
                return None
            if C.branch_when(b, unnamed) not in (None, lab):
                guarded = True
        if not guarded:
            og = _opaque_none_guard(ctx, edit, node, request_params, field=field)
            if og is None and _guarded_by_table_row(ctx, edit, node, request_params, field):
                ctx.holds("C07.2", edit, "store to %r runs only when the conversion of the request entry %r is not None, and that conversion maps a field that is not named (None) to None" % (ck, field), ins.node)
                continue
            if og is not None:
                ctx.undecided("C07.2", edit, "store to %r runs under `%s`, whose operand comes out of a conversion this rule cannot fold for an unnamed field (None): whether an edit that does not name %r "
                              "reaches the store is not decided" % (ck, og, field), ins.node)
                continue
            kv = _presence_through_variable(edit, deps, request_params)
            if kv is not None:
                ctx.undecided("C07.2", edit, "store to %r runs under `%s`, which tests the request for the field a variable names; which field that is at this store was not evaluated" % (ck, kv), ins.node)
                continue
            rec = _request_record_guard(ctx, edit, node, request_params)
            if rec is not None:
                ctx.undecided("C07.2", edit, "store to %r runs under `%s`, a test on an object that a package function builds from the request; what that object holds for a field the request does not name was not followed" % (ck, rec), ins.node)
                continue
            ctx.violated("C07.2", edit, "store to %r is not control-dependent on the request naming field %r: an edit that does not name it still changes it" % (ck, field), ins.node)
            continue
        t = flow.term(ins.value, edit)
        used = set()
        foreign = []
        for x in walk_terms(t):
            if x[0] == "sub" and any(b[0] == "param" and b[2] in request_params for b in x[1]):
                used |= {i[1] for i in x[2] if i[0] == "const"}
            elif x[0] == "meth" and x[1] in ("get", "pop") and any(b[0] == "param" and b[2] in request_params for b in x[2]):
                if x[3]:
                    used |= {i[1] for i in x[3][0] if i[0] == "const"}
            elif x[0] == "ext" and x[1] in ("pyben.load",):
                foreign.append("the decoded metafile")
            elif x[0] == "param" and x[2] not in request_params:
                foreign.append("parameter " + x[2])
            elif x[0] == "ext" and x[1].split(".")[0] in ("time", "datetime", "os", "random"):
                foreign.append(x[1])
        wrong = {u for u in used if u != field}
        if wrong or foreign:
            ctx.violated("C07.2", edit, "value stored under %r derives from %s, not only from the request entry %r" % (
                ck, ", ".join(sorted({repr(w) for w in wrong} | set(foreign))), field), ins.node)
        else:
            ctx.holds("C07.2", edit, "store to %r is guarded by %r in the request and its value derives only from that entry%s" % (
                ck, field, "" if used else " (constant)"), ins.node)

    for ins, cks in keyvar_stores:
        kv = ins.key.id
        node = C.stmt_node(ctx, edit, ins.node)
        named = False
        for b, lab in g.control_deps(node):
            t = C.test_expr(b)
            if t is None:
                continue

            def atom_kv(x, kv=kv):
                if isinstance(x, ast.Compare) and len(x.ops) == 1 and isinstance(x.ops[0], (ast.In, ast.NotIn)) and isinstance(x.left, ast.Name) and x.left.id == kv \
                        and isinstance(x.comparators[0], ast.Name) and x.comparators[0].id in request_params:
                    return isinstance(x.ops[0], ast.In)
                return None
            if C.branch_when(b, atom_kv) == lab:
                named = True
            if C.branch_when(b, lambda x, atom_kv=atom_kv: (not atom_kv(x)) if atom_kv(x) is not None else None) not in (None, lab):
                named = True

            def atom_kv_nn(x, kv=kv, b=b):
                if isinstance(x, ast.Compare) and len(x.ops) == 1 and isinstance(x.ops[0], (ast.IsNot, ast.Is)) and isinstance(x.comparators[0], ast.Constant) \
                        and x.comparators[0].value is None and isinstance(x.left, ast.Name):
                    if _none_when_unnamed(ctx, edit, x.left, b, None, request_params, keyvar=kv):
                        return isinstance(x.ops[0], ast.IsNot)
                return None
            if C.branch_when(b, atom_kv_nn) == lab:
                named = True

            def unnamed_kv(x, kv=kv, b=b):
                # the world in which the request does not name the field: <request>.get(key) is None there
                if isinstance(x, ast.Call) and isinstance(x.func, ast.Name) and x.func.id == "isinstance" and len(x.args) == 2 and isinstance(x.args[0], ast.Name) \
                        and not any(isinstance(y, ast.Name) and y.id in ("object", "NoneType") for y in ast.walk(x.args[1])) \
                        and _none_when_unnamed(ctx, edit, x.args[0], b, None, request_params, keyvar=kv):
                    return False
                return None
            if C.branch_when(b, unnamed_kv) not in (None, lab):
                named = True
        if not named:
            why = []
            og = _opaque_none_guard(ctx, edit, node, request_params, found=why)
            if og is None and why:
                ctx.violated("C07.2", edit, "store under the key variable %r: %s, so the store runs for it although the edit did not name it" % (kv, why[0]), ins.node)
                continue
            if og is not None:
                ctx.undecided("C07.2", edit, "store under the key variable %r runs under `%s`, whose operand comes out of a conversion this rule cannot fold for an unnamed field (None): whether an edit "
                              "that does not name the field reaches the store is not decided" % (kv, og), ins.node)
                continue
        if not named:
            # the key variable is handed out by a package generator (for key, value in edits(args)): which fields it hands out -
            # the named ones only, or all - is decided inside the generator, which this rule does not read
            lp = ctx.prog.parent.get(ins.node)
            gen = None
            while lp is not None and lp is not edit.node:
                if isinstance(lp, ast.For) and any(isinstance(t_, ast.Name) and t_.id == kv for t_ in ast.walk(lp.target)) and isinstance(lp.iter, ast.Call):
                    tg_ = [t_ for t_ in C.targets_of(ctx, edit, lp.iter) if t_.is_generator]
                    if tg_:
                        gen = tg_[0]
                    break
                lp = ctx.prog.parent.get(lp)
            rec = _request_record_guard(ctx, edit, node, request_params)
            if gen is None and rec is not None:
                ctx.undecided("C07.2", edit, "store under the key variable %r runs under `%s`, a test on an object that a package function builds from the request; what that object holds for a field the request does not name was not followed" % (kv, rec), ins.node)
                continue
            if gen is not None:
                ctx.undecided("C07.2", edit, "store under the key variable %r, handed out by the generator %s: whether it hands out only the fields the request names is decided there and was not followed" % (kv, gen.qualname), ins.node)
                continue
        if not named:
            ctx.violated("C07.2", edit, "store under the key variable %r is not control-dependent on the request naming that field (`%s in args`): an edit that does not name it still changes it" % (kv, kv), ins.node)
            continue
        # the value must come from the request entry of the same key variable
        reads = []
        work = [ins.value]
        seen_n = set()
        while work:
            e = work.pop()
            for x in ast.walk(e):
                if isinstance(x, ast.Call) and isinstance(x.func, ast.Attribute) and x.func.attr in ("get", "pop") and isinstance(x.func.value, ast.Name) and x.func.value.id in request_params and x.args:
                    reads.append(x.args[0])
                elif isinstance(x, ast.Subscript) and isinstance(x.value, ast.Name) and x.value.id in request_params:
                    reads.append(x.slice)
                elif isinstance(x, ast.Name) and isinstance(x.ctx, ast.Load) and (x.id, id(C.stmt_node(ctx, edit, x))) not in seen_n and x.id not in request_params:
                    # the definitions of the local that reach this use (a variable re-used for another field earlier in
                    # the function does not count)
                    un = C.stmt_node(ctx, edit, x)
                    seen_n.add((x.id, id(un)))
                    if un is not None:
                        work += [d.value for d in _kv_rd(edit, g).reaching(x.id, un) if d.kind in ("assign", "aug") and isinstance(d.value, ast.AST)]
        same = bool(reads) and all(isinstance(r, ast.Name) and r.id == kv for r in reads)
        if same:
            ctx.holds("C07.2", edit, "store under key variable %r is guarded by `%s in args` and its value derives from args[%s] only" % (kv, kv, kv), ins.node)
        elif reads:
            ctx.violated("C07.2", edit, "value stored under the key variable %r derives from request entries %s, not only from args[%s]" % (kv, sorted({norm(r) for r in reads}), kv), ins.node)
        else:
            ctx.undecided("C07.2", edit, "where the value stored under the key variable %r comes from is not understood" % kv, ins.node)

    # --- C07.3 the request filter
    filt = ctx.prog.functions.get("torrentfile.edit:filter_empty")
    if filt is None:
        ctx.undecided("C07.3", edit, "anchor vanished: filter_empty (None = untouched, '' = remove)")
    else:
        filter_table(ctx, pt, edit, filt, stores_for_c072)

    # --- C07.4 command line
    cli_table(ctx, edit, filt, stores_for_c072)

    # --- C07.5 the dumped object is the decoded one
    from .c06 import find_dump_sites
    sites = [s for s in find_dump_sites(ctx) if s[0] in reach]
    ctx.floor("dump sites reachable from edit_torrent", 1, len(sites))
    for fn, call, obj, how in sites:
        objs = pt.pts(obj, fn)
        info_objs = {o for o, ps in kp.items() if ("info",) in ps}

        def is_decoded(o, depth=0, seen=frozenset()):
            """o is the decoded metafile, a (re-keyed) copy of it, or a literal {**decoded, 'info': <the decoded info or a copy of it>}"""
            if o in roots or o in seen:
                return True         # (a copy that is, through a re-used name, its own source: decided by its other sources)
            if depth > 4:
                return False
            if o.kind == "copy" and pt._copy_sources(o):
                srcs = [s_ for s_ in pt._copy_sources(o) if s_ is not o]
                return bool(srcs) and all(is_decoded(s_, depth + 1, seen | {o}) for s_ in srcs)
            if o.kind == "dict" and isinstance(o.node, ast.Dict):
                sp = pt.var.get(("spread", id(o.node)), set())
                explicit = {const_str(k) for k in o.node.keys if k is not None}
                if sp and all(x in roots for x in sp) and None not in explicit and explicit <= {"info"} and len([k for k in o.node.keys if k is None]) == 1:
                    vals = pt.getfield(o, "info") if "info" in explicit else set()
                    return all(v in info_objs or (v.kind == "copy" and all(s_ in info_objs for s_ in pt._copy_sources(v))) for v in vals)
            return False
        ok = bool(objs) and all(is_decoded(o) for o in objs)
        if ok:
            ctx.holds("C07.5", fn, "the value dumped by %s is the decoded metafile (or its re-keying)" % how, call)
        elif objs and all(o.kind in ("dict", "copy") for o in objs) and any(isinstance(o.node, (ast.Dict, ast.DictComp)) for o in objs):
            ctx.undecided("C07.5", fn, "the value dumped is built anew from the decoded metafile in a way that is not recognised as content-preserving", call)
        else:
            ctx.violated("C07.5", fn, "the value dumped is not (only) the decoded metafile: unnamed fields may be lost or invented", call)
    from .dynscan import dynamic_features
    dynamic_features(ctx, "C07.0")


def _root_fn(o):
    while o.kind == "loadedchild":
        o = o.src[0]
    return o.fn


def filter_table(ctx, pt, edit, filt, stores):
    g = C.cfg_of(edit)
    # the filter call dominates every store of the editor
    calls = [n for n in own_nodes(edit.node) if isinstance(n, ast.Call) and any(t[0] == "pkg" and t[1] is filt for t in ctx.res.call_targets(n, edit))]
    if not calls:
        # the filter may run in a function the editor hands the request to (a method of an editor object ...)
        elsewhere = [(f_, n_) for f_ in C.reach(ctx, [edit], allow_approx=False) if f_ is not filt for n_ in own_nodes(f_.node)
                     if isinstance(n_, ast.Call) and any(t is filt for t in C.targets_of(ctx, f_, n_))]
        if elsewhere:
            f_, n_ = elsewhere[0]
            gf = C.cfg_of(f_)
            fn_ = C.stmt_node(ctx, f_, n_)
            later = [x for x in own_nodes(f_.node) if isinstance(x, (ast.Assign, ast.AugAssign, ast.Delete)) and any(isinstance(t, ast.Subscript) for t in (x.targets if isinstance(x, (ast.Assign, ast.Delete)) else [x.target]))]
            early = [x for x in later if not gf.dominates(fn_, C.stmt_node(ctx, f_, x))]
            if early:
                ctx.violated("C07.3", f_, "a store (`%s`) can execute before the request filter runs in %s" % (norm(early[0])[:50], f_.name), early[0])
            else:
                ctx.undecided("C07.3", f_, "the request filter runs in %s, which edit_torrent reaches through a call; that every store of the edit comes after it is decided only inside that function" % f_.qualname, n_)
            return
        ctx.violated("C07.3", edit, "edit_torrent does not run the request filter: None (unnamed) and '' (remove) are stored literally")
        return
    cn = C.stmt_node(ctx, edit, calls[0])
    for ins, ck in stores:
        n = C.stmt_node(ctx, edit, ins.node)
        ctx.decide("C07.3", edit, g.dominates(cn, n), "the filter runs before the store to %r" % ck,
                   "the store to %r can execute before the request filter" % ck, ins.node, nontrivial=False)
    bound = ctx.res.bind_args(filt, calls[0], False)
    # parameter roles by position: (request, top-level dict, info dict)
    if len(filt.params) < 3:
        ctx.undecided("C07.3", filt, "filter signature not understood")
        return
    p_args, p_meta, p_info = filt.params[0], filt.params[1], filt.params[2]
    loops = [n for n in filt.node.body if isinstance(n, ast.For)]
    if len(loops) != 1:
        ctx.undecided("C07.3", filt, "filter is not a single loop over the request")
        return
    loop = loops[0]
    tgt = loop.target
    if not (isinstance(tgt, ast.Tuple) and len(tgt.elts) == 2 and all(isinstance(x, ast.Name) for x in tgt.elts)):
        ctx.undecided("C07.3", filt, "filter loop target not (key, value)")
        return
    kv, vv = tgt.elts[0].id, tgt.elts[1].id
    it = loop.iter
    snapshot = isinstance(it, ast.Call) and isinstance(it.func, ast.Name) and it.func.id in ("list", "tuple") and it.args \
        and isinstance(it.args[0], ast.Call) and isinstance(it.args[0].func, ast.Attribute) and it.args[0].func.attr == "items"
    direct = isinstance(it, ast.Call) and isinstance(it.func, ast.Attribute) and it.func.attr == "items"
    if not (snapshot or direct):
        ctx.undecided("C07.3", filt, "filter does not iterate over the request's items")
        return
    fg = C.cfg_of(filt)
    head = fg.of[loop]
    body_start = C.succ_by_label(head, "iter")[0]
    spec = {
        # (is None, is empty, in meta, in info) -> set of effects
    }
    rows = 0
    for is_none, is_empty, rep in ((True, False, None), (False, True, ""), (False, False, "x"), (False, False, ["x"])):
        if True:
            for in_meta in (True, False):
                for in_info in (True, False):
                    want = set()
                    if is_none:
                        want = {"del request[key]"}
                    elif is_empty:
                        want = {"del request[key]"}
                        if in_meta:
                            want.add("del top[key]")
                        elif in_info:
                            want.add("del info[key]")

                    def atom(x):
                        if isinstance(x, ast.Compare) and len(x.ops) == 1:
                            l, op, r = x.left, x.ops[0], x.comparators[0]
                            if isinstance(l, ast.Name) and l.id == vv:
                                if isinstance(op, (ast.Is, ast.Eq)) and isinstance(r, ast.Constant) and r.value is None:
                                    return is_none
                                if isinstance(op, (ast.IsNot, ast.NotEq)) and isinstance(r, ast.Constant) and r.value is None:
                                    return not is_none
                                if isinstance(op, ast.Eq) and isinstance(r, ast.Constant) and r.value == "":
                                    return is_empty
                                if isinstance(op, ast.NotEq) and isinstance(r, ast.Constant) and r.value == "":
                                    return not is_empty
                            if isinstance(l, ast.Name) and l.id == kv and isinstance(op, (ast.In, ast.NotIn)) and isinstance(r, ast.Name):
                                val = in_meta if r.id == p_meta else (in_info if r.id == p_info else None)
                                if val is None:
                                    return None
                                return val if isinstance(op, ast.In) else (not val)
                        if isinstance(x, ast.Name) and x.id == vv:
                            return bool(rep)
                        # anything else about the value: fold it with the representative of this row
                        if not any(isinstance(n_, ast.Name) and n_.id not in (vv, "isinstance", "len", "any", "all", "bool", "str", "list", "tuple", "dict", "int", "bytes", "set", "float")
                                   for n_ in ast.walk(x)):
                            try:
                                return bool(const_fold(x, {vv: rep}))
                            except _Unknown:
                                return None
                        return None
                    rows += 1
                    label = "value %s, key %sin top level, %sin info" % ("None" if is_none else ("''" if is_empty else "given (%r)" % (rep,)),
                                                                          "" if in_meta else "not ", "" if in_info else "not ")
                    try:
                        visited, term = C.trace(fg, body_start, atom, stop=[head])
                    except C.Undetermined as exc:
                        ctx.undecided("C07.3", filt, "filter decision for [%s] not understood: %s" % (label, exc), "filter row: " + label)
                        continue
                    got = set()
                    other = []
                    for n in visited:
                        a = n.ast
                        if n.kind == "stmt" and isinstance(a, ast.Delete):
                            for t in a.targets:
                                if isinstance(t, ast.Subscript) and isinstance(t.value, ast.Name) and isinstance(t.slice, ast.Name) and t.slice.id == kv:
                                    who = {p_args: "request", p_meta: "top", p_info: "info"}.get(t.value.id)
                                    if who:
                                        got.add("del %s[key]" % who)
                                        continue
                                other.append(norm(a))
                        elif n.kind == "stmt" and isinstance(a, (ast.Assign, ast.AugAssign)):
                            other.append(norm(a))
                        elif n.kind == "stmt" and isinstance(a, ast.Expr) and isinstance(a.value, ast.Call) and isinstance(a.value.func, ast.Attribute) \
                                and a.value.func.attr in ("pop", "clear", "update", "setdefault", "popitem"):
                            c = a.value
                            if c.func.attr == "pop" and isinstance(c.func.value, ast.Name) and c.args and isinstance(c.args[0], ast.Name) and c.args[0].id == kv:
                                who = {p_args: "request", p_meta: "top", p_info: "info"}.get(c.func.value.id)
                                if who:
                                    got.add("del %s[key]" % who)
                                    continue
                            other.append(norm(a))
                    if term in ("xexit",):
                        other.append("raises")
                    if any(isinstance(x, ast.Try) for x in own_nodes(filt.node)):
                        # deletions guarded by try/except KeyError instead of a membership test: the tracer follows normal
                        # edges only and cannot say which arm runs
                        ctx.undecided("C07.3", filt, "filter row [%s]: the filter uses exception handling to select the dictionary, which the tracer does not model" % label, "filter row: " + label)
                        continue
                    inner = [n for n in visited if n.kind == "iter" and n is not head]
                    if inner or [o for o in other if o != "raises"]:
                        # the row runs through statements whose effect on the three dictionaries this tracer does not model (an
                        # inner loop over the sections, a dictionary chosen into a local and popped from): no verdict
                        ctx.undecided("C07.3", filt, "filter row [%s]: the filter %s, which the tracer does not model" % (
                            label, "runs an inner loop (`%s`)" % norm(inner[0].ast)[:50].split("\n")[0] if inner else "executes `%s`" % "; ".join(o for o in other if o != "raises")[:80]),
                            "filter row: " + label)
                        continue
                    ok = got == want and not other
                    ctx.decide("C07.3", filt, ok, "filter row [%s]: effects %s as specified" % (label, sorted(got) or "none"),
                               "filter row [%s]: effects %s%s, specification says %s" % (label, sorted(got) or "none", (" + " + "; ".join(other)) if other else "", sorted(want) or "none"),
                               "filter row: " + label)
    ctx.floor("filter decision-table rows", 12, rows)


def _none_when_unnamed(ctx, fn, name_node, at, field, request_params, keyvar=None):
    """The local is None whenever the request does not name `field`: it is <request>.get(field[, None]) or h(<that>) with
    h(None) folding to None on every path."""
    from tfsa.reach import ReachDefs
    rd = ReachDefs(fn, C.cfg_of(fn))
    defs = rd.reaching(name_node.id, at)
    if not defs or not all(d.kind == "assign" and d.value is not None and not isinstance(d.value, tuple) for d in defs):
        return False

    def is_get(e):
        return isinstance(e, ast.Call) and isinstance(e.func, ast.Attribute) and e.func.attr == "get" and isinstance(e.func.value, ast.Name) and e.func.value.id in request_params \
            and e.args and ((keyvar is None and const_str(e.args[0]) == field) or (keyvar is not None and isinstance(e.args[0], ast.Name) and e.args[0].id == keyvar)) \
            and (len(e.args) == 1 or (isinstance(e.args[1], ast.Constant) and e.args[1].value is None))
    g_ = C.cfg_of(fn)

    def only_when_not_none(d):
        # a re-definition that runs only under isinstance(<this name>, T): it cannot run while the name holds None
        for b_, lab_ in g_.control_deps(d.node):
            t_ = C.test_expr(b_)
            if lab_ == "true" and isinstance(t_, ast.Call) and isinstance(t_.func, ast.Name) and t_.func.id == "isinstance" and len(t_.args) == 2 \
                    and isinstance(t_.args[0], ast.Name) and t_.args[0].id == name_node.id \
                    and not any(isinstance(y, ast.Name) and y.id in ("object", "NoneType") for y in ast.walk(t_.args[1])):
                return True
        return False
    if not any(is_get(d.value) or (isinstance(d.value, ast.Call) and len(d.value.args) == 1 and is_get(d.value.args[0])) for d in defs):
        return False
    for d in defs:
        v = d.value
        if is_get(v):
            continue
        if only_when_not_none(d):
            continue
        if isinstance(v, ast.Call) and len(v.args) == 1 and not v.keywords and is_get(v.args[0]):
            tg = C.targets_of(ctx, fn, v)
            if tg and all(_returns_none_for_none(ctx, h) for h in tg):
                continue
        return False
    return True


def _presence_through_variable(edit, deps, request_params):
    """A controlling test asks whether the request names the field held in a variable (`key in args`, `key not in args`,
    `args.get(key) is not None`): its text, else None."""
    for b, lab in deps:
        t = C.test_expr(b)
        if t is None:
            continue
        for x in ast.walk(t):
            if isinstance(x, ast.Compare) and len(x.ops) == 1 and isinstance(x.ops[0], (ast.In, ast.NotIn)) and isinstance(x.left, ast.Name) \
                    and isinstance(x.comparators[0], ast.Name) and x.comparators[0].id in request_params:
                return norm(t)
            if isinstance(x, ast.Call) and isinstance(x.func, ast.Attribute) and x.func.attr == "get" and isinstance(x.func.value, ast.Name) and x.func.value.id in request_params \
                    and x.args and isinstance(x.args[0], ast.Name):
                return norm(t)
    return None


def _request_record_guard(ctx, edit, node, request_params):
    """A controlling test mentions a local (or a field of a local) that is bound to the result of a package function which was
    handed the request: the text of that test, else None."""
    g = C.cfg_of(edit)
    for b, lab in g.control_deps(node):
        t = C.test_expr(b)
        if t is None:
            continue
        for x in ast.walk(t):
            base = x
            while isinstance(base, (ast.Attribute, ast.Subscript)):
                base = base.value
            if not isinstance(base, ast.Name) or base.id in request_params or base.id == edit.self_name:
                continue
            seen, work = set(), [base.id]
            while work:
                nm = work.pop()
                if nm in seen:
                    continue
                seen.add(nm)
                for w_, p_ in ctx.res.bindings(edit).get(nm, []):
                    v = p_[0] if isinstance(p_, tuple) else p_
                    if w_ in ("value", "unpack", "iter", "iterunpack") and isinstance(v, ast.AST):
                        if isinstance(v, ast.Call) and C.targets_of(ctx, edit, v) and any(isinstance(a, ast.Name) and a.id in request_params for a in ast.walk(v)):
                            return norm(t)[:70]
                        for y in ast.walk(v):
                            if isinstance(y, ast.Name) and y.id not in seen:
                                work.append(y.id)
    return None


def _opaque_none_guard(ctx, fn, node, request_params, field=None, found=None):
    """The statement runs only when some local X `is not None` (or is truthy), and X comes out of a call that was handed a
    request read and whose callee this rule cannot fold for None (a function taken from a table, a helper with several
    parameters): whether an unnamed field reaches the statement is then not decided.  Returns the text of the test."""
    from tfsa.reach import ReachDefs
    g = C.cfg_of(fn)
    rd = ReachDefs(fn, g)

    def reads_request(e, depth=0):
        for x in ast.walk(e):
            if isinstance(x, ast.Call) and isinstance(x.func, ast.Attribute) and x.func.attr in ("get", "pop") and isinstance(x.func.value, ast.Name) and x.func.value.id in request_params:
                return True
            if isinstance(x, ast.Subscript) and isinstance(x.value, ast.Name) and x.value.id in request_params:
                return True
            if isinstance(x, ast.Name) and depth < 3 and x.id not in request_params:
                for w_, p_ in ctx.res.bindings(fn).get(x.id, []):
                    if w_ == "value" and p_ is not e and reads_request(p_, depth + 1):
                        return True
        return False
    for b, lab in g.control_deps(node):
        t = C.test_expr(b)
        if t is None:
            continue
        for a in C.atoms_of(t):
            x = None
            if isinstance(a, ast.Compare) and len(a.ops) == 1 and isinstance(a.ops[0], (ast.Is, ast.IsNot)) and isinstance(a.comparators[0], ast.Constant) and a.comparators[0].value is None \
                    and isinstance(a.left, ast.Name):
                x = a.left
            elif isinstance(a, ast.Name):
                x = a
            if x is None:
                continue
            for d in rd.reaching(x.id, b):
                v = d.value if d.kind == "assign" else None
                if isinstance(v, ast.Call) and not (isinstance(v.func, ast.Attribute) and v.func.attr in ("get", "pop")) and any(reads_request(arg) for arg in v.args):
                    tg = C.targets_of(ctx, fn, v)
                    if not tg and isinstance(v.func, ast.Name):
                        rows = table_callables(ctx, fn, v.func.id) or []
                        # a store under a constant key belongs to the row of the table that carries that key
                        if field is not None and any(k == field for k, _ in rows):
                            rows = [(k, h) for k, h in rows if k == field]
                        tg = [h for _, h in rows]
                        culprit = [(k, h) for k, h in rows if _value_for_none(ctx, h) == "notnone"]
                        if culprit and found is not None:
                            found.append("the conversion %s of field %r turns a field the request does not name (None) into a value" % (culprit[0][1].name, culprit[0][0]))
                    vals = [_value_for_none(ctx, h) for h in tg]
                    if tg and "notnone" in vals:
                        # one of the conversions turns "not requested" into a value: the store is reached for a field
                        # the request does not name
                        return None
                    if not tg or "unknown" in vals:
                        return norm(t)
    return None


def _guarded_by_table_row(ctx, fn, node, request_params, field):
    """The statement runs only when `X is not None` for a local X = convert(<request>.get(key)) with `convert` the function the
    table assigns to `field`, and that function returns None for None."""
    from tfsa.reach import ReachDefs
    g = C.cfg_of(fn)
    rd = ReachDefs(fn, g)
    for b, lab in g.control_deps(node):
        t = C.test_expr(b)
        if t is None:
            continue
        for a in C.atoms_of(t):
            if not (isinstance(a, ast.Compare) and len(a.ops) == 1 and isinstance(a.ops[0], (ast.Is, ast.IsNot)) and isinstance(a.comparators[0], ast.Constant)
                    and a.comparators[0].value is None and isinstance(a.left, ast.Name)):
                continue
            # reaching the statement requires X is not None
            if C.branch_when(b, lambda x, a=a: isinstance(a.ops[0], ast.Is) if x is a else None) in (None, lab):
                continue
            for d in rd.reaching(a.left.id, b):
                v = d.value if d.kind == "assign" else None
                if isinstance(v, ast.Call) and isinstance(v.func, ast.Name) and not C.targets_of(ctx, fn, v):
                    rows = [(k, h) for k, h in (table_callables(ctx, fn, v.func.id) or []) if k == field]
                    if rows and all(_value_for_none(ctx, h) == "none" for _, h in rows):
                        return True
    return False


def _returns_none_for_none(ctx, h):
    """Every path of package function h taken with its (single) argument = None returns None (tests folded with the literal)."""
    return _value_for_none(ctx, h) == "none"


def _value_for_none(ctx, h):
    """'none' / 'notnone' / 'unknown': what package function h returns when its single argument is None."""
    params = [p_ for p_ in h.params if p_ != h.self_name]
    if len(params) != 1 or h.is_generator:
        return "unknown"
    g = C.cfg_of(h)
    env = {params[0]: None}

    def atom(x):
        try:
            return bool(const_fold(x, env))
        except _Unknown:
            return None
    try:
        visited, term = C.trace(g, g.entry, atom)
    except C.Undetermined:
        return "unknown"
    rets = [n.ast for n in visited if n.kind == "stmt" and isinstance(n.ast, ast.Return)]
    if not rets:
        return "none" if term == "exit" else "unknown"
    r = rets[-1]
    if r.value is None:
        return "none"
    try:
        v = r.value
        if isinstance(v, ast.IfExp):
            v = v.body if bool(const_fold(v.test, env)) else v.orelse
        return "none" if const_fold(v, env) is None else "notnone"
    except _Unknown:
        return "unknown"


def table_callables(ctx, fn, name):
    """`name` is a loop variable that takes a column of `for k, (a, name) in TABLE.items()` / `for a, name in TABLE` with TABLE a
    display of constants and package functions: the functions of that column, else None."""
    for loop in [n for n in own_nodes(fn.node) if isinstance(n, ast.For)]:
        pos = None

        def find(t, path):
            nonlocal pos
            if isinstance(t, ast.Name) and t.id == name:
                pos = path
            elif isinstance(t, (ast.Tuple, ast.List)):
                for i, x in enumerate(t.elts):
                    find(x, path + (i,))
        find(loop.target, ())
        if pos is None:
            continue
        it = loop.iter
        rows = None
        if isinstance(it, ast.Call) and isinstance(it.func, ast.Attribute) and it.func.attr == "items" and isinstance(it.func.value, ast.Name):
            d = _single_display(ctx, fn, it.func.value.id)
            if isinstance(d, ast.Dict) and all(k is not None for k in d.keys):
                rows = [ast.Tuple(elts=[k, v], ctx=ast.Load()) for k, v in zip(d.keys, d.values)]
        elif isinstance(it, ast.Name):
            d = _single_display(ctx, fn, it.id)
            if isinstance(d, (ast.Tuple, ast.List)):
                rows = list(d.elts)
        elif isinstance(it, (ast.Tuple, ast.List)):
            rows = list(it.elts)
        if rows is None:
            return None
        out = []
        for r in rows:
            x = r
            for i in pos:
                if not isinstance(x, (ast.Tuple, ast.List)) or i >= len(x.elts):
                    return None
                x = x.elts[i]
            fs_ = [k[1] for k in ctx.res.kinds(x, fn) if k[0] == "func"]
            if len(fs_) != 1:
                return None
            first = r.elts[0] if isinstance(r, (ast.Tuple, ast.List)) and r.elts else None
            out.append((const_str(first) if first is not None else None, fs_[0]))
        return out
    return None


def _single_display(ctx, fn, name):
    bl = ctx.res.bindings(fn).get(name, [])
    if len(bl) == 1 and bl[0][0] == "value":
        return bl[0][1]
    if not bl and fn.module is not None and len(fn.module.assigns.get(name, [])) == 1:
        return fn.module.assigns[name][0]
    return None


def _UNUSED_returns_none_for_none(ctx, h):
    params = [p_ for p_ in h.params if p_ != h.self_name]
    if len(params) != 1 or h.is_generator:
        return False
    g = C.cfg_of(h)
    env = {params[0]: None}

    def atom(x):
        try:
            return bool(const_fold(x, env))
        except _Unknown:
            return None
    try:
        visited, term = C.trace(g, g.entry, atom)
    except C.Undetermined:
        return False
    rets = [n.ast for n in visited if n.kind == "stmt" and isinstance(n.ast, ast.Return)]
    if not rets:
        return term == "exit"       # falls off the end: returns None
    r = rets[-1]
    if r.value is None:
        return True
    try:
        if isinstance(r.value, ast.IfExp):
            t = bool(const_fold(r.value.test, env))
            return const_fold(r.value.body if t else r.value.orelse, env) is None
        return const_fold(r.value, env) is None
    except _Unknown:
        return False


class _Unknown(Exception):
    pass


_TYPES = {"str": str, "list": list, "tuple": tuple, "dict": dict, "int": int, "bool": bool, "bytes": bytes, "set": set, "float": float}


def const_fold(e, env):
    """Value of a side-effect free expression over literals and the names in env (constant folding, nothing is executed)."""
    if isinstance(e, ast.Constant):
        return e.value
    if isinstance(e, ast.Name):
        if e.id in env:
            return env[e.id]
        raise _Unknown(e.id)
    if isinstance(e, (ast.Tuple, ast.List)):
        vals = [const_fold(x, env) for x in e.elts]
        return tuple(vals) if isinstance(e, ast.Tuple) else vals
    if isinstance(e, ast.UnaryOp) and isinstance(e.op, ast.Not):
        return not const_fold(e.operand, env)
    if isinstance(e, ast.BoolOp):
        res = None
        for v in e.values:
            res = const_fold(v, env)
            if isinstance(e.op, ast.And) and not res:
                return res
            if isinstance(e.op, ast.Or) and res:
                return res
        return res
    if isinstance(e, ast.Compare) and len(e.ops) == 1:
        l, r = const_fold(e.left, env), const_fold(e.comparators[0], env)
        op = e.ops[0]
        try:
            if isinstance(op, ast.Is):
                return l is r
            if isinstance(op, ast.IsNot):
                return l is not r
            if isinstance(op, ast.Eq):
                return l == r
            if isinstance(op, ast.NotEq):
                return l != r
            if isinstance(op, ast.In):
                return l in r
            if isinstance(op, ast.NotIn):
                return l not in r
        except TypeError:
            raise _Unknown("comparison")
    if isinstance(e, ast.Call) and isinstance(e.func, ast.Name) and not e.keywords:
        if e.func.id == "isinstance" and len(e.args) == 2:
            v = const_fold(e.args[0], env)
            ts = e.args[1].elts if isinstance(e.args[1], ast.Tuple) else [e.args[1]]
            types = []
            for t in ts:
                if isinstance(t, ast.Name) and t.id in _TYPES:
                    types.append(_TYPES[t.id])
                else:
                    raise _Unknown("type")
            return isinstance(v, tuple(types))
        if e.func.id == "len" and len(e.args) == 1:
            return len(const_fold(e.args[0], env))
        if e.func.id in ("bool",) and len(e.args) == 1:
            return bool(const_fold(e.args[0], env))
        if e.func.id in ("any", "all") and len(e.args) == 1:
            v = const_fold(e.args[0], env)
            if isinstance(v, (list, tuple, str)):
                return any(v) if e.func.id == "any" else all(v)
            raise _Unknown("iterable")
    raise _Unknown(ast.dump(e)[:40])


def absent_value_effect(ctx, edit, filt, stores, field, value):
    """What the editor does when the request carries `value` for `field` (the value an option has when it is NOT given):
    'untouched' | 'writes: <stmt>' | None (not decided).  The filter's tests and the tests guarding each store of the
    field are folded with the literal value."""
    if filt is None:
        return None
    loops = [n for n in filt.node.body if isinstance(n, ast.For)]
    if len(loops) != 1 or not (isinstance(loops[0].target, ast.Tuple) and len(loops[0].target.elts) == 2):
        return None
    kv, vv = (x.id for x in loops[0].target.elts)
    fg = C.cfg_of(filt)
    head = fg.of[loops[0]]
    start = C.succ_by_label(head, "iter")[0]

    env = {vv: value, kv: field}
    opaque = []

    def atom(x):
        # the interesting metafile is one that has the field: assume `key in <metafile dictionary>` (else nothing could be lost)
        if isinstance(x, ast.Compare) and len(x.ops) == 1 and isinstance(x.ops[0], (ast.In, ast.NotIn)) and isinstance(x.left, ast.Name) and x.left.id == kv \
                and isinstance(x.comparators[0], ast.Name) and x.comparators[0].id in filt.params[1:]:
            return isinstance(x.ops[0], ast.In)
        try:
            return bool(const_fold(x, env))
        except _Unknown:
            return None

    def visit(n):
        a = n.ast
        if n.kind == "stmt" and isinstance(a, ast.Assign) and len(a.targets) == 1 and isinstance(a.targets[0], ast.Name):
            try:
                env[a.targets[0].id] = const_fold(a.value, env)      # a local rewrite of the value: later tests see it
            except _Unknown:
                env.pop(a.targets[0].id, None)
                opaque.append(norm(a))
    try:
        visited, term = C.trace(fg, start, atom, stop=[head], visit=visit)
    except C.Undetermined:
        return None
    for n in visited:
        a = n.ast
        if n.kind == "stmt" and isinstance(a, ast.Assign) and len(a.targets) == 1 and isinstance(a.targets[0], ast.Name):
            continue
        if n.kind == "stmt" and isinstance(a, (ast.Delete, ast.Assign, ast.AugAssign)):
            txt = norm(a)
            if isinstance(a, ast.Delete) and all(isinstance(t, ast.Subscript) and isinstance(t.value, ast.Name) and t.value.id == filt.params[0] for t in a.targets):
                return "untouched"          # dropped from the request
            return "writes: " + txt
        if n.kind == "stmt" and isinstance(a, ast.Expr) and isinstance(a.value, ast.Call) and isinstance(a.value.func, ast.Attribute) and a.value.func.attr in ("pop", "clear", "update"):
            return "writes: " + norm(a)
    # the entry stays in the request: does any store of this field execute?
    g = C.cfg_of(edit)
    from tfsa.reach import ReachDefs
    rdefs = ReachDefs(edit, g)
    req = [p for p in edit.params][-1]
    for ins, ck in stores:
        if FIELD_OF_KEY.get(ck) != field:
            continue
        node = C.stmt_node(ctx, edit, ins.node)
        verdict = True
        for b, lab in g.control_deps(node):
            t = C.test_expr(b)
            if t is None:
                continue
            env = {}
            for nm in {x.id for x in ast.walk(t) if isinstance(x, ast.Name)}:
                defs = rdefs.reaching(nm, b)
                vals = [d.value for d in defs if d.kind == "assign" and d.value is not None] if defs and all(d.kind == "assign" for d in defs) else []
                reads = [v for v in vals if (isinstance(v, ast.Call) and isinstance(v.func, ast.Attribute) and v.func.attr == "get" and v.args and const_str(v.args[0]) == field)
                         or (isinstance(v, ast.Subscript) and const_str(v.slice) == field)]
                if vals and len(reads) == len(vals):
                    env[nm] = value

            def atom2(x, env=env):
                if isinstance(x, ast.Compare) and len(x.ops) == 1 and isinstance(x.ops[0], (ast.In, ast.NotIn)) and const_str(x.left) == field and isinstance(x.comparators[0], ast.Name) \
                        and x.comparators[0].id == req:
                    return isinstance(x.ops[0], ast.In)
                try:
                    return bool(const_fold(x, env))
                except _Unknown:
                    return None
            taken = C.branch_when(b, atom2)
            if taken is None:
                verdict = None
                break
            if taken != lab:
                verdict = False
                break
        if verdict is None:
            return None
        if verdict:
            return "writes: " + norm(ins.node)
    return "untouched"


def cli_table(ctx, edit=None, filt=None, stores=()):
    cmd = ctx.prog.func("torrentfile.commands:edit")
    parsers = Parsers(ctx)
    for bad in parsers.unreadable:
        ctx.undecided("C07.4", parsers.fn, "an option is defined inside a loop whose table of values could not be read", bad)
    p = parsers.by_command("edit")
    rows = {r.dest: r for r in p["rows"]}
    # the request literal
    lits = []
    for n in own_nodes(cmd.node):
        if isinstance(n, ast.Dict) and n.keys and all(const_str(k) for k in n.keys):
            if {const_str(k) for k in n.keys} & set(OPTION_OF_FIELD):
                lits.append(n)
    if len(lits) != 1:
        ctx.undecided("C07.4", cmd, "request literal of commands.edit not found")
        return
    lit = lits[0]
    ns = cmd.params[0] if cmd.params else "args"
    n = 0
    for k, v in zip(lit.keys, lit.values):
        field = const_str(k)
        n += 1
        if field not in OPTION_OF_FIELD:
            ctx.violated("C07.4", cmd, "command-line edit passes field %r, which is not one of the six editable fields" % field, v)
            continue
        if not (isinstance(v, ast.Attribute) and isinstance(v.value, ast.Name) and v.value.id == ns):
            ctx.undecided("C07.4", cmd, "request entry %r is not a plain namespace attribute" % field, v)
            continue
        row = rows.get(v.attr)
        if row is None:
            ctx.violated("C07.4", cmd, "request entry %r reads args.%s, which no option of the edit sub-parser defines" % (field, v.attr), v)
            continue
        want_opt = OPTION_OF_FIELD[field]
        if want_opt not in row.flags:
            ctx.violated("C07.4", cmd, "field %r is fed from option %s, documented option is %s" % (field, row.flags, want_opt), row.call)
            continue
        absent = row.absent_value()
        if absent is None:
            ctx.holds("C07.4", cmd, "option %s (dest %s, action %s): absent -> None -> field %r untouched" % (want_opt, row.dest, row.action, field), row.call)
        elif absent is MISSING:
            ctx.undecided("C07.4", cmd, "absent value of %s not determinable" % want_opt, row.call)
        else:
            eff = absent_value_effect(ctx, edit, filt, stores, field, absent) if edit is not None else None
            if eff == "untouched":
                ctx.holds("C07.4", cmd, "option %s (dest %s): absent -> %r, which the editor ignores (folded through the request filter and the guards of every store of %r)" % (want_opt, row.dest, absent, field), row.call)
            elif eff is None:
                ctx.undecided("C07.4", cmd, "option %s yields %r when it is NOT given; what the editor does with that value could not be folded" % (want_opt, absent), row.call)
            else:
                ctx.violated("C07.4", cmd, "option %s (action %s) yields %r when it is NOT given, and the editor acts on that value (%s): every command-line edit changes field %r although it was not named (and the info-hash when it is an info field)" % (
                    want_opt, row.action, absent, eff[:80], field), row.call)
    ctx.floor("edit request entries", 6, n)
    namespace_integrity(ctx, parsers, {r.dest for r in p["rows"]})


def _param_attr_writes(ctx, f, pname, seen):
    """[(node, attribute name | None)] : writes to attributes of parameter `pname` inside package function f (and in the
    package functions it hands the parameter to).  None = attribute name not constant."""
    out = []
    if f in seen:
        return out
    seen = seen | {f}
    alias = {pname}
    for n in own_nodes(f.node):
        if isinstance(n, ast.Assign) and isinstance(n.value, ast.Name) and n.value.id in alias:
            alias |= {t.id for t in n.targets if isinstance(t, ast.Name)}
    for n in own_nodes(f.node):
        if isinstance(n, (ast.Assign, ast.AugAssign, ast.AnnAssign, ast.Delete)):
            tgts = n.targets if isinstance(n, (ast.Assign, ast.Delete)) else [n.target]
            for t in tgts:
                if isinstance(t, ast.Attribute) and isinstance(t.value, ast.Name) and t.value.id in alias:
                    out.append((n, t.attr))
                # vars(ns)[k] = v / ns.__dict__[k] = v
                if isinstance(t, ast.Subscript):
                    b = t.value
                    if (isinstance(b, ast.Call) and isinstance(b.func, ast.Name) and b.func.id == "vars" and b.args and isinstance(b.args[0], ast.Name) and b.args[0].id in alias) \
                            or (isinstance(b, ast.Attribute) and b.attr == "__dict__" and isinstance(b.value, ast.Name) and b.value.id in alias):
                        out.append((n, const_str(t.slice)))
        if isinstance(n, ast.Call):
            if isinstance(n.func, ast.Name) and n.func.id in ("setattr", "delattr") and n.args and isinstance(n.args[0], ast.Name) and n.args[0].id in alias:
                out.append((n, const_str(n.args[1]) if len(n.args) > 1 else None))
            elif isinstance(n.func, ast.Attribute) and n.func.attr in ("update", "pop", "clear", "setdefault", "__setattr__"):
                b = n.func.value
                if (isinstance(b, ast.Call) and isinstance(b.func, ast.Name) and b.func.id == "vars" and b.args and isinstance(b.args[0], ast.Name) and b.args[0].id in alias) \
                        or (isinstance(b, ast.Attribute) and b.attr == "__dict__" and isinstance(b.value, ast.Name) and b.value.id in alias) \
                        or (n.func.attr == "__setattr__" and isinstance(b, ast.Name) and b.id in alias):
                    out.append((n, None))
            else:
                for i, a in enumerate(n.args):
                    if isinstance(a, ast.Name) and a.id in alias:
                        for t in C.targets_of(ctx, f, n):
                            ps = [x for x in t.params if x != t.self_name]
                            if i < len(ps):
                                out += _param_attr_writes(ctx, t, ps[i], seen)
    return out


def namespace_integrity(ctx, parsers, edit_dests):
    """What the handler sees is what argparse produced: between parse_args and the dispatch nothing rewrites option values
    (a rewrite that maps a given value to None turns 'remove this field' / 'set it to this' into 'leave untouched', and the
    reverse makes an unnamed field named)."""
    ex = parsers.fn
    parses = [n for n in own_nodes(ex.node) if isinstance(n, ast.Call) and isinstance(n.func, ast.Attribute) and n.func.attr in ("parse_args", "parse_known_args", "parse_intermixed_args")]
    if not parses:
        ctx.undecided("C07.6", ex, "parse_args call not found in the command-line entry point")
        return
    n_checked = 0
    for pc in parses:
        st = ctx.prog.enclosing_stmt(pc)
        ns = st.targets[0].id if isinstance(st, ast.Assign) and len(st.targets) == 1 and isinstance(st.targets[0], ast.Name) else None
        writes = []
        # wrappers around the parse call:  ns = tidy(parser.parse_args(argv))
        par = ctx.prog.parent.get(pc)
        while isinstance(par, ast.Call):
            for t in C.targets_of(ctx, ex, par):
                ps = [x for x in t.params if x != t.self_name]
                idx = [i for i, a in enumerate(par.args) if a is pc or any(x is pc for x in ast.walk(a))]
                if idx and idx[0] < len(ps):
                    writes += _param_attr_writes(ctx, t, ps[idx[0]], frozenset())
            par = ctx.prog.parent.get(par)
        if ns is None:
            ctx.undecided("C07.6", ex, "result of parse_args is not bound to a plain local", pc)
            continue
        # the dispatch:  ns.func(ns)
        writes += [(w, a) for (w, a) in _param_attr_writes(ctx, ex, ns, frozenset())]
        n_checked += 1
        bad = [(w, a) for (w, a) in writes if a is None or a in edit_dests]
        other = [(w, a) for (w, a) in writes if a is not None and a not in edit_dests]
        for w, a in bad:
            fq = ctx.prog.enclosing_function(w) if hasattr(ctx.prog, "enclosing_function") else None
            ctx.violated("C07.6", ex, "the parsed namespace is rewritten before the handler runs (`%s` sets %s): the edit request no longer says what the command line said - a field given as '' (remove) or not given at all (untouched) can change meaning" % (
                norm(w)[:80], "attribute %r" % a if a else "attributes chosen at run time"), w)
        if not bad:
            ctx.holds("C07.6", ex, "nothing between parse_args and the dispatch rewrites an option of the edit sub-command (%d other attribute write(s))" % len(other), pc)
    ctx.floor("parse_args sites checked for namespace rewrites", 1, n_checked)


MUTANTS = [
    {"name": "G4-regress-private-store-true", "file": "torrentfile/cli.py", "expect": "violated", "rule": "C07.4", "canary": True, "quick": True,
     "what": "pinned-tree defect G4: edit --private store_true defaulting to False",
     "edits": [('        action="store_true",\n        default=None,\n        help="make torrent private",', '        action="store_true",\n        help="make torrent private",')]},
    {"name": "edit-comment-default-empty", "file": "torrentfile/cli.py", "expect": "violated", "rule": "C07.4", "canary": True,
     "what": "--comment defaults to '' (removes the comment on every edit)",
     "edits": [('        help="replaces any existing comment with <comment>",', '        default="",\n        help="replaces any existing comment with <comment>",')]},
    {"name": "edit-restamps-date", "file": "torrentfile/edit.py", "expect": "violated", "rule": "C07.1", "canary": True, "quick": True,
     "what": "edit refreshes creation date", "edits": [('    if "comment" in args:\n', '    meta["creation date"] = 0\n    if "comment" in args:\n')]},
    {"name": "edit-sets-created-by", "file": "torrentfile/edit.py", "expect": "violated", "rule": "C07.1", "canary": True,
     "what": "edit stamps created by", "edits": [('    if "source" in args:\n', '    meta["created by"] = "torrentfile"\n    if "source" in args:\n')]},
    {"name": "edit-drops-piece-layers-when-empty", "file": "torrentfile/edit.py", "expect": "violated", "rule": "C07.1", "canary": True,
     "what": "edit removes empty piece layers", "edits": [('    if "private" in args:\n', '    if "piece layers" in meta and not meta["piece layers"]:\n        del meta["piece layers"]\n    if "private" in args:\n')]},
    {"name": "edit-normalises-name", "file": "torrentfile/edit.py", "expect": "violated", "rule": "C07.1", "canary": True,
     "what": "edit strips the name", "edits": [('    if "announce" in args:\n', '    info["name"] = info["name"].strip()\n    if "announce" in args:\n')]},
    {"name": "edit-touches-files", "file": "torrentfile/edit.py", "expect": "violated", "rule": "C07.1", "canary": True,
     "what": "edit drops padding entries from the file list",
     "edits": [('    if "url-list" in args:\n', '    if "files" in info:\n        info["files"].append({"length": 0, "path": [""]})\n    if "url-list" in args:\n')]},
    {"name": "edit-private-unguarded", "file": "torrentfile/edit.py", "expect": "violated", "rule": "C07.2", "canary": True,
     "what": "private written whenever a source is named", "edits": [('    if "source" in args:\n        info["source"] = args["source"]\n', '    if "source" in args:\n        info["source"] = args["source"]\n        info["private"] = 1\n')]},
    {"name": "edit-source-from-comment", "file": "torrentfile/edit.py", "expect": "violated", "rule": "C07.2", "canary": True,
     "what": "source takes the comment's value", "edits": [('        info["source"] = args["source"]', '        info["source"] = args["comment"]')]},
    {"name": "edit-announce-when-urllist", "file": "torrentfile/edit.py", "expect": "violated", "rule": "C07.2", "canary": True,
     "what": "web-seed edit also rewrites the tracker", "edits": [('        if isinstance(val, str):\n            meta["url-list"] = val.split()', '        if isinstance(val, str):\n            meta["announce"] = val.split()[0]\n            meta["url-list"] = val.split()')]},
    {"name": "filter-none-deletes", "file": "torrentfile/edit.py", "expect": "violated", "rule": "C07.3", "canary": True,
     "what": "None treated like '' (unnamed field removed)", "edits": [('        if val == "":\n', '        if val == "" or val is None:\n'), ("        if val is None:\n            del args[key]\n            continue\n", "")]},
    {"name": "filter-empty-keeps", "file": "torrentfile/edit.py", "expect": "violated", "rule": "C07.3", "canary": True,
     "what": "'' no longer removes the info-level key", "edits": [("            elif key in info:\n                del info[key]\n", "")]},
    {"name": "filter-removes-both-levels", "file": "torrentfile/edit.py", "expect": "violated", "rule": "C07.3", "canary": True,
     "what": "'' removes the key at both levels", "edits": [("            elif key in info:\n", "            if key in info:\n")]},
    {"name": "filter-not-called", "file": "torrentfile/edit.py", "expect": "violated", "rule": "C07.3", "canary": True,
     "what": "filter skipped", "edits": [("    filter_empty(args, meta, info)\n", "")]},
    {"name": "edit-dumps-fresh-dict", "file": "torrentfile/edit.py", "expect": "violated", "rule": "C07.5", "canary": True,
     "what": "only known keys are written back", "edits": [("    meta = dict(sorted(meta.items()))\n", "    meta = {\"announce\": meta.get(\"announce\", \"\"), \"info\": meta[\"info\"]}\n    meta = dict(sorted(meta.items()))\n")]},
    {"name": "cmd-edit-wrong-dest", "file": "torrentfile/commands.py", "expect": "violated", "rule": "C07.4", "canary": True,
     "what": "httpseeds fed from the web-seed option", "edits": [('        "httpseeds": args.httpseeds,', '        "httpseeds": args.url_list,')]},
    {"name": "benign-filter-pop", "file": "torrentfile/edit.py", "expect": "clean",
     "what": "filter rewritten with not-equals", "edits": [('        if val == "":\n            if key in meta:', '        if not val != "":\n            if key in meta:')]},
    {"name": "benign-edit-logging", "file": "torrentfile/edit.py", "expect": "clean",
     "what": "extra logging", "edits": [('    if "comment" in args:\n', '    logger.debug("fields: %s", list(args))\n    if "comment" in args:\n')]},
    {"name": "benign-edit-option-reordered", "file": "torrentfile/commands.py", "expect": "clean",
     "what": "request literal reordered", "edits": [('        "url-list": args.url_list,\n        "httpseeds": args.httpseeds,\n', '        "httpseeds": args.httpseeds,\n        "url-list": args.url_list,\n')]},
]
QUICK_CANARIES = True

CLAIM = {
    "text": "Decided for all metafiles and all edit histories through the library function and the command line: the write set of the editor on the decoded structure is enumerated by "
            "points-to analysis and is confined to the named editable keys (each store guarded by its own request entry and fed only by it); the None/''/value semantics of the "
            "request filter is tabulated over its atomic predicates; the CLI options all yield None when absent. Sequences of edits follow by induction because every unnamed key is "
            "provably outside the write set of a single edit. The deprecated interactive editor feeds the same function and is not separately claimed. C07.4 folds the value an option has when it is NOT given through the request filter and the guards of every store (constant folding over literals); C07.6: nothing between parse_args and the dispatch rewrites the namespace attributes of the edit options.",
    "note": "Trusted: pyben round trip on untouched parts (shared with C06), argparse semantics. The fate of announce-list when the tracker is cleared is not judged (as the property says).",
    "technique": "write-set analysis by field-sensitive points-to, control dependence (named guard), decision table of the filter over atomic predicates, extracted argparse table",
    "design_ref": "DESIGN.md section 4, C07; appendix D.4",
}
