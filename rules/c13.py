"""C13 - rebuild restores the complete torrent when intact copies are available (necessary clauses)."""
import ast

from tfsa.flow import Flow, walk_terms
from tfsa.loader import own_nodes, AnalysisError
from tfsa.report import norm
from tfsa.resolve import const_str
from . import common as C
from .c14 import candidate_loop, copy_functions, always_copying, ENTRY_FUNCS, ENTRY_CLASSES, STOPS

PROP = "C13"
EXPLANATION = (
    "Only necessary structural clauses of completeness are decided; the piece-to-file mapping arithmetic and hash "
    "equality are not (they quantify over run-time sizes). C13.1: in every loop over search-index candidates no `return` "
    "or `break` is reachable unless the verification of the current candidate succeeded - otherwise a decoy that merely "
    "has the right name and size ends the search before the intact copy is tried. C13.2 counted => placed: every call of "
    "the progress callback that increments the rebuilt-files counter is control-dependent on a successful verification "
    "and is dominated by the copy (directly, or inside the callee whose true result it tests). C13.3 reader tolerates what "
    "the writers omit: keys that some creator leaf omits (computed from the creators' leaf literals: 'pieces root' for "
    "empty files) are read by the rebuild reader only through .get or under a guard, and an entry without that key still "
    "has a placement arm. C13.4: the reader visits every file-tree leaf and every 'files' entry (no filter, no early exit). "
    "C13.5 the search index is not pruned after it was built; C13.6 candidates are tried independently; C13.7 every piece of a file is verified before "
    "the file counts as placed (known finding G25); C13.8 padding entries are recognised; C13.9 the v1 piece map passes no file of the list over "
    "without attaching a node for it (decided for a counter-driven map, undecided for any other way of positioning).")
RULE_TEXT = "one obligation per candidate-loop exit (C13.1), per counter call (C13.2), per read of an optional key (C13.3), per reader loop (C13.4)"


def is_candidate_loop(ctx, flow, fn, loop):
    t = flow.term(loop.iter, fn)
    return any((x[0] == "param" and x[2] in ("contents",)) or (x[0] == "ext" and x[1] in ("os.listdir", "os.walk", "os.scandir")) for x in walk_terms(t))


def verification_atoms(ctx, flow, fn, test):
    """Atoms of `test` whose value is a hash equality (or a boolean summary of one)."""
    out = []
    for a in C.atoms_of(test):
        t = flow.term(a, fn)
        for x in walk_terms(t):
            if x[0] == "op" and x[1] in ("cmp:Eq", "cmp:NotEq") and len(x[2]) == 2:
                if any((y[0] == "ext" and y[1].startswith("hashlib.")) or (y[0] == "inst" and "Hasher" in y[1]) for s in x[2] for y in walk_terms(s)):
                    if x[1] == "cmp:NotEq" and not (isinstance(a, ast.Compare) and len(a.ops) == 1 and isinstance(a.ops[0], ast.NotEq)):
                        continue        # an inequality held in a variable: its sense at this test was not followed
                    out.append(a)
                    break
    return out


def _when_not_verified(fn, a):
    """World in which the hash comparison `a` fails, for an entry that has something to verify (a recorded length that is
    not zero: an empty file records no hash and is placed by name and size alone)."""
    differs = isinstance(a, ast.Compare) and len(a.ops) == 1 and isinstance(a.ops[0], ast.NotEq)
    return lambda x: differs if x is a else C.nonempty_atom(fn, x)


def _is_copy_call(ctx, fn, call):
    """The call copies a file: the copy function itself or a helper that cannot return without having called it."""
    return any(t in ctx._copying for t in C.targets_of(ctx, fn, call))


def search_continues(ctx, flow, reach):
    loops = 0
    for fn in reach:
        if fn.module.name != "torrentfile.rebuild":
            continue
        g = C.cfg_of(fn)
        for loop in [n for n in own_nodes(fn.node) if isinstance(n, ast.For)]:
            if not is_candidate_loop(ctx, flow, fn, loop):
                continue
            # only loops that verify something
            body_calls_copy = any(isinstance(n, ast.Call) and _is_copy_call(ctx, fn, n) for st in loop.body for n in ast.walk(st))
            if not body_calls_copy:
                continue
            loops += 1
            exits = [n for st in loop.body for n in ast.walk(st) if isinstance(n, (ast.Return, ast.Break))]
            # exits belonging to nested loops' breaks are not exits of this loop
            mine = []
            for e in exits:
                p = ctx.prog.parent.get(e)
                inner = False
                while p is not None and p is not loop:
                    if isinstance(p, (ast.For, ast.While)) and isinstance(e, ast.Break):
                        inner = True
                    p = ctx.prog.parent.get(p)
                if not inner:
                    mine.append(e)
            if not mine:
                ctx.holds("C13.1", fn, "candidate loop `for %s in %s` has no early exit: every candidate is tried" % (norm(loop.target), norm(loop.iter)), loop.iter)
            for e in mine:
                en = C.stmt_node(ctx, fn, e)
                ok = False
                for b, lab in g.control_deps(en):
                    t = C.test_expr(b)
                    if t is None or b.ast not in list(ast.walk(loop)):
                        continue
                    for a in verification_atoms(ctx, flow, fn, t):
                        forced = C.branch_when(b, _when_not_verified(fn, a))
                        if forced is not None and forced != lab:
                            ok = True
                kind = "return" if isinstance(e, ast.Return) else "break"
                ctx.decide("C13.1", fn, ok, "`%s` inside the candidate loop is reachable only after the current candidate verified" % kind,
                           "`%s` inside the candidate loop `for %s in %s` is reachable when the current candidate did NOT verify: the search stops at the first same-named, same-sized decoy and the intact copy is never tried" % (
                               norm(e)[:40], norm(loop.target), norm(loop.iter)), e)
    ctx.floor("candidate loops that copy", 2, loops)


def counted_placed(ctx, flow, reach, copyfns):
    n = 0
    copy_names = {f.name for f in copyfns}
    # the places where a file is counted: the callback itself, or - when the callback sits in a small reporting method that does
    # nothing else of interest (no test, no copy) - the calls of that method
    counting = []
    for fn in reach:
        if fn.module.name != "torrentfile.rebuild":
            continue
        for call in [x for x in own_nodes(fn.node) if isinstance(x, ast.Call)]:
            if isinstance(call.func, ast.Attribute) and call.func.attr == "cb" and isinstance(call.func.value, ast.Name) and call.func.value.id == fn.self_name:
                plain = not any(isinstance(x, (ast.If, ast.For, ast.While, ast.Try, ast.Return)) for x in own_nodes(fn.node)) and fn.name not in ("_match_v1", "_match_v2", "rebuild")
                callers = [(c_, s_) for c_ in reach if c_.module.name == "torrentfile.rebuild" for s_ in own_nodes(c_.node)
                           if isinstance(s_, ast.Call) and any(t is fn for t in C.targets_of(ctx, c_, s_))] if plain else []
                if callers:
                    counting.extend(callers)
                else:
                    counting.append((fn, call))
    for fn, call in counting:
        g = C.cfg_of(fn)
        if True:
            n += 1
            cn = C.stmt_node(ctx, fn, call)
            # (a) a copy call dominates it in the same function
            direct = False
            for c2 in own_nodes(fn.node):
                if isinstance(c2, ast.Call) and any(t[0] == "pkg" and t[1] in copyfns for t in ctx.res.call_targets(c2, fn)):
                    n2 = C.stmt_node(ctx, fn, c2)
                    if n2 is not cn and g.dominates(n2, cn):
                        direct = True
            if direct:
                ctx.holds("C13.2", fn, "the counter callback is dominated by the copy of the verified candidate", call)
                continue
            # (b) control-dependent on the true result of a callee that copies before returning true
            via = None
            for b, lab in g.control_deps(cn):
                t = C.test_expr(b)
                if t is None:
                    continue
                for a in C.atoms_of(t):
                    # the branch that leads to the count is not taken when the callee answers false
                    if isinstance(a, ast.Call) and C.eval3(t, lambda x, a=a: False if x is a else None) is (lab != "true"):
                        for tg in C.targets_of(ctx, fn, a):
                            if callee_copies_before_true(ctx, tg, copyfns, set()):
                                via = tg
            if via is None:
                # a verifier whose true answer follows calls that could not be resolved (a method of a record it was handed):
                # the copy may be one of them
                opaque = []
                for b, lab in g.control_deps(cn):
                    t = C.test_expr(b)
                    for a in (C.atoms_of(t) if t is not None else []):
                        if isinstance(a, ast.Call):
                            level = list(C.targets_of(ctx, fn, a))
                            reach_ = list(level)
                            for _d in range(2):
                                level = [t2 for tg in level for c2 in own_nodes(tg.node) if isinstance(c2, ast.Call) for t2 in C.targets_of(ctx, tg, c2) if t2 not in reach_]
                                reach_.extend(level)
                            for tg in reach_:
                                for c3 in own_nodes(tg.node):
                                    if isinstance(c3, ast.Call) and isinstance(c3.func, ast.Attribute) and not C.targets_of(ctx, tg, c3) and not ctx.res.call_targets(c3, tg) \
                                            and not (isinstance(c3.func.value, ast.Name) and c3.func.value.id in ("os", "shutil", "logger", "logging")) \
                                            and c3.func.attr not in ("append", "extend", "get", "items", "keys", "values", "update", "join", "split", "format", "debug", "info", "warning"):
                                        opaque.append((tg, c3))
                if opaque:
                    ctx.undecided("C13.2", fn, "the count depends on %s, whose true answer follows `%s`, a call that could not be resolved: whether the copy happens there is not decided" % (
                        opaque[0][0].qualname, norm(opaque[0][1])[:60]), call)
                    continue
            ctx.decide("C13.2", fn, via is not None, "the counter callback is conditional on %s returning true, which happens only after the copy" % (via.qualname if via else ""),
                       "a file is counted as rebuilt although no copy of a verified candidate precedes the count", call)
    ctx.floor("counter callback sites", 2, n)


def callee_copies_before_true(ctx, f, copyfns, seen):
    """Every `return <possibly true>` of f inside a candidate loop is dominated by a copy call (or delegates to such a function)."""
    if f in seen:
        return False
    seen = seen | {f}
    g = C.cfg_of(f)
    rets = [n for n in own_nodes(f.node) if isinstance(n, ast.Return) and n.value is not None]
    copies = [C.stmt_node(ctx, f, c) for c in own_nodes(f.node) if isinstance(c, ast.Call) and (any(t[0] == "pkg" and t[1] in copyfns for t in ctx.res.call_targets(c, f))
                                                                                                 or (C.targets_of(ctx, f, c) and all(t in copyfns for t in C.targets_of(ctx, f, c))))]
    ok_any = False
    for r in rets:
        v = r.value
        if isinstance(v, ast.Constant) and not v.value:
            continue
        rn = C.stmt_node(ctx, f, r)
        if any(g.dominates(c, rn) for c in copies if c is not None):
            ok_any = True
            continue
        # the selected candidates are copied one by one in a loop that the answer follows: every element is placed before `true`
        looped = False
        for c in copies:
            if c is None or c.ast is None:
                continue
            par = ctx.prog.parent.get(c.ast)
            while par is not None and par is not f.node and not isinstance(par, (ast.For, ast.While)):
                par = ctx.prog.parent.get(par)
            if isinstance(par, ast.For) and par in g.of and g.dominates(g.of[par], rn):
                bs = C.succ_by_label(g.of[par], "iter")
                if bs and g.must_pass(bs[0], g.of[par], {c}) and not any(isinstance(x, (ast.Break, ast.Return)) for st_ in par.body for x in ast.walk(st_)):
                    looped = True
        if looped:
            ok_any = True
            continue
        # `if X: copy(...)` followed by `return X` (or `self.result = X; return self.result`): a truthy X implies the copy ran
        vx = v
        if isinstance(vx, ast.Attribute) and isinstance(vx.value, ast.Name) and vx.value.id == f.self_name:
            defs_ = [n for n in own_nodes(f.node) if isinstance(n, ast.Assign) and any(isinstance(t, ast.Attribute) and t.attr == vx.attr and isinstance(t.value, ast.Name) and t.value.id == f.self_name for t in n.targets)]
            if len(defs_) == 1 and g.dominates(C.stmt_node(ctx, f, defs_[0]), rn):
                vx = defs_[0].value
        if isinstance(vx, (ast.Name, ast.Compare, ast.UnaryOp)):
            implied = False
            names_ = [x.id for x in ast.walk(vx) if isinstance(x, ast.Name)]
            for c in copies:
                if c is None:
                    continue
                for b, lab in g.direct_control_deps(c):
                    t = C.test_expr(b)
                    if t is not None and norm(t) == norm(vx) and lab == "true" and g.dominates(b, rn) and not any(C.names_assigned_between(ctx, f, b, rn, nm) for nm in names_):
                        implied = True
            if implied:
                ok_any = True
                continue
        # delegation: return self.result / return g(...)
        delegated = False
        for n in ast.walk(v):
            if isinstance(n, ast.Call):
                for t in ctx.res.call_targets(n, f):
                    if t[0] == "pkg" and callee_copies_before_true(ctx, t[1], copyfns, seen):
                        delegated = True
        if isinstance(v, ast.Attribute) and isinstance(v.value, ast.Name) and v.value.id == f.self_name:
            for n in own_nodes(f.node):
                if isinstance(n, ast.Assign) and any(isinstance(t, ast.Attribute) and t.attr == v.attr for t in n.targets) and isinstance(n.value, ast.Call):
                    for t in ctx.res.call_targets(n.value, f):
                        if t[0] == "pkg" and callee_copies_before_true(ctx, t[1], copyfns, seen):
                            delegated = True
        if delegated:
            ok_any = True
            continue
        # the base case of a recursive verifier (no candidate involved) is allowed: it is never the top-level answer for a non-empty piece
        if not any(isinstance(p, ast.For) for p in _ancestors(ctx, r, f)):
            continue
        return False
    return ok_any


def _ancestors(ctx, node, f):
    p = ctx.prog.parent.get(node)
    while p is not None and p is not f.node:
        yield p
        p = ctx.prog.parent.get(p)


def optional_keys(ctx):
    """Keys that some creator's file-tree leaf literal has and another omits."""
    leaves = []
    # wherever the creators' module writes a leaf `{"": {...}}` - in a traversal, or in a helper the traversals share
    for f in [x for x in ctx.prog.functions.values() if x.module.name == "torrentfile.torrent"]:
        for d in own_nodes(f.node):
            if isinstance(d, ast.Dict) and len(d.keys) == 1 and const_str(d.keys[0]) == "":
                v = d.values[0]
                if isinstance(v, ast.Dict):
                    leaves.append({const_str(k) for k in v.keys})
                elif isinstance(v, ast.Name):
                    # leaf = {"length": size}; if ...: leaf["pieces root"] = root; return {"": leaf}
                    disp = [n.value for n in own_nodes(f.node) if isinstance(n, ast.Assign) and len(n.targets) == 1 and isinstance(n.targets[0], ast.Name)
                            and n.targets[0].id == v.id and isinstance(n.value, ast.Dict)]
                    adds = [const_str(n.targets[0].slice) for n in own_nodes(f.node) if isinstance(n, ast.Assign) and len(n.targets) == 1 and isinstance(n.targets[0], ast.Subscript)
                            and isinstance(n.targets[0].value, ast.Name) and n.targets[0].value.id == v.id and const_str(n.targets[0].slice) is not None]
                    for dd in disp:
                        base = {const_str(k) for k in dd.keys}
                        leaves.append(base)
                        if adds:
                            leaves.append(base | set(adds))
    if not leaves:
        raise AnalysisError("anchor vanished: file-tree leaf literals of the creators")
    allk = set().union(*leaves)
    common = set.intersection(*leaves)
    return allk - common, len(leaves)


def reader_tolerates(ctx, reach):
    opt, nleaves = optional_keys(ctx)
    ctx.info["creator_leaf_literals"] = nleaves
    ctx.info["optional_leaf_keys"] = sorted(opt)
    n = 0
    for fn in reach:
        if fn.module.name != "torrentfile.rebuild":
            continue
        for s in own_nodes(fn.node):
            if isinstance(s, ast.Subscript) and isinstance(s.ctx, ast.Load) and const_str(s.slice) in opt:
                n += 1
                key = const_str(s.slice)
                guarded = False
                p = ctx.prog.parent.get(s)
                child = s
                while p is not None and p is not fn.node:
                    if isinstance(p, ast.IfExp) and child is not p.test:
                        guarded = True
                    if isinstance(p, ast.If) and child not in [p.test]:
                        if any(const_str(x) == key for x in ast.walk(p.test)) or any(isinstance(x, ast.Name) and "length" in x.id for x in ast.walk(p.test)):
                            guarded = True
                    if isinstance(p, ast.Try):
                        guarded = True
                    child = p
                    p = ctx.prog.parent.get(p)
                ctx.decide("C13.3", fn, guarded, "read of optional key %r is guarded" % key,
                           "leaf key %r is read unconditionally although the creators omit it for empty files: any v2/hybrid torrent with an empty file raises KeyError and nothing is rebuilt" % key, s)
            if isinstance(s, ast.Call) and isinstance(s.func, ast.Attribute) and s.func.attr == "get" and s.args and const_str(s.args[0]) in opt:
                n += 1
                ctx.holds("C13.3", fn, "optional key %r read with .get" % const_str(s.args[0]), s)
    ctx.floor("reads of optional leaf keys in the rebuild reader", 1, n)
    # an entry without the optional key still has a placement arm: the copy in the v2 matcher must be reachable when length == 0
    for fn in reach:
        if fn.module.name != "torrentfile.rebuild" or not fn.name.startswith("_match"):
            continue
        uses_root = any(isinstance(s, ast.Subscript) and const_str(s.slice) in ("root",) for s in own_nodes(fn.node))
        if not uses_root:
            continue
        g = C.cfg_of(fn)
        copies = [c for c in own_nodes(fn.node) if isinstance(c, ast.Call) and _is_copy_call(ctx, fn, c)]
        for c in copies:
            cn = C.stmt_node(ctx, fn, c)
            hash_tests = []
            for b, lab in g.control_deps(cn):
                t = C.test_expr(b)
                if t is not None and any(isinstance(x, ast.Subscript) and const_str(x.slice) == "root" for x in ast.walk(t)):
                    # for an empty file (every test of the recorded length fails) the test may be decided without the root
                    empty = C.branch_when(b, lambda x: (not C.nonempty_atom(fn, x)) if C.nonempty_atom(fn, x) is not None else None)
                    if empty is not None and empty == lab:
                        continue
                    hash_tests.append(b)
            if hash_tests:
                # an empty file: every test of the recorded length fails, and no comparison with its (absent) root passes
                def empty_world(x):
                    ne = C.nonempty_atom(fn, x)
                    if ne is not None:
                        return not ne
                    if isinstance(x, ast.Compare) and len(x.ops) == 1 and any(isinstance(y, ast.Subscript) and const_str(y.slice) == "root" for y in ast.walk(x)):
                        return {ast.Eq: False, ast.NotEq: True}.get(type(x.ops[0]))
                    return None
                if cn in C.reach_under(g, g.entry, empty_world):
                    hash_tests = []
            ctx.decide("C13.3", fn, not hash_tests, "the copy is not unconditionally tied to a root comparison: an empty file (no root recorded) can still be placed",
                       "the copy requires entry['root'] == computed root for every entry, but empty files record no root: they are never placed", c)


def reader_complete(ctx, reach):
    n = 0
    for q in ("torrentfile.rebuild:Metadata._parse_tree", "torrentfile.rebuild:Metadata.extract"):
        fn = ctx.prog.func(q)
        for loop in [x for x in own_nodes(fn.node) if isinstance(x, ast.For)]:
            n += 1
            bad = [x for st in loop.body for x in ast.walk(st) if isinstance(x, (ast.Break, ast.Return, ast.Continue))]
            appends = [x for st in loop.body for x in ast.walk(st) if isinstance(x, ast.Call) and isinstance(x.func, ast.Attribute) and x.func.attr == "append"]
            recurses = [x for st in loop.body for x in ast.walk(st) if isinstance(x, ast.Call) and any(t[0] == "pkg" and t[1] is fn for t in ctx.res.call_targets(x, fn))]
            g = C.cfg_of(fn)
            head = g.of[loop]
            # every iteration either records the entry or recurses
            covered = True
            body_start = C.succ_by_label(head, "iter")
            if body_start:
                marks = {C.stmt_node(ctx, fn, x) for x in appends + recurses}
                covered = g.must_pass(body_start[0], head, marks) if marks else False
            ok = not bad and covered
            # the v1 list is the payload layout: its entries must be visited in the order the metafile gives them
            it = loop.iter
            inner = it
            while isinstance(inner, ast.Call) and isinstance(inner.func, ast.Name) and inner.func.id in ("enumerate", "list", "tuple", "iter") and inner.args:
                inner = inner.args[0]
            mentions_files = any(isinstance(x, ast.Subscript) and const_str(x.slice) == "files" for x in ast.walk(it)) or \
                any(isinstance(x, ast.Call) and isinstance(x.func, ast.Attribute) and x.func.attr == "get" and x.args and const_str(x.args[0]) == "files" for x in ast.walk(it))
            if mentions_files:
                plain = (isinstance(inner, ast.Subscript) and const_str(inner.slice) == "files") or \
                    (isinstance(inner, ast.Call) and isinstance(inner.func, ast.Attribute) and inner.func.attr == "get" and inner.args and const_str(inner.args[0]) == "files")
                reorder = [x for x in ast.walk(it) if isinstance(x, ast.Call) and isinstance(x.func, ast.Name) and x.func.id in ("sorted", "reversed", "filter", "set", "frozenset")] + \
                    [x for x in ast.walk(it) if isinstance(x, ast.Subscript) and isinstance(x.slice, ast.Slice)]
                if reorder:
                    ctx.violated("C13.4", fn, "the v1 file list is visited as `%s`, not in the metafile's own order: the list order IS the payload layout, so every piece-to-file mapping after the first displaced entry is wrong" % norm(it), loop)
                elif plain:
                    ctx.holds("C13.4", fn, "the v1 file list is visited in the metafile's order", loop)
                else:
                    ctx.undecided("C13.4", fn, "the v1 file list is visited through `%s`; whether the order is kept is not decided" % norm(it), loop)
            work = C.in_worklist_loop(ctx, fn, loop)
            if not ok and work is not None:
                # a walk with its own stack: leaving the inner loop is how it descends, the rest of the level is resumed later
                ctx.undecided("C13.4", fn, "reader loop `for %s in %s` runs inside a loop that keeps its own stack of open levels (`%s`): leaving it early is how such a walk descends; "
                              "whether every entry is visited in the end is not read" % (norm(loop.target), norm(loop.iter), work), loop.iter)
                continue
            ctx.decide("C13.4", fn, ok, "reader loop `for %s in %s` records or descends into every entry" % (norm(loop.target), norm(loop.iter)),
                       "reader loop `for %s in %s` can skip an entry (%s): that file is never searched for" % (norm(loop.target), norm(loop.iter), "early exit" if bad else "a path through the body records nothing"), loop.iter)
    ctx.floor("reader loops", 2, n)


def index_complete(ctx):
    """C13.5: every candidate found in every search directory reaches the search index (lists are merged, never replaced)."""
    n = 0
    for q in ("torrentfile.rebuild:_index_contents", "torrentfile.rebuild:_index_content"):
        fn = ctx.prog.functions.get(q)
        if fn is None:
            ctx.undecided("C13.5", None, "anchor vanished: %s" % q)
            continue
        rets = [r.value for r in own_nodes(fn.node) if isinstance(r, ast.Return) and isinstance(r.value, ast.Name)]
        acc = {r.id for r in rets}
        for loop in [x for x in own_nodes(fn.node) if isinstance(x, ast.For)]:
            # a loop over search roots / directory entries that calls the indexer again
            calls = [c for st in loop.body for c in ast.walk(st) if isinstance(c, ast.Call) and any(t.name.startswith("_index_content") for t in C.targets_of(ctx, fn, c))]
            if not calls:
                continue
            n += 1
            bad = None
            for st in loop.body:
                for x in ast.walk(st):
                    if isinstance(x, ast.Call) and isinstance(x.func, ast.Attribute) and x.func.attr == "update" and isinstance(x.func.value, ast.Name) and x.func.value.id in acc:
                        bad = (x, "dict.update replaces the candidate list of a name found earlier")
                    if isinstance(x, ast.Assign) and isinstance(x.targets[0], ast.Subscript) and isinstance(x.targets[0].value, ast.Name) and x.targets[0].value.id in acc \
                            and not isinstance(x.value, (ast.List,)) and not (isinstance(x.value, ast.BinOp) and isinstance(x.value.op, ast.Add)):
                        bad = (x, "assignment replaces the candidate list of a name found earlier")
            merged = any(isinstance(x, ast.Call) and isinstance(x.func, ast.Attribute) and x.func.attr in ("extend", "append") and isinstance(x.func.value, ast.Subscript)
                         and isinstance(x.func.value.value, ast.Name) and x.func.value.value.id in acc for st in loop.body for x in ast.walk(st)) or \
                any(isinstance(x, ast.AugAssign) and isinstance(x.target, ast.Subscript) and isinstance(x.target.value, ast.Name) and x.target.value.id in acc for st in loop.body for x in ast.walk(st))
            if bad:
                ctx.violated("C13.5", fn, "%s: when the same file name occurs under several search directories only the last directory's candidates survive, so an intact copy elsewhere is never tried" % bad[1], bad[0])
            elif merged:
                ctx.holds("C13.5", fn, "candidates of `for %s in %s` are merged into the index by extending the per-name lists" % (norm(loop.target), norm(loop.iter)), loop.iter)
            else:
                ctx.undecided("C13.5", fn, "how `for %s in %s` merges its candidates into the index is not understood" % (norm(loop.target), norm(loop.iter)), loop.iter)
        early = [x for x in own_nodes(fn.node) if isinstance(x, ast.Break)]
        if early:
            ctx.violated("C13.5", fn, "indexing stops early: later directories / entries are not searched", early[0])
    ctx.floor("index merge loops", 1, n)


def index_not_pruned(ctx):
    """C13.5: once built, the search index keeps every candidate until the matchers look at it: nothing removes, filters or
    replaces per-name candidate lists (a size pre-filter keyed by file name keeps one size per name and throws away the
    intact copies of every other same-named file)."""
    from tfsa.pointsto import PointsTo
    from .postassembly import filtered_rebuild
    pt = getattr(ctx, "_pt_cache", None) or PointsTo(ctx.prog, ctx.res, ctx.cg)
    ctx._pt_cache = pt
    idx = ctx.prog.functions.get("torrentfile.rebuild:_index_contents")
    if idx is None:
        ctx.undecided("C13.5", None, "anchor vanished: _index_contents")
        return
    roots = set()
    for f in ctx.prog.functions.values():
        for n in own_nodes(f.node):
            if isinstance(n, ast.Call) and any(t is idx for t in C.targets_of(ctx, f, n)):
                roots |= pt.pts(n, f)
    if not roots:
        ctx.undecided("C13.5", idx, "the search index object could not be located")
        return
    objs = set(roots)
    for o in list(roots):
        objs |= pt.getfield(o, None)
    builders = {f for f in ctx.prog.functions.values() if f.name.startswith("_index_content")}
    n = 0
    for ins, hit in pt.list_edits_of(objs):
        if ins.fn in builders:
            continue
        n += 1
        ctx.violated("C13.5", ins.fn, "`%s` %s candidates of the search index before the matchers have seen them" % (norm(ins.node)[:70], "removes" if ins.how == "remove" else "reorders"), ins.node)
    for ins, hit in pt.insertions_into(objs):
        if ins.fn is None or ins.fn in builders:
            continue
        n += 1
        if ins.how == "del":
            ctx.violated("C13.5", ins.fn, "`%s` deletes candidates from the search index" % norm(ins.node)[:70], ins.node)
        elif ins.how == "store" and ins.value is not None:
            why = filtered_rebuild(ctx, ins.value, ins.fn)
            if not why and isinstance(ins.value, (ast.List, ast.Tuple)) and not any(isinstance(x, ast.Starred) for x in ins.value.elts):
                why = "a list display of %d element(s) (`%s`): whatever else was indexed under that name is gone for the entries and metafiles still to be matched" % (len(ins.value.elts), norm(ins.value)[:40])
            if why:
                ctx.violated("C13.5", ins.fn, "the candidate list is replaced by %s: candidates are dropped before any of their bytes were compared - with a criterion kept per file *name*, "
                             "the intact copies of all but one same-named file are lost" % why, ins.node)
            else:
                ctx.undecided("C13.5", ins.fn, "`%s` rewrites part of the search index" % norm(ins.node)[:70], ins.node)
        else:
            ctx.undecided("C13.5", ins.fn, "`%s` modifies the search index after it was built" % norm(ins.node)[:70], ins.node)
    if n == 0:
        ctx.holds("C13.5", idx, "nothing outside the index builders removes, filters or replaces candidates of the search index (%d objects)" % len(objs), "index :: pruned")


def every_piece_verified(ctx):
    """C13.7: in the v1 matcher every piece of the metafile is compared before the file it belongs to counts as placed.

    The candidate of a file is copied when the *first* piece touching it verifies.  If later pieces of that file are then
    skipped, a same-named, same-sized file that shares only its beginning with the original (a partial download, an older
    revision) is placed although an intact copy is available, and the result does not verify."""
    fn = ctx.prog.functions.get("torrentfile.rebuild:Metadata._match_v1")
    if fn is None:
        ctx.undecided("C13.7", None, "anchor vanished: Metadata._match_v1")
        return
    g = C.cfg_of(fn)
    loops = [n for n in own_nodes(fn.node) if isinstance(n, ast.For) and any(isinstance(c, ast.Call) and isinstance(c.func, ast.Attribute) and c.func.attr == "find_matches" for c in ast.walk(n))]
    if len(loops) != 1:
        ctx.undecided("C13.7", fn, "the loop over piece nodes was not found")
        return
    loop = loops[0]
    head = g.of[loop]
    start = C.succ_by_label(head, "iter")[0]
    calls = {C.stmt_node(ctx, fn, c) for c in ast.walk(loop) if isinstance(c, ast.Call) and isinstance(c.func, ast.Attribute) and c.func.attr == "find_matches"}
    ok = g.must_pass(start, head, calls)
    skip = [x for st in loop.body for x in ast.walk(st) if isinstance(x, ast.Continue)]
    ctx.decide("C13.7", fn, ok, "every piece node is handed to the verifier",
               "a piece is skipped without being compared (`%s`): once the first piece of a file verified and its candidate was copied, the remaining pieces of that file are "
               "never checked - a decoy that shares the first piece with the original is placed even though an intact copy exists" % (
                   norm(ctx.prog.parent.get(skip[0]).test)[:80] if skip and isinstance(ctx.prog.parent.get(skip[0]), ast.If) else "early continue"),
               skip[0] if skip else loop)


def padding_entries_recognised(ctx):
    """C13.8: what the creators write into a v1 file entry the rebuild reader must understand.  Aligned v1 torrents (and
    hybrids read as v1) list padding entries marked attr='p'; a reader that never looks at 'attr' searches the disk for a
    file called like the padding entry and, not finding it, fails every piece that contains padding."""
    ex = ctx.prog.functions.get("torrentfile.rebuild:Metadata.extract")
    if ex is None:
        ctx.undecided("C13.8", None, "anchor vanished: Metadata.extract")
        return
    writers = []
    for f in ctx.prog.functions.values():
        if f.module.name not in ("torrentfile.torrent", "torrentfile.hasher"):
            continue
        for d in own_nodes(f.node):
            if isinstance(d, ast.Dict) and any(const_str(k) == "attr" for k in d.keys if k is not None) and any(const_str(k) == "path" for k in d.keys if k is not None):
                writers.append((f, d))
    if not writers:
        ctx.holds("C13.8", ex, "no creator writes padding entries", "padding entries", nontrivial=False)
        return
    reads = [n for f in ctx.prog.functions.values() if f.module.name == "torrentfile.rebuild" for n in own_nodes(f.node)
             if (isinstance(n, ast.Constant) and n.value == "attr")]
    ctx.decide("C13.8", ex, bool(reads), "the rebuild reader looks at the 'attr' key of v1 entries",
               "the creators mark padding entries with attr='p' (%s) but nothing in rebuild reads 'attr': a padding entry is treated as a real file that must be found on disk, "
               "so no piece that contains padding ever verifies and the files around it are not rebuilt" % writers[0][0].qual.split(":")[-1], "padding entries")


def candidates_independent(ctx, flow, reach):
    """C13.6: trying one candidate must not change the state the next candidate is verified with."""
    n = 0
    for fn in reach:
        if fn.module.name != "torrentfile.rebuild":
            continue
        for loop in [x for x in own_nodes(fn.node) if isinstance(x, ast.For)]:
            if not is_candidate_loop(ctx, flow, fn, loop):
                continue
            if not any(isinstance(c, ast.Call) and _is_copy_call(ctx, fn, c) for st in loop.body for c in ast.walk(st)):
                continue
            n += 1
            outer = set(fn.all_params()) | {t.id for st in fn.node.body if st is not loop and isinstance(st, ast.Assign) for t in st.targets if isinstance(t, ast.Name)}
            inner_defs = {t.id for st in loop.body for x in ast.walk(st) if isinstance(x, ast.Assign) for t in x.targets if isinstance(t, ast.Name)} | \
                {x.id for x in ast.walk(loop.target) if isinstance(x, ast.Name)}
            shared = outer - inner_defs
            bad = None
            alias_of = {}
            for st in loop.body:
                for x in ast.walk(st):
                    if isinstance(x, ast.Assign) and len(x.targets) == 1 and isinstance(x.targets[0], ast.Name) and isinstance(x.value, ast.Name) and x.value.id in shared:
                        alias_of[x.targets[0].id] = x.value
            for st in loop.body:
                for x in ast.walk(st):
                    if isinstance(x, ast.Call) and isinstance(x.func, ast.Attribute) and isinstance(x.func.value, ast.Name) and x.func.value.id in shared \
                            and x.func.attr in ("update", "append", "extend", "add", "write", "pop", "clear", "insert"):
                        bad = x
                    if isinstance(x, ast.AugAssign) and isinstance(x.target, ast.Name) and x.target.id in shared:
                        bad = x
                    # `tmp = shared; tmp += ...` : in place when the shared value is a mutable buffer (bytearray / list)
                    if isinstance(x, (ast.AugAssign, ast.Call)):
                        tgt = x.target if isinstance(x, ast.AugAssign) else (x.func.value if isinstance(x.func, ast.Attribute) and x.func.attr in ("extend", "append", "update", "insert", "clear", "pop") else None)
                        if isinstance(tgt, ast.Name) and tgt.id in alias_of:
                            src = alias_of[tgt.id]
                            t = flow.term(src, fn)
                            mut = any(y[0] in ("list", "dict") or (y[0] == "ext" and y[1] in ("builtins.bytearray", "builtins.list", "builtins.dict", "builtins.set")) for y in t)
                            if mut:
                                bad = x
            if bad is not None:
                ctx.violated("C13.6", fn, "a value shared by all iterations of the candidate loop is changed while a candidate is tried (%s): a rejected candidate contaminates the verification of the next one, so an intact copy listed after a decoy never verifies" % norm(bad)[:60], bad)
            else:
                ctx.holds("C13.6", fn, "each candidate of `for %s in %s` is verified from state the loop does not carry over" % (norm(loop.target), norm(loop.iter)), loop.iter)
    ctx.floor("candidate loops checked for independence", 2, n)


def piece_map_covers_every_file(ctx):
    """C13.9: the v1 piece map gives every entry of the file list at least one node.  The map walks the file list with a
    counter; a file whose counter position is passed without a node having been attached for it belongs to no piece, is
    never searched for and never placed.  Decided for a counter-driven map (every `counter += 1` lies between the point where
    the file's record is taken and the next such point, on a stretch that attaches a node built from that record); any other
    way of building the map is reported as undecided - the arithmetic of the map itself is not evaluated."""
    fn = ctx.prog.functions.get("torrentfile.rebuild:Metadata._map_pieces")
    if fn is None:
        ctx.undecided("C13.9", None, "anchor vanished: Metadata._map_pieces")
        return
    g = C.cfg_of(fn)
    # the counter: a local used as index into self.files
    counters = {x.slice.id for x in own_nodes(fn.node) if isinstance(x, ast.Subscript) and isinstance(x.slice, ast.Name) and isinstance(x.value, ast.Attribute) and x.value.attr == "files"}
    incs = [n for n in own_nodes(fn.node) if isinstance(n, ast.AugAssign) and isinstance(n.target, ast.Name) and n.target.id in counters]
    if len(counters) != 1 or not incs:
        ctx.undecided("C13.9", fn, "the v1 piece map is not driven by a counter into the file list: that every file of the metafile is attached to a piece is not decided", fn.node)
        return
    cnt = next(iter(counters))
    # the counter only ever starts at 0 and moves by increments: a jump (`index = bisect(...)`, a loop variable over a
    # computed range) can pass files over, and whether it does depends on arithmetic this rule does not evaluate
    for n in own_nodes(fn.node):
        tg = []
        if isinstance(n, ast.Assign):
            tg = [(t, n.value) for t in n.targets for t in ([t] if isinstance(t, ast.Name) else list(ast.walk(t))) if isinstance(t, ast.Name) and t.id == cnt]
        elif isinstance(n, (ast.For, ast.comprehension)):
            tg = [(t, n.iter) for t in ast.walk(n.target) if isinstance(t, ast.Name) and t.id == cnt]
        for t, v in tg:
            if not (isinstance(v, ast.Constant) and v.value == 0):
                ctx.undecided("C13.9", fn, "the position in the file list is set by `%s`, not only advanced one file at a time: that no file is jumped over is not decided" % norm(n)[:70], n)
                return
    # records: locals bound to self.files[counter]
    recs = [n for n in own_nodes(fn.node) if isinstance(n, ast.Assign) and len(n.targets) == 1 and isinstance(n.targets[0], ast.Name) and isinstance(n.value, ast.Subscript)
            and isinstance(n.value.value, ast.Attribute) and n.value.value.attr == "files" and isinstance(n.value.slice, ast.Name) and n.value.slice.id == cnt]
    rec_names = {n.targets[0].id for n in recs}
    rec_nodes = {C.stmt_node(ctx, fn, n) for n in recs}

    def node_ctor(e, depth=0):
        """PathNode(..., **record) (directly or through a local)"""
        if isinstance(e, ast.Call) and any(k[0] == "class" and k[1].name == "PathNode" for k in ctx.res.kinds(e.func, fn)):
            return any(kw.arg is None and isinstance(kw.value, ast.Name) and kw.value.id in rec_names for kw in e.keywords)
        if isinstance(e, ast.Name) and depth < 2:
            vals = [p_ for w_, p_ in ctx.res.bindings(fn).get(e.id, []) if w_ == "value"]
            return bool(vals) and all(node_ctor(v, depth + 1) for v in vals)
        return False
    attaches = {C.stmt_node(ctx, fn, n) for n in own_nodes(fn.node) if isinstance(n, ast.Call) and isinstance(n.func, ast.Attribute) and n.func.attr == "append" and n.args and node_ctor(n.args[0])}
    attaches.discard(None)
    if not attaches or not recs:
        ctx.undecided("C13.9", fn, "no statement that attaches a node built from the current file's record was recognised in the piece map", fn.node)
        return
    for inc in incs:
        if not (isinstance(inc.op, ast.Add) and isinstance(inc.value, ast.Constant) and inc.value.value == 1):
            ctx.violated("C13.9", fn, "the file counter moves by `%s`: files are skipped (or visited twice) without being attached to a piece" % norm(inc), inc)
            continue
        inn = C.stmt_node(ctx, fn, inc)
        # after the counter moved on, a node for the file it pointed at is attached before the next record is taken / the map ends
        after = g.must_pass(inn, g.exit, attaches | rec_nodes) and all(g.must_pass(inn, r, attaches) for r in rec_nodes if r in g.reachable(inn) and r is not inn) \
            and not (g.exit in g.reachable(inn, avoiding=attaches | rec_nodes))
        # or it was attached since the record was taken
        before = all(g.must_pass(r, inn, attaches) for r in rec_nodes if inn in g.reachable(r))
        ctx.decide("C13.9", fn, after or before, "when the file counter moves on, a node built from that file's record %s" % ("is attached before the next record is taken" if after else "has been attached"),
                   "the file counter moves on (`%s`) on a path that attaches no node for the file it pointed at: that file belongs to no piece, so rebuild never looks for it and never places it" % norm(inc), inc)
    ctx.floor("advances of the file counter in the v1 piece map", 1, len(incs))
    # a file that a previous piece stopped in is left exactly when nothing of it remains.  The figure of what remains is
    # the local subtracted from the record's length to find where to go on reading; inside the branch that continues such a
    # file the counter may move on only where the code itself says that figure is exhausted: under a further test that
    # speaks of it, or next to the statement that sets it to 0.  (Whether a test that speaks of other figures - the room
    # left in the piece, say - happens to coincide with that is arithmetic this rule does not evaluate: undecided.)
    rems = {x.right.id for x in own_nodes(fn.node) if isinstance(x, ast.BinOp) and isinstance(x.op, ast.Sub) and isinstance(x.right, ast.Name)
            and isinstance(x.left, ast.Subscript) and const_str(x.left.slice) == "length"}
    if len(rems) == 1:
        REM = next(iter(rems))
        for inc in incs:
            inn = C.stmt_node(ctx, fn, inc)
            deps = [(C.test_expr(b), lab) for b, lab in g.control_deps(inn) if C.test_expr(b) is not None]
            cont = [t for t, lab in deps if isinstance(t, ast.Name) and t.id == REM and lab == "true"]
            if not cont:
                continue
            speaks = [t for t, lab in deps if not (isinstance(t, ast.Name) and t.id == REM) and any(isinstance(x, ast.Name) and x.id == REM for x in ast.walk(t))]
            par = ctx.prog.parent.get(inc)
            block = next((l_ for f_ in ("body", "orelse") for l_ in [getattr(par, f_, None)] if isinstance(l_, list) and inc in l_), [])
            zeroed = any(isinstance(s_, ast.Assign) and any(isinstance(t_, ast.Name) and t_.id == REM for t_ in s_.targets) and isinstance(s_.value, ast.Constant) and s_.value.value == 0 for s_ in block)
            if speaks or zeroed:
                ctx.holds("C13.9", fn, "a continued file is left where the code says nothing of it remains (%s)" % ("`%s = 0` in the same block" % REM if zeroed else "under `%s`" % norm(speaks[0])[:50]), inc)
            else:
                inner = [norm(t)[:40] for t, lab in deps if not (isinstance(t, ast.Name) and t.id == REM)]
                ctx.undecided("C13.9", fn, "a continued file is left (`%s`) under %s, which does not speak of what remains of the file (`%s`): that the counter moves on exactly when the file is "
                              "finished - also when file and piece end together - was not established" % (norm(inc), ("`%s`" % inner[-1]) if inner else "no further test", REM), inc)


def run(ctx):
    ctx.trust("the arithmetic of the piece-to-file mapping (_map_pieces: offsets, lengths) and hash equality are NOT decided by this check; C13.9 decides only that no file is passed over without a node")
    entries = C.funcs(ctx, ENTRY_FUNCS) + C.class_methods(ctx, ENTRY_CLASSES)
    stops = C.funcs(ctx, STOPS)
    flow = Flow(ctx.prog, ctx.res, stop_funcs=stops)
    effs, precise, full = C.reach_effects(ctx, entries, ("fs-write", "fs-write?"))
    copyfns = copy_functions(ctx, effs)
    ctx._copying = always_copying(ctx, copyfns)
    search_continues(ctx, flow, full)
    counted_placed(ctx, flow, full, ctx._copying)
    reader_tolerates(ctx, full)
    reader_complete(ctx, full)
    index_complete(ctx)
    index_not_pruned(ctx)
    every_piece_verified(ctx)
    padding_entries_recognised(ctx)
    piece_map_covers_every_file(ctx)
    candidates_independent(ctx, flow, full)


MUTANTS = [
    {"name": "piece-map-skips-empty-files", "file": "torrentfile/rebuild.py", "expect": "violated", "rule": "C13.9", "canary": True, "quick": True,
     "what": "the piece map steps over empty files without giving them a node",
     "edits": [("                current = self.files[file_index]\n                size = current[\"length\"]\n                if size <= target:",
                "                current = self.files[file_index]\n                size = current[\"length\"]\n                if not size:\n                    file_index += 1\n                    continue\n                if size <= target:")]},
    {"name": "piece-map-counter-by-two", "file": "torrentfile/rebuild.py", "expect": "violated", "rule": "C13.9", "canary": True,
     "what": "trailing empty files: counter advances by two", "edits": [("            self.piece_nodes[-1].append(PathNode(start=0, stop=-1, **current))\n            file_index += 1", "            self.piece_nodes[-1].append(PathNode(start=0, stop=-1, **current))\n            file_index += 2")]},
    {"name": "G27-regress-padding-not-recognised", "file": "torrentfile/rebuild.py", "expect": "violated", "rule": "C13.8", "canary": True, "quick": True,
     "what": "defect G27 (repaired): the v1 reader of rebuild ignores attr='p'", "edits": [('                padding = "p" in f.get("attr", "")', "                padding = False")]},
    {"name": "index-prefiltered-by-name-size", "file": "torrentfile/rebuild.py", "expect": "violated", "rule": "C13.5", "canary": True,
     "what": "candidates of the wrong size (one size per file name) are dropped right after indexing",
     "edits": [("        self.filemap = _index_contents(self.contents, filenames)\n", "        self.filemap = _index_contents(self.contents, filenames)\n        sizes = {f[\"filename\"]: f[\"length\"] for m_ in self.metafiles for f in m_.files}\n        for name_, found in self.filemap.items():\n            found[:] = [c for c in found if c[1] == sizes.get(name_)]\n")]},
    {"name": "files-visited-sorted", "file": "torrentfile/rebuild.py", "expect": "violated", "rule": "C13.4", "canary": True,
     "what": "the v1 file list is walked in sorted order", "edits": [("            for f in info[\"files\"]:", "            for f in sorted(info[\"files\"], key=lambda e: e[\"path\"]):")]},
    {"name": "G9-regress-return-after-first-candidate", "file": "torrentfile/rebuild.py", "expect": "violated", "rule": "C13.1", "canary": True, "quick": True,
     "what": "pinned-tree defect G9: return val as last statement of the loop body", "edits": [("                copypath(loc, dest_path)\n                return val\n", "                copypath(loc, dest_path)\n            return val\n")]},
    {"name": "v2-break-after-first-candidate", "file": "torrentfile/rebuild.py", "expect": "violated", "rule": "C13.1", "canary": True,
     "what": "v2 stops at the first same-sized candidate", "edits": [("                        self.cb(path, dest_path, self.num_pieces)\n                        break\n", "                        self.cb(path, dest_path, self.num_pieces)\n                    break\n")]},
    {"name": "G10-regress-pieces-root-keyerror", "file": "torrentfile/rebuild.py", "expect": "violated", "rule": "C13.3", "canary": True, "quick": True,
     "what": "pinned-tree defect G10: val['']['pieces root']", "edits": [('                root = val[""].get("pieces root")', '                root = val[""]["pieces root"]')]},
    {"name": "empty-file-never-placed", "file": "torrentfile/rebuild.py", "expect": "violated", "rule": "C13.3", "canary": True,
     "what": "empty files compared against a missing root",
     "edits": [("                    if length:\n                        hasher = HasherV2(path, self.piece_length, True)\n                        matched = entry[\"root\"] == hasher.root\n                    else:\n                        matched = True\n                    if matched:", "                    hasher = HasherV2(path, self.piece_length, True)\n                    if entry[\"root\"] == hasher.root:")]},
    {"name": "G8-regress-counted-not-placed", "file": "torrentfile/rebuild.py", "expect": "violated", "rule": "C13.2", "canary": True,
     "what": "counter advances without a copy", "edits": [("                        copypath(path, dest_path)\n                        self._update()", "                        self._update()")]},
    {"name": "v1-counts-failed-pieces", "file": "torrentfile/rebuild.py", "expect": "violated", "rule": "C13.2", "canary": True,
     "what": "callback not conditional on the match", "edits": [("            if piece_node.find_matches(filemap, dest):\n                for pathnode in paths:", "            piece_node.find_matches(filemap, dest)\n            if paths:\n                for pathnode in paths:")]},
    {"name": "reader-skips-hidden", "file": "torrentfile/rebuild.py", "expect": "violated", "rule": "C13.4", "canary": True,
     "what": "file-tree reader skips dot files", "edits": [('        for key, val in tree.items():\n            if "" in val:\n                self.filenames.add(key)', '        for key, val in tree.items():\n            if key.startswith("."):\n                continue\n            if "" in val:\n                self.filenames.add(key)')]},
    {"name": "reader-stops-at-padding", "file": "torrentfile/rebuild.py", "expect": "violated", "rule": "C13.4", "canary": True,
     "what": "v1 reader stops at the first padding entry", "edits": [('            for f in info["files"]:\n                path = f["path"]', '            for f in info["files"]:\n                if f.get("attr") == "p":\n                    break\n                path = f["path"]')]},
    {"name": "benign-loop-rewritten", "file": "torrentfile/rebuild.py", "expect": "clean",
     "what": "v1 candidate loop with positive test", "edits": [("            if size != len(pathnode):\n                continue\n            partial = pathnode.get_part(loc)\n            val = self._find_matches(filemap, paths[1:], data + partial)\n            if val:\n                dest_path = _contained(self.dest, pathnode.full)\n                copypath(loc, dest_path)\n                return val\n", "            if size == len(pathnode):\n                partial = pathnode.get_part(loc)\n                found = self._find_matches(filemap, paths[1:], data + partial)\n                if found:\n                    copypath(loc, _contained(self.dest, pathnode.full))\n                    return True\n")]},
]
QUICK_CANARIES = True

CLAIM = {
    "text": "Partial: decides four necessary conditions of completeness on every path (the candidate search does not stop on an unverified candidate; counted implies copied; the reader "
            "tolerates the keys creators omit and still places such entries; the reader visits every entry). It does NOT decide the piece-to-file mapping or hash equality, so a pass is "
            "not a proof that rebuild completes - only that these structural ways of failing are absent. Defects G11-G13 (arithmetic / bookkeeping, repaired) are outside its reach. C13.4 also requires the v1 file list to be visited in the metafile's order; C13.5 that nothing prunes the search index after it was built; C13.7 that every piece is handed to the verifier (known finding G25 on this tree); C13.8 that the rebuild reader recognises the padding entries the creators write (repaired since: G27). C13.9 also asks that a file continued from the previous piece be left only where the code says nothing of it remains (otherwise undecided: the arithmetic is not evaluated).",
    "note": "Trusted: the same call-graph and origin-term machinery as C14. Honest scope: behaviour of _map_pieces and 100% verification of the rebuilt tree are run-time properties.",
    "technique": "CFG control dependence on verification atoms (origin terms), dominance of the copy over the counter, reader/writer key agreement, must-pass-through in reader loops",
    "design_ref": "DESIGN.md section 4, C13",
}
