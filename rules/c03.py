"""C03 - hybrid metafile: the v1 view and the v2 view describe the same payload (structural clauses)."""
import ast

from tfsa.loader import own_nodes
from tfsa.report import norm
from tfsa.resolve import const_str
from . import common as C
from . import hashfacts as HF
from . import creatorfacts as CF
from .hash_mutants import MUT_C03

PROP = "C03"
EXPLANATION = (
    "Partial. Not decided: SHA-1 equality for all sizes. Decided for both hybrid creators (TorrentFileHybrid, "
    "TorrentAssembler with the hybrid flag): C03.1 every path through the file branch of _traverse appends exactly one "
    "non-padding v1 entry (before the empty-file early return) built from the same size the tree leaf records, in the "
    "sorted traversal order; C03.2 the padding entry directly follows its file, is the hasher's padding record, and that "
    "record is marked attr='p'; C03.3 zero-extension facts of HasherHybrid and FileHasher: SHA-1 per piece over exactly "
    "the blocks read, gap = piece_length - bytes read, update(bytes(gap)) and the padding record of that length under the "
    "same condition gap > 0 (and the pad switch); C03.4 padding hashed <=> padding listed: on every feasible CFG path of "
    "assemble that stores info['pieces'] but not info['files'] (single file: only 'length' is recorded) the pad switch is "
    "set to the constant False before the traversal, and info['length'] is getsize of the content path; C03.5 after assembly "
    "nothing in the package removes, filters, reorders or replaces info/files, info/pieces or info/length (points-to over the metafile "
    "dictionary; an order-only copy is accepted).")
RULE_TEXT = "one obligation per fact of each hybrid creator / hasher and per feasible path of assemble"


def _attr_defs(ctx, cls, attr):
    out = []
    for c in ctx.prog.mro(cls):
        for m in c.methods.values():
            for x in own_nodes(m.node):
                if isinstance(x, ast.Assign) and any(isinstance(t, ast.Attribute) and t.attr == attr and isinstance(t.value, ast.Name) and t.value.id == m.self_name for t in x.targets):
                    out.append(x.value)
    return out


def _canon(ctx, cls, e):
    """Text of a test atom with `self.flag` replaced by its single definition (self.single = os.path.isfile(self.path))."""
    if isinstance(e, ast.Attribute) and isinstance(e.value, ast.Name):
        ds = _attr_defs(ctx, cls, e.attr)
        if len(ds) == 1 and isinstance(ds[0], (ast.Call, ast.Compare)):
            return norm(ds[0])
    return norm(e)


def padding_switch(ctx, cq):
    """C03.4: the value of the hasher's pad switch on every feasible path of assemble.  The switch starts as the 'pad' entry of
    the keyword dictionary built in the constructor (or the hasher's default, on) and may be overwritten before the
    traversal; it is evaluated with the branch decisions of the path (flags cached in attributes are replaced by their
    definition)."""
    cls = ctx.prog.cls(cq)
    asm = cls.methods["assemble"]
    g = C.cfg_of(asm)
    paths, complete = g.paths(goals={g.exit})
    if not complete:
        ctx.undecided("C03.4", asm, "too many paths through assemble")
        return
    # initial value of the switch
    init_pad = None
    init = cls.methods.get("__init__")
    if init is not None:
        for x in own_nodes(init.node):
            if isinstance(x, ast.Assign) and any(norm(t) == "self.kws" for t in x.targets) and isinstance(x.value, ast.Dict):
                for k, v in zip(x.value.keys, x.value.values):
                    if k is not None and const_str(k) == "pad":
                        init_pad = v
    n = 0
    for path in paths:
        decisions = {}
        hybrid_flags = []
        bad = False
        stored = {}
        pad_expr = init_pad
        pad_stmt = None
        trav = None
        order = []
        for node, lab in path:
            if node.kind == "test" and lab in ("true", "false"):
                t = C.test_expr(node)
                neg = isinstance(t, ast.UnaryOp) and isinstance(t.op, ast.Not)
                core = t.operand if neg else t
                txt = _canon(ctx, cls, core)
                val = (lab == "true") != neg
                if txt in decisions and decisions[txt] != val:
                    bad = True
                    break
                decisions[txt] = val
                if "hybrid" in norm(core):
                    hybrid_flags.append(val)
            a = node.ast
            if node.kind == "stmt" and isinstance(a, ast.Assign) and isinstance(a.targets[0], ast.Subscript):
                k = const_str(a.targets[0].slice)
                base = norm(a.targets[0].value)
                from .c06 import _is_info_base
                if _is_info_base(ctx, None, a.targets[0].value, asm) and k:
                    stored[k] = a
                if k == "pad" and "kws" in base and trav is None:
                    pad_expr, pad_stmt = a.value, a
            if node.kind == "stmt" and a is not None and any(isinstance(x, ast.Call) and norm(x.func) == "self._traverse" for x in ast.walk(a)) and trav is None:
                trav = len(order)
            order.append(node)
        if bad:
            continue
        hyb = hybrid_flags
        if hyb and not all(hyb):
            continue        # v2-only path of the assembler: no v1 pieces
        n += 1
        cond = ", ".join("%s=%s" % kv for kv in sorted(decisions.items())) or "unconditional"
        label = "%s.assemble path [%s]" % (cls.name, cond)

        def atom(x):
            return decisions.get(_canon(ctx, cls, x))
        pad = True if pad_expr is None else C.eval3(pad_expr, atom)       # hasher default: padding on
        if "files" in stored:
            if pad is False:
                ctx.violated("C03.4", asm, "path [%s] lists padding entries (info['files']) but switches zero-extension off: files no longer start on piece boundaries of the hashed stream" % cond, label)
            elif pad is None:
                ctx.undecided("C03.4", asm, "path [%s]: multi-file payload; the value of the pad switch (`%s`) is not decided by the path" % (cond, norm(pad_expr)), label)
            else:
                ctx.holds("C03.4", asm, "path [%s]: multi-file payload, padding hashed and listed" % cond, label)
        elif "length" in stored:
            if pad is False:
                ctx.holds("C03.4", asm, "path [%s]: single file, only 'length' recorded and zero-extension switched off before hashing" % cond, label)
            elif pad is None:
                ctx.undecided("C03.4", asm, "path [%s]: single file; the value of the pad switch (`%s`) is not decided by the path" % (cond, norm(pad_expr)), label)
            else:
                ctx.violated("C03.4", asm, "path [%s]: a single-file hybrid records only info['length'] but its last v1 piece is still hashed with zero padding that is described nowhere: a v1 client cannot verify it" % cond, label)
            lv = stored["length"].value
            ok_len = isinstance(lv, ast.Call) and C.is_ext_call(ctx, lv, asm, ("os.path.getsize",)) and norm(lv.args[0]) == "self.path"
            ctx.decide("C03.4", asm, ok_len, "single file: info['length'] = getsize(content path)", "single file: info['length'] is %s" % norm(lv), label + " :: length")
        else:
            ctx.violated("C03.4", asm, "path [%s] stores neither info['files'] nor info['length']" % cond, label)
    ctx.floor("feasible hybrid paths of %s.assemble" % cls.name, 2, n)


def entry_order(ctx, cname, fact):
    """The v1 entries are appended in the order the traversal visits files; the tree's leaf order is its key order as
    written.  Entered once on the root, the recursive traversal visits files in level-by-level sorted order, which is also
    what any later (deep) key sort of the tree produces.  Driven file by file from a flat listing sorted by full path, the
    two orders agree only as long as nothing re-sorts the tree level by level: 'season.nfo' sorts before 'season/ep1' as
    a path but after 'season' as a key."""
    label = cname + "._traverse :: entry.call"
    if fact is None or fact.value == HF.UND:
        ctx.undecided("C03.1", None, "%s: how the traversal is entered could not be extracted" % cname, label)
        return
    if fact.value == CF.SPEC_TRAVERSE["entry.call"]:
        ctx.holds("C03.1", fact.fn, "%s: traversal %s" % (cname, fact.value), label)
        return
    if fact.value == CF.FLAT_ENTRY:
        from .postassembly import deep_resorts
        ev = deep_resorts(ctx, ("info", "file tree"))
        if ev:
            f, node = ev[0]
            ctx.violated("C03.1", fact.fn, "%s: the traversal is %s, so info.files and the pieces follow full-path order, while `%s` (%s) re-sorts the file tree level by level: "
                         "the two orders differ as soon as a directory has a sibling whose name continues it with a character below '/' (season/ next to season.nfo)" % (
                             cname, fact.value, norm(node)[:70], f.qual.split(":")[-1]), label)
        else:
            ctx.undecided("C03.1", fact.fn, "%s: the traversal is %s; whether the tree keeps that order until it is written is not decided" % (cname, fact.value), label)
        return
    ctx.undecided("C03.1", fact.fn, "%s: the traversal is driven in a way the extractor does not understand: %s" % (cname, fact.value.lstrip("?")), label)


def fresh_keywords(ctx, cq):
    """The keyword dictionary that carries the pad switch belongs to the instance (a fresh literal), it is not shared."""
    cls = ctx.prog.cls(cq)
    init = cls.methods.get("__init__")
    st = [n for n in own_nodes(init.node) if isinstance(n, ast.Assign) and len(n.targets) == 1 and norm(n.targets[0]) == "self.kws"]
    if not st:
        ctx.undecided("C03.4", init, "assignment of self.kws not found")
        return
    for a in st:
        kind = _dict_provenance(ctx, init, a.value, 0)
        if kind == "fresh":
            ctx.holds("C03.4", init, "%s: the hasher keywords (carrying the pad switch) are a dictionary created for this instance" % cls.name, a)
        elif kind == "shared":
            ctx.violated("C03.4", init, "%s: self.kws is bound to %s, an object shared between instances: the pad switch a single-file torrent turns off stays off for a later multi-file hybrid in the same process" % (cls.name, norm(a.value)), a)
        else:
            ctx.undecided("C03.4", init, "%s: self.kws is bound to %s; whether that is a dictionary of this instance alone could not be established" % (cls.name, norm(a.value)), a)


def _dict_provenance(ctx, fn, e, depth):
    """'fresh' (created where it is evaluated: a display, dict(...), a copy, or a package function all of whose results are),
    'shared' (a class-level or module-level container, directly or returned by a package function), else None."""
    if depth > 3:
        return None
    if isinstance(e, (ast.Dict, ast.DictComp)) or (isinstance(e, ast.Call) and norm(e.func) in ("dict", "collections.OrderedDict", "OrderedDict")) or \
            (isinstance(e, ast.Call) and isinstance(e.func, ast.Attribute) and e.func.attr == "copy") or (isinstance(e, ast.Call) and norm(e.func) in ("copy.copy", "copy.deepcopy")):
        return "fresh"
    if isinstance(e, ast.Attribute) and isinstance(e.value, ast.Name) and fn.cls is not None and e.value.id in (fn.self_name, fn.cls.name, "cls"):
        for c in [fn.cls] + [b for b in ctx.prog.mro(fn.cls) if b is not fn.cls]:
            if e.attr in c.class_assigns:
                return "shared" if any(isinstance(v, (ast.Dict, ast.DictComp, ast.Call)) for v in c.class_assigns[e.attr]) else None
        return None
    if isinstance(e, ast.Name):
        bl = ctx.res.bindings(fn).get(e.id, [])
        vals = [p_ for w_, p_ in bl if w_ == "value"]
        if bl and len(vals) == len(bl):
            kinds = {_dict_provenance(ctx, fn, v, depth + 1) for v in vals}
            return kinds.pop() if len(kinds) == 1 else None
        if not bl and e.id in fn.module.assigns:
            return "shared" if any(isinstance(v, (ast.Dict, ast.DictComp, ast.Call)) for v in fn.module.assigns[e.id]) else None
        return None
    if isinstance(e, ast.Call):
        tg = C.targets_of(ctx, fn, e)
        if tg and all(not t.is_generator for t in tg):
            kinds = set()
            for t in tg:
                rets = [r.value for r in own_nodes(t.node) if isinstance(r, ast.Return) and r.value is not None]
                if not rets:
                    return None
                for r in rets:
                    kinds.add(_dict_provenance(ctx, t, r, depth + 1))
            return kinds.pop() if len(kinds) == 1 else None
    return None


def run(ctx):
    ctx.trust("SHA-1 equality of the stream is NOT decided; hashlib")
    for cq in ("torrentfile.torrent:TorrentFileHybrid", "torrentfile.torrent:TorrentAssembler"):
        F, fn, fb, sv, hv = CF.traverse_facts(ctx, cq)
        EF = CF.hybrid_entry_facts(ctx, cq, fn, fb, sv, hv)
        cname = cq.split(":")[1]
        HF.judge_facts(ctx, "C03.1", cname + "._traverse", EF, {k: CF.SPEC_HYBRID_ENTRIES[k] for k in ("entry", "entry.once", "v1.pieces")}, why="the hybrid layout")
        HF.judge_facts(ctx, "C03.2", cname + "._traverse", EF, {"padding.entry": CF.SPEC_HYBRID_ENTRIES["padding.entry"]}, why="the hybrid layout")
        HF.judge_facts(ctx, "C03.1", cname + "._traverse", F, {"dir.order": CF.SPEC_TRAVERSE["dir.order"], "leaf": CF.SPEC_TRAVERSE["leaf"]}, why="the hybrid layout")
        # the per-file hasher and its options (the padding switch): one construction, the creator's own options for every file
        hf_ = F.get("hasher")
        if hf_ is None or hf_.value == HF.UND or str(hf_.value).startswith("?"):
            ctx.undecided("C03.2", fn, "%s._traverse: how the per-file hasher is made was not understood (%s)" % (cname, getattr(hf_, "why", "") or getattr(hf_, "value", "")), cname + "._traverse :: hasher")
        else:
            ctx.holds("C03.2", fn, "%s._traverse: one per-file hasher, made with the creator's options for every file: %s" % (cname, hf_.value), cname + "._traverse :: hasher")
        entry_order(ctx, cname, F.get("entry.call"))
        padding_switch(ctx, cq)
        fresh_keywords(ctx, cq)
    for hq in ("torrentfile.hasher:HasherHybrid", "torrentfile.hasher:FileHasher"):
        cls = ctx.prog.cls(hq)
        H, _ = HF.v2_facts(ctx, cls)
        hf = HF.hybrid_facts(ctx, H)
        if hf is None:
            ctx.undecided("C03.3", None, "%s: SHA-1 accumulator not found" % cls.name, cls.name)
            continue
        HF.judge_facts(ctx, "C03.3", cls.name, hf, HF.SPEC_HYBRID, why="the hybrid v1 stream (BEP 52 upgrade path)", reduced_attrs=True)
        zg = hf.get("v1.zero.guard")
        if zg is None or zg.value == HF.UND:
            ctx.undecided("C03.3", H.piece_fn, "%s: zero-extension guard not found" % cls.name, cls.name + " :: v1.zero.guard")
        else:
            atoms = [a for a in zg.value.split(" & ") if "hybrid" not in a]
            ok = sorted(atoms) == ["gap > 0", "self.pad"]
            ctx.decide("C03.3", H.piece_fn, ok, "%s: zeros are hashed (and the padding record written) iff gap > 0 and the pad switch is on" % cls.name,
                       "%s: zero-extension happens under `%s`; must be `gap > 0 & self.pad`" % (cls.name, " & ".join(atoms)), cls.name + " :: v1.zero.guard")
        # the padding record literal is marked as padding in both
    from .postassembly import integrity
    integrity(ctx, "C03.5", {("info", "files"), ("info", "pieces"), ("info", "length")}, "v1 description (file list / piece string / length)")
    from .dynscan import dynamic_features
    dynamic_features(ctx, "C03.0")


MUTANTS = MUT_C03
QUICK_CANARIES = True
CLAIM = {
    "text": "Partial: decides the layout facts that make the v1 and v2 views of a hybrid describe one payload (one entry per leaf in traversal order with the leaf's size, padding entry "
            "directly after its file and marked, zero-extension facts of both hybrid hashers, padding hashed iff listed on every path of assemble, single file hashed alone). "
            "Equality of the SHA-1 piece string with the reference for all sizes needs the read loops, which are not decided. C03.5: after assembly nothing removes, filters, reorders or replaces info/files, info/pieces, info/length; a traversal driven from the flat sorted listing is reported when the tree is re-sorted level by level afterwards.",
    "note": "Not decided: the per-piece SHA-1 values; trailing padding after the last file (the property does not forbid it). Unrecognised shapes are undecided.",
    "technique": "role-based fact extraction (normal forms), CFG path enumeration of assemble with consistent branch decisions, control dependence of the zero-extension",
    "design_ref": "DESIGN.md section 4, C03",
}
