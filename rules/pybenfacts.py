"""Re-validation of the trusted pyben facts from the installed pyben source (AST only)."""
import ast
import glob
import os


def _find_pyben():
    cands = sorted(glob.glob("/venv/lib/python3*/site-packages/pyben"))
    for c in cands:
        if os.path.isfile(os.path.join(c, "bencode.py")):
            return c
    return None


def _func(tree, name):
    for n in tree.body:
        if isinstance(n, ast.FunctionDef) and n.name == name:
            return n
    return None


def pyben_facts(ctx, rule):
    """Obligations (rule id `rule`) for: insertion-order dictionaries, str() numbers, 'wb' dump, bool-as-int hazard.

    Returns dict of facts; a fact that cannot be re-validated is reported UNDECIDED.
    """
    facts = {"dict_insertion_order": None, "numbers_str": None, "dump_wb": None}
    root = _find_pyben()
    if root is None:
        ctx.trust("pyben source not found on disk: facts (insertion-order dict encoding, str() integers, dump opens 'wb') are assumed")
        return facts
    try:
        with open(os.path.join(root, "bencode.py"), encoding="utf-8") as fh:
            benc = ast.parse(fh.read())
        with open(os.path.join(root, "api.py"), encoding="utf-8") as fh:
            api = ast.parse(fh.read())
    except (OSError, SyntaxError) as exc:
        ctx.undecided(rule, None, "cannot parse installed pyben: %s" % exc, "pyben")
        return facts
    fd = _func(benc, "bencode_dict")
    if fd is None:
        ctx.undecided(rule, None, "pyben.bencode.bencode_dict not found: encoder changed shape", "pyben.bencode_dict")
    else:
        loops = [n for n in ast.walk(fd) if isinstance(n, ast.For)]
        sorts = [n for n in ast.walk(fd) if isinstance(n, ast.Call) and isinstance(n.func, ast.Name) and n.func.id == "sorted"]
        items = [n for n in loops if isinstance(n.iter, ast.Call) and isinstance(n.iter.func, ast.Attribute) and n.iter.func.attr == "items"]
        if items and not sorts:
            facts["dict_insertion_order"] = True
            ctx.holds(rule, None, "pyben.bencode_dict emits keys in insertion order (loop over dic.items(), no sorting): key order is the caller's obligation",
                      "pyben.bencode_dict", nontrivial=False)
        else:
            facts["dict_insertion_order"] = False
            ctx.undecided(rule, None, "pyben.bencode_dict no longer has the expected shape (insertion-order loop): the sort obligations may be moot or wrong",
                          "pyben.bencode_dict")
    fi = _func(benc, "bencode_int")
    ok = fi is not None and any(isinstance(n, ast.Call) and isinstance(n.func, ast.Name) and n.func.id == "str" for n in ast.walk(fi))
    fs_ = _func(benc, "bencode_str")
    fb = _func(benc, "bencode_bytes")
    ok2 = all(f is not None and any(isinstance(n, ast.Call) and isinstance(n.func, ast.Name) and n.func.id == "str"
                                    and n.args and isinstance(n.args[0], ast.Call) and isinstance(n.args[0].func, ast.Name) and n.args[0].func.id == "len"
                                    for n in ast.walk(f)) for f in (fs_, fb))
    if ok and ok2:
        facts["numbers_str"] = True
        ctx.holds(rule, None, "pyben prints integers and string lengths with str(): no redundant digits", "pyben.bencode_int/str/bytes", nontrivial=False)
    else:
        ctx.undecided(rule, None, "pyben integer / length encoding no longer recognisable", "pyben.bencode_int/str/bytes")
    du = _func(api, "dump")
    opens = [n for n in ast.walk(du) if isinstance(n, ast.Call) and isinstance(n.func, ast.Name) and n.func.id == "open"] if du else []
    if du is not None and opens and all(len(o.args) > 1 and isinstance(o.args[1], ast.Constant) and o.args[1].value == "wb" for o in opens):
        facts["dump_wb"] = True
        ctx.holds(rule, None, "pyben.dump encodes, then opens the target 'wb' and writes the encoding once (nothing follows the top-level dictionary)",
                  "pyben.dump", nontrivial=False)
    else:
        ctx.undecided(rule, None, "pyben.dump no longer has the expected shape", "pyben.dump")
    return facts
