"""C02 - v2 file tree, pieces roots and piece layers follow BEP 52 (fact tables)."""
from . import common as C
from . import hashfacts as HF
from . import creatorfacts as CF
from .hash_mutants import MUT_C02

PROP = "C02"
EXPLANATION = (
    "Partial. Not decided: that the read loops deliver the right blocks for every file size (the end-of-file flag and "
    "iteration behaviour are run-time). Decided, as normal forms extracted from the source by role (which list receives "
    "sha256(...).digest(), which list receives merkle_root(...) of it, which statement extends them) and compared with the "
    "BEP 52 table: C02.4 for each of HasherV2, HasherHybrid and FileHasher - block = 16 KiB; leaf = sha256(buf[:n]) with n the "
    "result of that very readinto; blocks per piece = piece_length // 16384; a zero read leaves the loop unhashed; a short "
    "piece is padded with zero *hashes* (bytes(32)) iff it has fewer blocks, to blocks-per-piece, or to "
    "next_power_2(#blocks) when it is the only piece (piecewise linear form built from reaching definitions, helper "
    "inlined); layer hash = merkle_root(blocks); piece layer = concatenation of the layer hashes taken before root padding; "
    "root padding iff more than one layer hash, next_power_2(n) - n copies of merkle_root of an all-zero piece; root = "
    "merkle_root(layer hashes); merkle_root reduces consecutive pairs with sha256(left + right) while more than one "
    "remains; next_power_2 is the least power of two >= its argument (structural). C02.1-3 for each creator's _traverse: "
    "the tree mirrors the sorted directory listing without filter, leaf length = getsize of that very path, empty files "
    "return a length-only leaf before any hashing, and the piece-layers entry is keyed by the root, holds the layer and is "
    "stored iff size > piece length (strict). C02.5 after assembly nothing in the package removes, filters or replaces "
    "info/'file tree' or 'piece layers' (points-to over the metafile dictionary; an order-only, possibly deep, sorted copy is accepted).")
RULE_TEXT = "one obligation per fact of each hasher / creator / helper; non-trivial = normal form obtained through reaching definitions, helper inlining or CFG dominance"


def run(ctx):
    ctx.trust("hashlib.sha256; BEP 52 table in DESIGN appendix D.1; the read loops' run-time behaviour is NOT decided")
    n = 0
    for cq in ("torrentfile.hasher:HasherV2", "torrentfile.hasher:HasherHybrid", "torrentfile.hasher:FileHasher"):
        cls = ctx.prog.cls(cq)
        H, F = HF.v2_facts(ctx, cls)
        n += HF.judge_facts(ctx, "C02.4", cls.name, F, HF.SPEC_V2, HF.ACCEPT, HF.normalise_fact, "BEP 52", reduced_attrs=True)
    n += HF.judge_facts(ctx, "C02.4", "merkle_root", HF.merkle_facts(ctx), HF.SPEC_MERKLE, why="BEP 52")
    mf = HF.merkle_facts(ctx)
    HF.judge_facts(ctx, "C02.4", "next_power_2", {"next_power_2": mf["next_power_2"]},
                   {"next_power_2": "least power of two >= value (start 1, double while < value)"},
                   {"next_power_2": {"least power of two >= value (start 1, double while <= value, exact powers returned early)"}})
    ctx.floor("hasher facts compared with BEP 52", 40, n)
    m = 0
    for cq, (hname, hy) in CF.CREATORS_V2.items():
        F, fn, fb, sv, hv = CF.traverse_facts(ctx, cq)
        cname = cq.split(":")[1]
        if F.get("entry.call") is not None and F["entry.call"].value == CF.FLAT_ENTRY:
            # a per-file construction of the tree is not wrong by BEP 52; the directory facts below do not describe it
            F["entry.call"] = HF.Fact("?" + CF.FLAT_ENTRY, F["entry.call"].node, F["entry.call"].fn)
        spec = dict(CF.SPEC_TRAVERSE)
        spec["hasher"] = "%s(path, self.piece_length)" % hname
        spec["layer.value"] = "hasher.piece_layer"
        rid = {"single.key": "C02.1", "entry.call": "C02.1", "size": "C02.1", "dir.order": "C02.1", "dir.loop": "C02.1", "dir.return": "C02.1", "leaf": "C02.1", "hasher": "C02.1",
               "empty.leaf": "C02.2", "empty.length": "C02.2", "layer.member": "C02.3", "layer.key": "C02.3", "layer.value": "C02.3"}
        for k in spec:
            m += HF.judge_facts(ctx, rid[k], cname + "._traverse", F, {k: spec[k]}, CF.ACCEPT_TRAVERSE, why="BEP 52")
    ctx.floor("creator traversal facts", 30, m)
    from .postassembly import integrity
    integrity(ctx, "C02.5", {("info", "file tree"), ("piece layers",)}, "v2 description (file tree / piece layers)")


MUTANTS = MUT_C02
QUICK_CANARIES = True
CLAIM = {
    "text": "Partial: every BEP 52 fact that is visible in the shape of the code (block size, leaf hash input, padding counts and elements, guards and their strictness, order of piece-layer "
            "extraction and root padding, pairwise reduction, tree mirroring, empty-file rule, piece-layer membership) is extracted as a normal form from each of the three hashers and three "
            "creators and compared with the specification table. Equality of the computed roots with the specification for every file size additionally needs the read loops to deliver the "
            "right blocks, which is not decided. C02.5 (points-to over the metafile dictionary): after assembly nothing drops, filters or replaces info/'file tree' or 'piece layers' (order-only copies and in-place re-keying accepted); the traversal is entered once on the content root; the single-file tree key is the recorded name; merkle_root does not modify a list its caller reads again.",
    "note": "Not decided: loop/end-flag behaviour of the readers for all sizes. A shape the extractor does not recognise is reported as undecided (exit 2), never as a violation.",
    "technique": "role-based fact extraction into piecewise integer-linear normal forms (reaching definitions, helper inlining), CFG dominance for ordering facts, comparison with the BEP 52 table",
    "design_ref": "DESIGN.md section 4, C02; section 3.8; appendix D.1",
}
