"""C14 - rebuild only adds verified copies; it never damages sources or existing files."""
import ast

from tfsa.flow import Flow, walk_terms, show, merged_positions
from tfsa.loader import own_nodes, AnalysisError
from tfsa.report import norm
from tfsa.resolve import const_str
from . import common as C

PROP = "C14"
EXPLANATION = (
    "C14.1 who-may-write: the file-system-mutating primitives reachable from commands.rebuild / Assembler / Metadata / "
    "PieceNode are enumerated (effect summaries); only directory creation and shutil.copy* are allowed (nothing deletes, "
    "renames, truncates or opens for writing) and no written path derives from the search directories or the metafile "
    "paths (origin terms), so sources and metafiles are never altered. C14.2 no clobber: the function that performs the "
    "copy is traced for every combination of (source exists, destination exists, size ordering <,=,>); the copy may be "
    "reached only when the source exists and the destination is missing or shorter. C14.3 verified source: at each call "
    "of the copy function (or of a helper that hands its source parameter on to it) the source is a search-index candidate bound by the enclosing "
    "candidate loop - or returned by a selector function, or parked in a mapping whose key tells the entries apart - and, within one iteration of "
    "that loop, the copy is out of reach (a) when the candidate's size differs from the recorded length and (b) when a recorded hash differs from "
    "the hash computed over bytes read from that same candidate (or the recorded length is zero). C14.4: the destination is the containment-checked "
    "join of the destination argument with the path the metafile assigns; every node of the v1 piece map covers at least one byte. C14.5: the relative "
    "destination, evaluated as a component sequence from the reader's record literals, is the path the metafile assigns.")
RULE_TEXT = "one obligation per reachable primitive and written argument (C14.1), per decision-table row (C14.2), per copy call site and clause (C14.3/.4)"

ENTRY_FUNCS = ["torrentfile.commands:rebuild"]
ENTRY_CLASSES = ["torrentfile.rebuild:Assembler", "torrentfile.rebuild:Metadata", "torrentfile.rebuild:PieceNode", "torrentfile.rebuild:PathNode"]
ALLOWED = {"os.mkdir", "os.makedirs", "shutil.copy", "shutil.copy2", "shutil.copyfile", "Path.mkdir"}
COPY = {"shutil.copy", "shutil.copy2", "shutil.copyfile"}
SOURCE_PARAMS = {"contents", "metafiles"}
STOPS = ["torrentfile.rebuild:Assembler.__init__", "torrentfile.commands:rebuild"]


def copy_functions(ctx, effs):
    """{Func: (source param, dest param, copy call)} for package functions wrapping a copy primitive."""
    out = {}
    for e, chain, prec in effs:
        if e.prim in COPY and prec:
            call = e.site
            if len(call.args) >= 2 and isinstance(call.args[0], ast.Name) and isinstance(call.args[1], ast.Name) \
                    and call.args[0].id in e.fn.params and call.args[1].id in e.fn.params:
                out[e.fn] = (call.args[0].id, call.args[1].id, call)
    return out


READ_ONLY_PRIMS = {"pyben.load", "pyben.loads", "builtins.open", "io.open", "os.path.getsize", "os.path.exists", "os.path.isfile",
                   "os.path.isdir", "os.stat", "hashlib.sha1", "hashlib.sha256"}


def path_leaves(terms):
    """Terms reachable without descending into the arguments of read-only primitives (a file's content is not its path)."""
    out = []
    stack = list(terms)
    seen = set()
    while stack:
        t = stack.pop()
        if not isinstance(t, tuple) or id(t) in seen:
            continue
        seen.add(id(t))
        out.append(t)
        if t[0] == "ext" and t[1] in READ_ONLY_PRIMS:
            continue
        for part in t[1:]:
            stack.extend(_parts(part))
    return out


def _parts(part):
    if isinstance(part, frozenset):
        return list(part)
    if isinstance(part, tuple):
        out = []
        for p in part:
            if isinstance(p, (frozenset, tuple)):
                out.extend(_parts(p))
        return out
    return []


def is_src_leaf(x):
    return (x[0] == "param" and x[2] in SOURCE_PARAMS) or (x[0] == "attr" and x[2] in ("contents", "metafiles"))


def who_may_write(ctx, flow, effs):
    n = 0
    for e, chain, prec in effs:
        where = C.chain_text(chain, e.fn)
        n += 1
        if e.kind == "fs-write?" or not prec:
            ctx.undecided("C14.1", e.fn, "rebuild may reach a primitive that cannot be classified: %s" % norm(e.site), e.site, path=where)
            continue
        if e.prim not in ALLOWED:
            ctx.violated("C14.1", e.fn, "rebuild reaches %s: only directory creation and copying are allowed (nothing may delete, rename, truncate or open for writing)" % e.prim,
                         e.site, path=where)
            continue
        for a in e.args:
            if a is None:
                continue
            t = flow.term(a, e.fn)
            pl = path_leaves(t)
            src = sorted({x[2] for x in pl if x[0] == "param" and x[2] in SOURCE_PARAMS}
                         | {"namespace." + x[2] for x in pl if x[0] == "attr" and x[2] in ("contents", "metafiles")})
            dst = any((x[0] == "param" and x[2] in ("dest", "destination")) or (x[0] == "attr" and x[2] == "destination") for x in walk_terms(t))
            cut = any(x[0] == "unknown" and x[1] in ("depth", "wide") for x in walk_terms(t))
            if src and dst and merged_positions(t, lambda x: (x[0] == "param" and x[2] in SOURCE_PARAMS) or (x[0] == "attr" and x[2] in ("contents", "metafiles"))):
                # records that hold a source next to a destination component travel through a container whose positions the
                # origin terms merge: the written path reaches the destination argument, the source may be the other field
                ctx.undecided("C14.1", e.fn, "%s: the written path is selected from records that also carry %s; the origin terms do not keep the fields apart" % (e.prim, ", ".join(src)),
                              norm(e.site) + " :: " + norm(a), path=where)
            elif src and dst and any(x[0] == "kelem" and len(x) > 2 and isinstance(x[1], frozenset) and isinstance(x[2], frozenset)
                                     and any(y[0] == "ext" and y[1] == "pyben.load" for y in walk_terms(x[1])) and any(is_src_leaf(y) for y in walk_terms(x[2])) for x in walk_terms(t)):
                # both the destination argument and a search directory reach the written path, the latter through a mapping from
                # paths the metafile assigns to the sources selected for them: keys and values are not kept apart by the origin terms
                ctx.undecided("C14.1", e.fn, "%s: the written path is reached by the destination argument and by %s; the origin terms do not say which component comes from where" % (e.prim, ", ".join(src)),
                              norm(e.site) + " :: " + norm(a), path=where)
            elif src:
                ctx.violated("C14.1", e.fn, "%s writes to a path derived from %s: the search directories / metafiles must only be read" % (e.prim, ", ".join(src)),
                             norm(e.site) + " :: " + norm(a), path=where)
            elif not dst and cut:
                ctx.undecided("C14.1", e.fn, "origin of the path written by %s too deep to follow" % e.prim, norm(e.site) + " :: " + norm(a), path=where)
            elif not dst:
                ctx.violated("C14.1", e.fn, "%s writes to a path that does not derive from the destination argument" % e.prim, norm(e.site) + " :: " + norm(a), path=where)
            else:
                ctx.holds("C14.1", e.fn, "%s writes below the destination argument only" % e.prim, norm(e.site) + " :: " + norm(a), path=where)
    ctx.floor("FS-mutating sites reachable from rebuild", 2, n)


def no_clobber(ctx, copyfns):
    for fn, (src, dst, call) in copyfns.items():
        g = C.cfg_of(fn)
        rows = 0
        for s_exists in (True, False):
            for d_exists in (True, False):
                for order in ("<", "=", ">"):     # size(source) ? size(dest)
                    if not d_exists and order != "<":
                        continue
                    reached = []

                    def visit(n):
                        a = n.ast
                        if n.kind == "stmt" and isinstance(a, ast.AST):
                            for c in ast.walk(a):
                                if c is call:
                                    reached.append(c)

                    def size_of(x):
                        if isinstance(x, ast.Call) and C.is_ext_call(ctx, x, fn, ("os.path.getsize",)) and x.args and isinstance(x.args[0], ast.Name):
                            if x.args[0].id == src:
                                return {"<": 1, "=": 2, ">": 3}[order]
                            if x.args[0].id == dst:
                                return 2
                        return None

                    def atom(x):
                        if isinstance(x, ast.Call) and C.is_ext_call(ctx, x, fn, ("os.path.exists", "os.path.isfile", "os.path.lexists")) and x.args:
                            a0 = x.args[0]
                            if isinstance(a0, ast.Name) and a0.id == src:
                                return s_exists
                            if isinstance(a0, ast.Name) and a0.id == dst:
                                return d_exists
                            return False          # other paths (parent directories): assume missing
                        if isinstance(x, ast.Compare) and len(x.ops) == 1:
                            l, r = size_of(x.left), size_of(x.comparators[0])
                            if l is not None and r is not None:
                                op = x.ops[0]
                                return {ast.Lt: l < r, ast.LtE: l <= r, ast.Gt: l > r, ast.GtE: l >= r, ast.Eq: l == r, ast.NotEq: l != r}.get(type(op))
                            # the destination has parent directories: len(<its parts>) is taken as a large number
                            def num(y):
                                if isinstance(y, ast.Call) and isinstance(y.func, ast.Name) and y.func.id == "len":
                                    return 1000
                                if isinstance(y, ast.Constant) and isinstance(y.value, int) and not isinstance(y.value, bool):
                                    return y.value
                                return None
                            l, r = num(x.left), num(x.comparators[0])
                            if l is not None and r is not None and 1000 in (l, r) and l != r:
                                return {ast.Lt: l < r, ast.LtE: l <= r, ast.Gt: l > r, ast.GtE: l >= r, ast.Eq: l == r, ast.NotEq: l != r}.get(type(x.ops[0]))
                        return None
                    label = "source %s, destination %s%s" % ("exists" if s_exists else "missing", "exists" if d_exists else "missing",
                                                              (", size(source) %s size(destination)" % order) if d_exists else "")
                    rows += 1
                    try:
                        C.trace(g, g.entry, atom, visit=visit, iter_decide=lambda n: False)
                    except C.Undetermined as exc:
                        ctx.undecided("C14.2", fn, "row [%s]: %s" % (label, exc), "copy row: " + label)
                        continue
                    want = s_exists and (not d_exists or order == ">")
                    got = bool(reached)
                    if got == want:
                        ctx.holds("C14.2", fn, "row [%s]: copy %s" % (label, "performed" if got else "skipped"), "copy row: " + label)
                    elif got and not want:
                        ctx.violated("C14.2", fn, "row [%s]: the copy is performed although the destination already has at least the source's (= recorded) length: an existing complete file is overwritten" % label
                                     if s_exists else "row [%s]: the copy is attempted although the source is missing" % label, "copy row: " + label)
                    else:
                        ctx.violated("C14.2", fn, "row [%s]: the copy is skipped although the destination is missing or shorter" % label, "copy row: " + label)
        ctx.floor("no-clobber decision rows of %s" % fn.qualname, 8, rows)


def candidate_loop(ctx, fn, node, name):
    """Innermost enclosing for-loop that binds `name`; returns (For node, index in target tuple, sibling names)."""
    n = node
    while n is not None and n is not fn.node:
        n = ctx.prog.parent.get(n)
        if isinstance(n, ast.For):
            t = n.target
            if isinstance(t, ast.Name) and t.id == name:
                return n, None, []
            if isinstance(t, (ast.Tuple, ast.List)):
                names = [x.id if isinstance(x, ast.Name) else None for x in t.elts]
                if name in names:
                    return n, names.index(name), [x for x in names if x and x != name]
    return None, None, []


def copy_wrappers(ctx, copyfns, reach):
    """Package functions that hand one of their own parameters on, unchanged, as the source of a copy function (a helper
    such as _place(source, dest, relpath)): {Func: (source param, None, call)}; closed transitively."""
    out = dict(copyfns)
    changed = True
    while changed:
        changed = False
        for cf, (src_p, dst_p, _) in list(out.items()):
            for caller, call, bound in ctx.res.callsites_of(cf):
                if caller is None or caller in out:
                    continue
                a = bound.get(src_p)
                if isinstance(a, ast.Name) and a.id in [p_ for p_ in caller.params if p_ != caller.self_name]:
                    # not re-bound inside the wrapper
                    if not any(isinstance(n, (ast.Assign, ast.AugAssign)) and any(isinstance(t, ast.Name) and t.id == a.id for t in (n.targets if isinstance(n, ast.Assign) else [n.target]))
                               for n in own_nodes(caller.node)):
                        out[caller] = (a.id, None, call)
                        changed = True
    return out


def always_copying(ctx, copyfns):
    """copyfns plus the package functions that cannot return normally without having called one of them (helpers such as
    _place, which resolve the destination and copy)."""
    out = set(copyfns)
    changed = True
    while changed:
        changed = False
        for cf in list(out):
            for caller, call, bound in ctx.res.callsites_of(cf):
                if caller is None or caller in out:
                    continue
                g = C.cfg_of(caller)
                cs = [C.stmt_node(ctx, caller, c) for c in own_nodes(caller.node) if isinstance(c, ast.Call) and any(t in out for t in C.targets_of(ctx, caller, c))]
                cs = [c for c in cs if c is not None]
                if g.exit in g.live_nodes() and any(g.dominates(c, g.exit) for c in cs):
                    out.add(caller)
                    changed = True
                    continue
                # a function that copies once for every element of a list it is given (`for record in selected: copy(...)`)
                for lp in [n for n in own_nodes(caller.node) if isinstance(n, ast.For) and isinstance(n.iter, ast.Name) and n.iter.id in caller.params]:
                    head = g.of.get(lp)
                    bs = C.succ_by_label(head, "iter") if head is not None else []
                    inner = {c for c in cs if lp in _ancestors_of(ctx, c.ast, caller)}
                    if bs and inner and g.must_pass(bs[0], head, inner) and g.dominates(head, g.exit):
                        out.add(caller)
                        changed = True
                        break
    return out


def _ancestors_of(ctx, node, fn):
    out = []
    p = ctx.prog.parent.get(node)
    while p is not None and p is not fn.node:
        out.append(p)
        p = ctx.prog.parent.get(p)
    return out


def verified_source(ctx, flow, copyfns, reach):
    sites = 0
    allfns = copy_wrappers(ctx, copyfns, reach)
    for cf, (src_p, dst_p, _) in allfns.items():
        for caller, call, bound in ctx.res.callsites_of(cf):
            if caller is None or caller not in reach:
                continue
            if caller in allfns and isinstance(bound.get(src_p), ast.Name) and bound.get(src_p).id == allfns[caller][0]:
                continue            # the wrapper's own call: judged at the wrapper's call sites
            sites += 1
            s = bound.get(src_p)
            d = bound.get(dst_p) if dst_p else None
            if isinstance(s, (ast.Attribute, ast.Subscript)) and isinstance(s.value, ast.Name):
                # a field of a candidate record (candidate.path / candidate[0]): the record is the candidate variable
                s = s.value
            if not isinstance(s, ast.Name):
                base_ = s
                while isinstance(base_, (ast.Attribute, ast.Subscript)):
                    base_ = base_.value
                if isinstance(base_, ast.Name) and (base_.id == caller.self_name or base_.id in caller.params):
                    # read out of the state of an object / a parameter: where the candidate was put there, and whether it had been
                    # verified, is decided elsewhere
                    ctx.undecided("C14.3", caller, "the copy source `%s` is read from object state or a parameter; where the candidate was selected was not followed" % norm(s), call)
                else:
                    ctx.violated("C14.3", caller, "the copy source %s is not a candidate variable of a search loop" % norm(s), call)
                continue
            loop, idx, sibs = candidate_loop(ctx, caller, call, s.id)
            made = _record_sites(ctx, flow, caller, loop, idx) if loop is not None and idx is not None else None
            if made is not None:
                # the loop walks records (tuples / namedtuples holding the chosen source) that another function put together:
                # the selection is judged where the records are made
                if not made:
                    ctx.undecided("C14.3", caller, "the copy source %r is taken from records assembled elsewhere; where they are made could not be located" % s.id, call)
                for f2, st2, cand2 in made:
                    judge_selection(ctx, flow, f2, st2, cand2, "%s -> %s" % (norm(call)[:40], norm(st2)[:40]))
            elif loop is not None:
                judge_selection(ctx, flow, caller, call, s.id, norm(call))
            else:
                # source = select(...): the candidate is chosen by a package function; judge each place where it returns one
                vals = [p_ for w_, p_ in ctx.res.bindings(caller).get(s.id, []) if w_ == "value"]
                # source = None; for cand in <index>: if <verified>: source = cand; break   ...   copy(source)
                picks = [v for v in vals if isinstance(v, ast.Name)]
                blanks = [v for v in vals if isinstance(v, ast.Constant) and v.value is None]
                if picks and len(picks) + len(blanks) == len(vals) == len(ctx.res.bindings(caller).get(s.id, [])):
                    chosen = []
                    for v in picks:
                        st_pick = ctx.prog.enclosing_stmt(v)
                        lp, _, _ = candidate_loop(ctx, caller, st_pick, v.id)
                        if lp is not None:
                            chosen.append((st_pick, v.id))
                    if len(chosen) == len(picks):
                        g_ = C.cfg_of(caller)
                        cn_ = C.stmt_node(ctx, caller, call)
                        def when_none(x, name=s.id):
                            """Value of a test atom when nothing was selected (the variable still holds None)."""
                            if isinstance(x, ast.Name) and x.id == name:
                                return False
                            if isinstance(x, ast.Compare) and len(x.ops) == 1 and norm(x.left) == name and isinstance(x.comparators[0], ast.Constant) and x.comparators[0].value is None:
                                if isinstance(x.ops[0], (ast.Is, ast.Eq)):
                                    return True
                                if isinstance(x.ops[0], (ast.IsNot, ast.NotEq)):
                                    return False
                            return None
                        skipped = (not blanks) or any(C.branch_when(b, when_none) not in (None, lab) for b, lab in g_.control_deps(cn_) if C.test_expr(b) is not None)
                        if not skipped:
                            ctx.undecided("C14.3", caller, "the copy of %r is not visibly skipped when no candidate was selected" % s.id, call)
                        for st_pick, cand in chosen:
                            judge_selection(ctx, flow, caller, st_pick, cand, "%s -> %s" % (norm(call)[:40], norm(st_pick)[:40]))
                        continue
                sel = [t for v in vals if isinstance(v, ast.Call) for t in C.targets_of(ctx, caller, v)] if len(vals) == 1 else []
                rets = [(f_, r) for f_ in sel for r in own_nodes(f_.node) if isinstance(r, ast.Return) and r.value is not None and not (isinstance(r.value, ast.Constant) and r.value.value is None)]
                parked = _parked_candidates(ctx, flow, caller, vals[0]) if len(vals) == 1 and not sel else None
                if parked is not None:
                    stores, attr = parked
                    if not stores:
                        ctx.violated("C14.3", caller, "the copy source %r is read from %s, which nothing fills with a verified candidate" % (s.id, attr), call)
                        continue
                    for f2, st2, key2, cand2 in stores:
                        judge_selection(ctx, flow, f2, st2, cand2, "%s -> %s" % (norm(call)[:40], norm(st2)[:40]))
                        # the mapping must tell the entries of the metafile apart: the search index is keyed by base name,
                        # which two entries may share
                        lp, _, _ = candidate_loop(ctx, f2, st2, cand2)
                        idx_keys = {norm(x.slice) for x in ast.walk(lp.iter) if isinstance(x, ast.Subscript)} | \
                                   {norm(x.args[0]) for x in ast.walk(lp.iter) if isinstance(x, ast.Call) and isinstance(x.func, ast.Attribute) and x.func.attr == "get" and x.args} if lp is not None else set()
                        if norm(key2) in idx_keys:
                            ctx.violated("C14.3", f2, "the verified candidate is parked in %s under `%s`, the very key of the search index (a file's base name): two entries of the metafile "
                                         "with the same base name share the slot, and one of them is copied from the other's source" % (attr, norm(key2)), st2)
                        elif any(x[0] in ("attr", "selfattr") and x[-1] == "full" for x in walk_terms(flow.term(key2, f2))) or "full" in norm(key2):
                            ctx.holds("C14.3", f2, "the verified candidate is parked in %s under the entry's full path" % attr, st2)
                        else:
                            ctx.undecided("C14.3", f2, "the verified candidate is parked in %s under `%s`; whether that key tells all entries of the metafile apart is not decided" % (attr, norm(key2)), st2)
                    continue
                if not sel or not rets:
                    st = flow.term(s, caller)
                    if any((x[0] == "param" and x[2] in ("contents", "filemap")) or (x[0] == "ext" and x[1] in ("os.listdir", "os.walk", "os.scandir")) or (x[0] == "attr" and x[2] == "contents")
                           for x in walk_terms(st)) and not isinstance(vals[0] if vals else None, ast.Name):
                        ctx.undecided("C14.3", caller, "the copy source %r comes from the search index, but not through a candidate loop or a selector function this rule can read (`%s`)" % (
                            s.id, norm(vals[0])[:60] if vals else "?"), call)
                    elif s.id in caller.params:
                        # the source (or the record that holds it) is handed in by the callers of this function: where it was
                        # selected is not in this function
                        ctx.undecided("C14.3", caller, "the copy source is (a field of) the parameter %r of %s; which candidate its callers hand in, and whether it was verified, was not followed" % (s.id, caller.qualname), call)
                    else:
                        ctx.violated("C14.3", caller, "the copy source %r is not drawn from the search index: no enclosing candidate loop binds it" % s.id, call)
                    continue
                # the copy must not run when the selector found nothing
                g = C.cfg_of(caller)
                cn = C.stmt_node(ctx, caller, call)
                guarded_none = any(isinstance(C.test_expr(b), ast.Compare) and norm(C.test_expr(b).left) == s.id and isinstance(C.test_expr(b).comparators[0], ast.Constant)
                                   and C.test_expr(b).comparators[0].value is None for b, lab in g.control_deps(cn) if C.test_expr(b) is not None) or \
                    any(isinstance(C.test_expr(b), ast.Name) and C.test_expr(b).id == s.id for b, lab in g.control_deps(cn) if C.test_expr(b) is not None)
                if not guarded_none and any(isinstance(r.value, ast.Constant) for f_ in sel for r in own_nodes(f_.node) if isinstance(r, ast.Return) and r.value is not None):
                    ctx.undecided("C14.3", caller, "the copy of %r is not visibly skipped when the selector returns None" % s.id, call)
                for f_, r in rets:
                    if isinstance(r.value, ast.Name):
                        judge_selection(ctx, flow, f_, r, r.value.id, "%s -> %s" % (norm(call)[:40], norm(r)))
                    else:
                        ctx.undecided("C14.3", f_, "selector %s returns `%s`, not a candidate variable" % (f_.name, norm(r.value)), r)
            # ---- C14.4 destination (when the copy function takes it directly)
            if d is not None:
                dt = flow.term(d, caller)
                from_meta = any(x[0] == "ext" and x[1] == "pyben.load" for x in walk_terms(dt))
                from_dest = any((x[0] == "param" and x[2] in ("dest", "destination")) or (x[0] == "attr" and x[2] == "destination") for x in walk_terms(dt))
                ctx.decide("C14.4", caller, from_meta and from_dest, "the destination is the destination argument joined with the path the metafile assigns",
                           "the copy destination is not (destination argument + metafile-assigned path): %s" % show(dt, maxdepth=2)[:100], norm(call) + " :: destination")
    ctx.floor("call sites of the copy function in rebuild", 2, sites)


def _record_sites(ctx, flow, fn, loop, idx):
    """`for a, b in records` where records is not the search index but a list of tuple displays / namedtuples put together by
    `x.append((.., cand, ..))` elsewhere in the rebuild module: [(function, append statement, candidate name)], [] when they
    cannot be located; None when the loop does not walk such records."""
    it = loop.iter
    if not isinstance(it, ast.Name):
        return None
    t = flow.term(it, fn)
    if not flow._tuple_elements(t, idx):
        return None
    # the loop walks the search index itself when the iterated name is indexed / .get() out of it
    out = []
    for f2 in ctx.prog.functions.values():
        if f2.module.name != "torrentfile.rebuild":
            continue
        for n in own_nodes(f2.node):
            if isinstance(n, ast.Call) and isinstance(n.func, ast.Attribute) and n.func.attr == "append" and len(n.args) == 1:
                a = n.args[0]
                elts = a.elts if isinstance(a, ast.Tuple) else (flow.as_tuple(a, f2) if isinstance(a, ast.Call) else None)
                if elts and len(elts) > idx and isinstance(elts[idx], ast.Name):
                    # only appends whose list can reach the loop: the loop's term mentions this construction
                    lp, _, _ = candidate_loop(ctx, f2, n, elts[idx].id)
                    if lp is not None:
                        out.append((f2, ctx.prog.enclosing_stmt(n), elts[idx].id))
    return out


def _parked_candidates(ctx, flow, fn, value):
    """value is `<obj>.<attr>[key]`: ([(function, store statement, key expr, stored candidate name)], attr text) for the
    stores `<something>.<attr>[k] = name` of the rebuild module; None if value has another shape."""
    if not (isinstance(value, ast.Subscript) and isinstance(value.value, ast.Attribute) and not isinstance(value.slice, ast.Slice)):
        return None
    attr = value.value.attr
    out = []
    for f2 in ctx.prog.functions.values():
        if f2.module.name != "torrentfile.rebuild":
            continue
        for n in own_nodes(f2.node):
            if isinstance(n, ast.Assign) and len(n.targets) == 1 and isinstance(n.targets[0], ast.Subscript) and isinstance(n.targets[0].value, ast.Attribute) \
                    and n.targets[0].value.attr == attr and isinstance(n.value, ast.Name):
                out.append((f2, n, n.targets[0].slice, n.value.id))
    return out, "." + attr


def judge_selection(ctx, flow, caller, node, cand, label):
    """The statement `node` of `caller` (a copy, or a `return cand` of a selector) uses candidate variable `cand`: it must be a
    candidate of a loop over the search index, and reaching the statement must require the size and the hash of that very
    candidate to match what the metafile records."""
    g = C.cfg_of(caller)
    cn = C.stmt_node(ctx, caller, node)
    loop, idx, sibs = candidate_loop(ctx, caller, node, cand)
    it_term = flow.term(loop.iter, caller) if loop is not None else frozenset()
    # the mapping / list that is iterated (for `index[key]` the index, not the key the metafile supplies)
    bases = frozenset().union(*[x[1] if x[0] in ("sub", "elem") and isinstance(x[1], frozenset) else frozenset([x]) for x in it_term]) if it_term else frozenset()
    bases = frozenset().union(*[x[2] if x[0] == "meth" and x[1] in ("get", "items", "values") and isinstance(x[2], frozenset) else frozenset([x]) for x in bases]) if bases else bases
    from_index = any((x[0] == "param" and x[2] in ("contents",)) or (x[0] == "ext" and x[1] in ("os.listdir", "os.walk", "os.scandir")) or (x[0] == "attr" and x[2] == "contents")
                     for x in walk_terms(bases))
    if loop is not None and not from_index and any(x[0] in ("rec", "unknown") or (x[0] in ("dict", "list") and not x[1]) for x in walk_terms(bases)):
        # a container that starts empty and is filled where the origin terms do not follow (handed to a function that adds
        # to it, built by a recursion): what it holds is not known, so neither verdict is possible
        ctx.undecided("C14.3", caller, "the loop that binds the copy source %r iterates over %s, a container filled where the origin terms do not follow; "
                      "whether it is the search index was not decided" % (cand, show(it_term, maxdepth=2)[:80]), node)
        return
    if loop is None or not from_index:
        ctx.violated("C14.3", caller, "the copy source %r is not drawn from the search index: %s" % (
            cand, "no enclosing candidate loop binds it" if loop is None else "the loop iterates over " + show(it_term, maxdepth=2)[:80]), node)
        return
    ctx.holds("C14.3", caller, "copy source %r is a candidate of `for %s in %s` over the search index" % (cand, norm(loop.target), norm(loop.iter)), label + " :: source")
    deps = g.control_deps(cn)
    head = g.of[loop]
    starts = C.succ_by_label(head, "iter")
    region = set()
    for st in starts:
        region |= g.reachable(st, avoiding={head})

    def blocked(world):
        """Within one iteration of the candidate loop, the statement cannot be reached when the atoms evaluate per `world`."""
        return not any(cn in C.reach_under(g, st, world, stop=[head]) for st in starts)

    # ---- (a) size check
    def size_atom(x, depth=0):
        if isinstance(x, ast.Call) and isinstance(x.func, ast.Name) and len(x.args) == 1 and not x.keywords and depth < 2:
            # fits = lambda size: size == recorded;  if fits(candidate_size): ...
            bl_ = ctx.res.bindings(caller).get(x.func.id, [])
            if len(bl_) == 1 and bl_[0][0] == "value" and isinstance(bl_[0][1], ast.Lambda) and len(bl_[0][1].args.args) == 1 and isinstance(x.args[0], ast.Name):
                import copy as _copy
                lam = bl_[0][1]
                body = _copy.deepcopy(lam.body)
                for n_ in ast.walk(body):
                    if isinstance(n_, ast.Name) and n_.id == lam.args.args[0].arg:
                        n_.id = x.args[0].id
                return size_atom(body, depth + 1)
        if isinstance(x, ast.Compare) and len(x.ops) == 1 and isinstance(x.ops[0], (ast.Eq, ast.NotEq)):
            sides = [x.left, x.comparators[0]]
            for a, o in (sides, sides[::-1]):
                rec_field = isinstance(a, (ast.Attribute, ast.Subscript)) and isinstance(a.value, ast.Name) and a.value.id == cand
                if (isinstance(a, ast.Name) and a.id in sibs) or rec_field:
                    ot = flow.term(o, caller)
                    if any(y[0] == "ext" and y[1] == "pyben.load" for y in walk_terms(ot)):
                        return isinstance(x.ops[0], ast.Eq)
        return None
    # when the sizes differ (every size comparison fails), the copy must be out of reach
    size_ok = blocked(lambda x: (not size_atom(x)) if size_atom(x) is not None else None)
    it_expr = loop.iter
    if isinstance(it_expr, ast.Name):
        bl_ = ctx.res.bindings(caller).get(it_expr.id, [])
        if len(bl_) == 1 and bl_[0][0] == "value":
            it_expr = bl_[0][1]          # candidates = sized(...); for c in candidates
    if not size_ok and isinstance(it_expr, (ast.ListComp, ast.GeneratorExp)) and len(it_expr.generators) == 1:
        # candidates = [loc for loc, size in index[name] if size == recorded]: the sizes were compared where the list was made
        gen_ = it_expr.generators[0]
        gnames = {x.id for x in ast.walk(gen_.target) if isinstance(x, ast.Name)}
        for cond in gen_.ifs:
            if isinstance(cond, ast.Compare) and len(cond.ops) == 1 and isinstance(cond.ops[0], ast.Eq):
                sides = [cond.left, cond.comparators[0]]
                for a_, o_ in (sides, sides[::-1]):
                    if isinstance(a_, ast.Name) and a_.id in gnames and not any(isinstance(x, ast.Name) and x.id in gnames for x in ast.walk(o_)) \
                            and any(y[0] == "ext" and y[1] == "pyben.load" for y in walk_terms(flow.term(o_, caller))):
                        size_ok = True
    via = [t for c_ in ast.walk(it_expr) if isinstance(c_, ast.Call) for t in C.targets_of(ctx, caller, c_)]
    if not size_ok and via:
        # the candidates are handed out by a package function (a generator that may already have compared the sizes)
        ctx.undecided("C14.3", caller, "the candidates of this loop come from %s; whether only candidates of the recorded size are handed out is decided there and was not followed" % via[0].qualname, label + " :: size")
    else:
        ctx.decide("C14.3", caller, size_ok, "the copy requires the candidate's size to equal the recorded length",
                   "the copy is not conditional on the candidate's size equalling the length the metafile records", label + " :: size")
    # ---- (b) hash check over the same candidate, or the recorded length being zero
    hash_ok = False
    why = "no controlling test compares a recorded hash with a hash computed over this candidate"
    for b, lab in deps:
        t = C.test_expr(b)
        # `if not size: return path` - an empty file needs no hash
        if t is not None and lab == "true" and isinstance(t, ast.UnaryOp) and isinstance(t.op, ast.Not) and isinstance(t.operand, ast.Name) and t.operand.id in sibs and size_ok:
            hash_ok = True
    for b in sorted((n_ for n_ in region if n_.kind == "test"), key=lambda n_: n_.id):
        t = C.test_expr(b)
        if t is None:
            continue
        for a in C.atoms_of(t):
            res = hash_equality(flow.term(a, caller))
            if not res:
                continue
            # when the hashes differ the atom is False (an equality) / True (an inequality): the copy must then be out of reach
            if not blocked(lambda x, a=a, res=res: (res == "ne") if x is a else C.nonempty_atom(caller, x)):
                if any(b is d for d, _ in deps):
                    why = "the controlling test %s does not depend on the hash comparison alone (it can pass when the hashes differ)" % norm(t)
                continue
            if local_chain_uses(ctx, caller, a, cand, loop):
                hash_ok = True
            else:
                why = "the hash that is compared is not computed from the candidate %r that gets copied" % cand
    if not hash_ok and why.startswith("no controlling test"):
        # a controlling test whose operand comes out of a recursive / helper call that does not reduce to a comparison the
        # origin terms show (a search that returns a list or None ...): the verification may sit there
        for b in (n_ for n_ in region if n_.kind == "test"):
            t = C.test_expr(b)
            if t is None or blocked(lambda x, t=t: None) is True:
                continue
            for a in C.atoms_of(t):
                # the operand: a local bound once to the result of a search function of this module (possibly the recursion)
                opnd = a.left if isinstance(a, ast.Compare) and len(a.ops) == 1 and isinstance(a.ops[0], (ast.Is, ast.IsNot)) else a
                if not isinstance(opnd, ast.Name):
                    continue
                bl = ctx.res.bindings(caller).get(opnd.id, [])
                if not (len(bl) == 1 and bl[0][0] == "value" and isinstance(bl[0][1], ast.Call)
                        and any(t_.module.name == "torrentfile.rebuild" for t_ in C.targets_of(ctx, caller, bl[0][1]))):
                    continue
                rets = [r_ for t_ in C.targets_of(ctx, caller, bl[0][1]) for r_ in ctx.res.return_exprs(t_)]
                if all(isinstance(r_, (ast.Compare, ast.Constant, ast.Name, ast.BoolOp)) for r_ in rets) and isinstance(a, ast.Name):
                    continue        # a boolean verdict: the origin terms show what it compares
                if (blocked(lambda x, a=a: True if x is a else None) or blocked(lambda x, a=a: False if x is a else None)):
                    ctx.undecided("C14.3", caller, "the copy depends on `%s`, the result of a search that the origin terms do not reduce to a hash comparison: whether the candidate was verified is decided inside that call" % norm(a)[:60], label + " :: hash")
                    return
    if not hash_ok and why.startswith("no controlling test") and any(t_.is_generator for t_ in via):
        # the candidates are handed out by a package generator, which may hand out verified ones only
        ctx.undecided("C14.3", caller, "the candidates of this loop come from the generator %s; whether it hands out verified candidates only is decided there and was not followed" % via[0].qualname, label + " :: hash")
        return
    ctx.decide("C14.3", caller, hash_ok, "the copy is conditional on a recorded hash equalling the hash of bytes read from this very candidate (or the recorded length being zero)",
               "unverified copy: " + why, label + " :: hash")


def hash_equality(vt):
    """The value term contains (possibly through a boolean summary) an equality between a recorded and a computed hash."""
    for x in walk_terms(vt):
        if x[0] == "op" and x[1] in ("cmp:Eq", "cmp:NotEq") and len(x[2]) == 2:
            for a, b in ((x[2][0], x[2][1]), (x[2][1], x[2][0])):
                computed = any((y[0] == "ext" and y[1].startswith("hashlib.")) or (y[0] == "inst" and "Hasher" in y[1]) for y in walk_terms(a))
                recorded = any(y[0] == "ext" and y[1] == "pyben.load" for y in walk_terms(b))
                if computed and recorded:
                    return "eq" if x[1] == "cmp:Eq" else "ne"
    return None


def piece_nodes_cover_bytes(ctx):
    """C14.4: every node the v1 piece map attaches to a piece covers at least one byte of its file (or reads to its end).

    The v1 verifier hashes the concatenation of the nodes' byte ranges and, on a match, copies the candidate of *every*
    node.  A node with an empty range [s, s) of a non-empty file adds nothing to the hash: the piece verifies from the other
    files alone and whichever same-named, same-sized candidate comes first is copied without a single byte of it having
    been compared."""
    from tfsa.reach import ReachDefs
    fn = ctx.prog.functions.get("torrentfile.rebuild:Metadata._map_pieces")
    if fn is None:
        ctx.undecided("C14.4", None, "anchor vanished: Metadata._map_pieces")
        return
    g = C.cfg_of(fn)
    rd = ReachDefs(fn, g)
    sites = [n for n in own_nodes(fn.node) if isinstance(n, ast.Call) and any(k[0] == "class" and k[1].name == "PathNode" for k in ctx.res.kinds(n.func, fn))]
    n_sites = 0
    for call in sites:
        kw = {k.arg: k.value for k in call.keywords if k.arg}
        st, sp = kw.get("start"), kw.get("stop")
        if st is None or sp is None:
            ctx.undecided("C14.4", fn, "piece node constructed without explicit start/stop", call)
            continue
        n_sites += 1
        cn = C.stmt_node(ctx, fn, call)
        if isinstance(sp, ast.UnaryOp) and isinstance(sp.op, ast.USub) and isinstance(sp.operand, ast.Constant) and sp.operand.value == 1:
            ctx.holds("C14.4", fn, "the piece node reads its file to the end (stop = -1)", call)
            continue
        if not isinstance(sp, ast.Name):
            ctx.undecided("C14.4", fn, "stop of the piece node is not a plain local (%s)" % norm(sp), call)
            continue
        verdicts = []
        for d in rd.reaching(sp.id, cn):
            v = d.value if d.kind == "assign" else None
            if v is None:
                verdicts.append((None, "stop defined by %s" % d.kind, d))
                continue
            if isinstance(v, ast.UnaryOp) and isinstance(v.op, ast.USub) and isinstance(v.operand, ast.Constant) and v.operand.value == 1:
                verdicts.append((True, "reads to the end of the file", d))
                continue
            # stop = <amount>   or   stop = start + <amount>   with <amount> a local that must be positive here
            amount = None
            if isinstance(v, ast.Name):
                sdefs = rd.reaching(norm(st), d.node) if isinstance(st, ast.Name) else []
                zero_start = isinstance(st, ast.Constant) and st.value == 0 or (sdefs and all(x.kind == "assign" and isinstance(x.value, ast.Constant) and x.value.value == 0 for x in sdefs))
                if zero_start:
                    amount = v.id
            elif isinstance(v, ast.BinOp) and isinstance(v.op, ast.Add) and isinstance(st, ast.Name):
                names = [x.id for x in (v.left, v.right) if isinstance(x, ast.Name)]
                if len(names) == 2 and st.id in names:
                    amount = [x for x in names if x != st.id][0]
            if amount is None:
                verdicts.append((None, "stop = %s is not of the form start + amount" % norm(v), d))
                continue
            verdicts.append(_positive_at(ctx, fn, g, rd, amount, d) + (d,))
        bad = [v for v in verdicts if v[0] is False]
        unk = [v for v in verdicts if v[0] is None]
        if bad:
            ctx.violated("C14.4", fn, "a piece node can cover no bytes of its file (%s): the piece then verifies without that file being read, and its first same-sized candidate is copied unverified" % bad[0][1], call)
        elif unk or not verdicts:
            ctx.undecided("C14.4", fn, "cannot show that the piece node covers at least one byte (%s)" % (unk[0][1] if unk else "no definition of stop reaches"), call)
        else:
            ctx.holds("C14.4", fn, "the piece node covers at least one byte of its file or reads to its end (%s)" % "; ".join(sorted({v[1] for v in verdicts})), call)
    ctx.floor("piece-node construction sites in the v1 piece map", 1, n_sites)


def _implied(test, lab, atom):
    """Does taking edge `lab` of the test imply that atom(...) is True for one of its conjuncts?"""
    if lab == "true":
        if isinstance(test, ast.BoolOp) and isinstance(test.op, ast.And):
            return any(_implied(v, "true", atom) for v in test.values)
        if isinstance(test, ast.UnaryOp) and isinstance(test.op, ast.Not):
            return _implied(test.operand, "false", atom)
        return atom(test) is True
    if lab == "false":
        if isinstance(test, ast.BoolOp) and isinstance(test.op, ast.Or):
            return any(_implied(v, "false", atom) for v in test.values)
        if isinstance(test, ast.UnaryOp) and isinstance(test.op, ast.Not):
            return _implied(test.operand, "true", atom)
        return atom(test) is False
    return False


def _positive_at(ctx, fn, g, rd, name, d):
    """(True/False/None, why): is local `name` > 0 where definition d executes?"""
    here = rd.reaching(name, d.node)
    # (a) a dominating test `name > 0` (true edge) with the same definitions reaching
    for b, lab in g.control_deps(d.node):
        t = C.test_expr(b)
        if t is None:
            continue

        def atom(x):
            if isinstance(x, ast.Compare) and len(x.ops) == 1 and isinstance(x.left, ast.Name) and x.left.id == name and isinstance(x.comparators[0], ast.Constant) and x.comparators[0].value == 0:
                if isinstance(x.ops[0], ast.Gt):
                    return True
                if isinstance(x.ops[0], ast.LtE):
                    return False
            if isinstance(x, ast.Name) and x.id == name:
                return True
            return None
        if _implied(t, lab, atom) and set(rd.reaching(name, b)) == set(here):
            return True, "%s > 0 is tested on the way" % name
    # (b) every reaching definition is the (positive) piece length
    if here and all(x.kind == "assign" and isinstance(x.value, ast.Attribute) and x.value.attr == "piece_length" for x in here):
        return True, "%s is the piece length" % name
    # (c) some reaching definition is certainly zero
    for x in here:
        if x.kind == "assign" and isinstance(x.value, ast.Constant) and x.value.value == 0:
            return False, "`%s` can still be 0 (set by `%s`) when stop = %s is taken" % (name, norm(x.stmt), name)
        if x.kind == "aug" and isinstance(x.stmt, ast.AugAssign) and isinstance(x.stmt.op, ast.Sub) and norm(x.stmt.value) == name:
            return False, "`%s` can be 0 (after `%s`) when stop = %s is taken" % (name, norm(x.stmt), name)
    return None, "sign of %s not established" % name


def local_chain_uses(ctx, fn, expr, cand, loop):
    """Inside the candidate loop, the value of expr is computed (through local definitions) by a call that receives the
    candidate variable itself."""
    seen = set()
    work = [expr]
    inside = set(ast.walk(loop))
    while work:
        e = work.pop()
        for n in ast.walk(e):
            if isinstance(n, ast.Call):
                if any((isinstance(a, ast.Name) and a.id == cand) or (isinstance(a, (ast.Attribute, ast.Subscript)) and isinstance(a.value, ast.Name) and a.value.id == cand)
                       for a in list(n.args) + [k.value for k in n.keywords]):
                    return True
            if isinstance(n, ast.Name) and isinstance(n.ctx, ast.Load) and n.id not in seen and n.id != cand:
                seen.add(n.id)
                for what, payload in ctx.res.bindings(fn).get(n.id, []):
                    if what == "value" and payload in inside:
                        work.append(payload)
                # x += f(candidate) also makes x depend on the candidate
                for a in inside:
                    if isinstance(a, ast.AugAssign) and isinstance(a.target, ast.Name) and a.target.id == n.id:
                        work.append(a.value)
                    # x.update(f(candidate)) / x.extend(...) : a statement that feeds the object bound to x
                    if isinstance(a, ast.Expr) and isinstance(a.value, ast.Call) and isinstance(a.value.func, ast.Attribute) \
                            and isinstance(a.value.func.value, ast.Name) and a.value.func.value.id == n.id and a.value.func.attr in ("update", "extend", "append", "write"):
                        work.extend(a.value.args)
    return False


def run(ctx):
    ctx.trust("effect table; shutil.copy(src, dst) writes dst only; os.mkdir creates one directory")
    entries = C.funcs(ctx, ENTRY_FUNCS) + C.class_methods(ctx, ENTRY_CLASSES)
    stops = C.funcs(ctx, STOPS)
    flow = Flow(ctx.prog, ctx.res, stop_funcs=stops)
    effs, precise, full = C.reach_effects(ctx, entries, ("fs-write", "fs-write?"))
    who_may_write(ctx, flow, effs)
    copyfns = copy_functions(ctx, effs)
    if not copyfns:
        ctx.undecided("C14.2", None, "no function wrapping a copy primitive found in the rebuild call graph")
        return
    no_clobber(ctx, copyfns)
    verified_source(ctx, flow, copyfns, full)
    piece_nodes_cover_bytes(ctx)
    from .destpaths import destinations
    sites = []
    for cf, (src_p, dst_p, _) in copyfns.items():
        for caller, call, bound in ctx.res.callsites_of(cf):
            if caller is not None and caller in full and bound.get(dst_p) is not None and caller.module.name == "torrentfile.rebuild":
                sites.append((caller, call, bound.get(dst_p)))
    destinations(ctx, "C14.5", sites)
    from .dynscan import dynamic_features
    dynamic_features(ctx, "C14.0")


MUTANTS = [
    {"name": "map-pieces-guard-dropped", "file": "torrentfile/rebuild.py", "expect": "violated", "rule": "C14.4", "canary": True, "quick": True,
     "what": "a full piece still takes the next file (zero-length node)", "edits": [("            while target > 0 and file_index < len(self.files):", "            while file_index < len(self.files):")]},
    {"name": "dest-without-name-directory", "file": "torrentfile/rebuild.py", "expect": "violated", "rule": "C14.5", "canary": True,
     "what": "v1 multi-file entries are written below <dest> without the torrent's name directory", "edits": [("                full = os.path.join(self.name, *path)", "                full = os.path.join(*path)")]},
    {"name": "dest-from-parent-and-filename-benign", "file": "torrentfile/rebuild.py", "expect": "clean",
     "what": "destination spelled join(parent, filename) instead of the full field", "edits": [("                dest_path = _contained(self.dest, pathnode.full)", "                dest_path = _contained(self.dest, os.path.join(pathnode.path, pathnode.filename))")]},
    {"name": "single-file-test-without-name", "file": "torrentfile/rebuild.py", "expect": "violated", "rule": "C14.5", "canary": True,
     "what": "single-file layout chosen for any tree with one file entry", "edits": [("            if list(tree) == [self.name] and \"\" in tree[self.name]:", "            if len(tree) == 1 and \"\" in list(tree.values())[0]:")]},
    {"name": "G8-regress-copy-metafile-dir", "file": "torrentfile/rebuild.py", "expect": "violated", "rule": "C14.3", "canary": True, "quick": True,
     "what": "pinned-tree defect G8: copypath(entry['path'], ...)", "edits": [("                        copypath(path, dest_path)", "                        copypath(entry[\"path\"], dest_path)")]},
    {"name": "v2-copy-without-hash", "file": "torrentfile/rebuild.py", "expect": "violated", "rule": "C14.3", "canary": True, "quick": True,
     "what": "v2 copies on name+size only", "edits": [("                        matched = entry[\"root\"] == hasher.root", "                        matched = hasher.root is not None")]},
    {"name": "v1-copy-without-hash", "file": "torrentfile/rebuild.py", "expect": "violated", "rule": "C14.3", "canary": True,
     "what": "v1 copies every same-sized candidate", "edits": [("            if val:\n                dest_path", "            if val or True:\n                dest_path")]},
    {"name": "v1-size-check-dropped", "file": "torrentfile/rebuild.py", "expect": "violated", "rule": "C14.3", "canary": True,
     "what": "v1 size check removed", "edits": [("            if size != len(pathnode):\n                continue\n", "")]},
    {"name": "v2-hash-of-other-candidate", "file": "torrentfile/rebuild.py", "expect": "violated", "rule": "C14.3", "canary": True,
     "what": "hash computed over the first candidate, later ones copied", "edits": [("                        hasher = HasherV2(path, self.piece_length, True)", "                        hasher = HasherV2(paths[0][0], self.piece_length, True)")]},
    {"name": "clobber-equal-size", "file": "torrentfile/utils.py", "expect": "violated", "rule": "C14.2", "canary": True, "quick": True,
     "what": "same-sized destination overwritten", "edits": [("                                      <= os.path.getsize(dest)):", "                                      < os.path.getsize(dest)):")]},
    {"name": "clobber-always", "file": "torrentfile/utils.py", "expect": "violated", "rule": "C14.2", "canary": True,
     "what": "existing destination always overwritten", "edits": [("    if not os.path.exists(source) or (os.path.exists(dest)\n                                      and os.path.getsize(source)\n                                      <= os.path.getsize(dest)):\n        return", "    if not os.path.exists(source):\n        return")]},
    {"name": "move-instead-of-copy", "file": "torrentfile/utils.py", "expect": "violated", "rule": "C14.1", "canary": True,
     "what": "sources moved away", "edits": [("        shutil.copy(source, dest)", "        shutil.move(source, dest)")]},
    {"name": "remove-shorter-dest-first", "file": "torrentfile/utils.py", "expect": "violated", "rule": "C14.1", "canary": True,
     "what": "destination removed before copying", "edits": [("        shutil.copy(source, dest)", "        if os.path.exists(dest):\n            os.remove(dest)\n        shutil.copy(source, dest)")]},
    {"name": "index-cache-in-search-dir", "file": "torrentfile/rebuild.py", "expect": "violated", "rule": "C14.1", "canary": True,
     "what": "index cached inside the search directory", "edits": [("    if os.path.isdir(root):\n        for path in os.listdir(root):", "    if os.path.isdir(root):\n        os.makedirs(os.path.join(root, '.index'), exist_ok=True)\n        for path in os.listdir(root):")]},
    {"name": "dest-ignores-metafile-path", "file": "torrentfile/rebuild.py", "expect": "violated", "rule": "C14", "canary": True,
     "what": "files flattened into the destination root", "edits": [('                        dest_path = _contained(dest, entry["full"])', '                        dest_path = _contained(dest, os.path.basename(path))')]},
    {"name": "benign-copy2", "file": "torrentfile/utils.py", "expect": "clean",
     "what": "copy2 instead of copy", "edits": [("        shutil.copy(source, dest)", "        shutil.copy2(source, dest)")]},
    {"name": "benign-guard-rewritten", "file": "torrentfile/utils.py", "expect": "clean",
     "what": "guard split into two ifs", "edits": [("    if not os.path.exists(source) or (os.path.exists(dest)\n                                      and os.path.getsize(source)\n                                      <= os.path.getsize(dest)):\n        return", "    if not os.path.exists(source):\n        return\n    if os.path.exists(dest) and os.path.getsize(dest) >= os.path.getsize(source):\n        return")]},
]
QUICK_CANARIES = True

CLAIM = {
    "text": "Decided (modulo the piece-to-file mapping, which cannot make a copy unverified): the only mutating primitives reachable from rebuild are directory creation and copy, their "
            "targets derive from the destination argument and never from the search directories or metafile paths; the copy function's no-clobber table is evaluated for all 10 satisfiable "
            "rows; every call of it copies a search-index candidate under a size-equality guard and a hash equality computed over that same candidate, to the containment-checked path "
            "the metafile assigns. Byte-identity of the copy is shutil.copy's. C14.4: every node of the v1 piece map covers at least one byte of its file or reads to its end. C14.5: destination paths are evaluated symbolically as component sequences from the reader's record literals to each copy site and compared with the path the metafile assigns; the single-file layout must be chosen by comparing the tree's key with the torrent name.",
    "note": "Trusted: effect table, shutil.copy semantics, hashlib. 'Verified' means at least one piece (v1) or the merkle root (v2) of the candidate verified, as the property states. "
            "Explicit data flow; the boolean summary of _find_matches is followed through origin terms.",
    "technique": "effect summaries (who-may-write), CFG trace of the no-clobber decision table, control dependence + origin terms for the verified-source clause",
    "design_ref": "DESIGN.md section 4, C14",
}
