"""Mutants shared by C01 / C02 / C03 / C10 / C15 (edits of hasher.py, torrent.py, utils.py on a scratch copy)."""

HS = "torrentfile/hasher.py"
TR = "torrentfile/torrent.py"
UT = "torrentfile/utils.py"


def m(name, file, rule, what, edits, canary=True, quick=False, expect="violated"):
    return {"name": name, "file": file, "expect": expect, "rule": rule, "canary": canary and expect == "violated", "quick": quick, "what": what, "edits": edits}


_V2_PAD = """                remaining = self.num_blocks - len(blocks)
                if not self.layer_hashes:"""
_FH_PAD = """        remaining = self.amount - block_count
        if not self.layer_hashes:
            power2 = next_power_2(block_count)
            remaining = power2 - block_count
        return [bytes(HASH_SIZE) for _ in range(remaining)]

    def __next__(self) -> bytes:"""
_ALIGN_NEW = "                remainder = -filesize % self.piece_length\n"
_ALIGN_OLD = "                if filesize < self.piece_length:\n                    remainder = self.piece_length - filesize\n                else:\n                    remainder = filesize % self.piece_length\n"

ITEMS = [
    # ---------------- v2 hashers (C02.4, C10.2)
    ("v2-first-piece-rule-dropped", HS, {"C02": "C02.4", "C10": "C10.2"}, "HasherV2 pads a single short piece to blocks-per-piece",
     [("                if not self.layer_hashes:\n                    # when the there is only one block for file\n                    power2 = next_power_2(len(blocks))\n                    remaining = power2 - len(blocks)\n", "")], {"quick": True}),
    ("filehasher-pad-off-by-one", HS, {"C02": "C02.4", "C10": "C10.2"}, "FileHasher pads one hash too many", [("        remaining = self.amount - block_count\n        if not self.layer_hashes:\n            power2 = next_power_2(block_count)\n            remaining = power2 - block_count\n        return [bytes(HASH_SIZE) for _ in range(remaining)]\n\n    def __next__", "        remaining = self.amount - block_count + 1\n        if not self.layer_hashes:\n            power2 = next_power_2(block_count)\n            remaining = power2 - block_count\n        return [bytes(HASH_SIZE) for _ in range(remaining)]\n\n    def __next__")], {"quick": True}),
    ("hybrid-pad-swapped-subtraction", HS, {"C02": "C02.4", "C10": "C10.2"}, "HasherHybrid computes block_count - amount",
     [("        remaining = self.amount - block_count\n        if not self.layer_hashes:\n            power2 = next_power_2(block_count)\n            remaining = power2 - block_count\n        return [bytes(HASH_SIZE) for _ in range(remaining)]\n\n    def process_file", "        remaining = block_count - self.amount\n        if not self.layer_hashes:\n            power2 = next_power_2(block_count)\n            remaining = power2 - block_count\n        return [bytes(HASH_SIZE) for _ in range(remaining)]\n\n    def process_file")]),
    ("v2-pad-with-hash-of-zero-block", HS, {"C02": "C02.4", "C10": "C10.2"}, "HasherV2 pads with sha256 of a zero block instead of zero hashes",
     [("                padding = [bytes(32) for _ in range(remaining)]", "                padding = [sha256(bytes(BLOCK_SIZE)).digest() for _ in range(remaining)]")]),
    ("v2-leaf-whole-buffer", HS, {"C02": "C02.4", "C10": "C10.2"}, "HasherV2 hashes the whole 16 KiB buffer of a short read", [("                blocks.append(sha256(leaf[:size]).digest())", "                blocks.append(sha256(leaf).digest())")]),
    ("block-size-32k", HS, {"C02": "C02.4"}, "BLOCK_SIZE = 2**15", [("BLOCK_SIZE = 2**14  # 16KiB", "BLOCK_SIZE = 2**15  # 16KiB")]),
    ("root-pad-guard-ge", HS, {"C02": "C02.4", "C10": "C10.2"}, "FileHasher pads the root layer even for a single piece (>= 1)",
     [("        if len(self.layer_hashes) > 1:\n            pad_piece = merkle_root([bytes(32) for _ in range(self.amount)])\n\n            pow2 = next_power_2(len(self.layer_hashes))\n            remainder = pow2 - len(self.layer_hashes)\n\n            self.layer_hashes += [pad_piece for _ in range(remainder)]\n        self.root = merkle_root(self.layer_hashes)\n        self.current.close()", "        if len(self.layer_hashes) > 2:\n            pad_piece = merkle_root([bytes(32) for _ in range(self.amount)])\n\n            pow2 = next_power_2(len(self.layer_hashes))\n            remainder = pow2 - len(self.layer_hashes)\n\n            self.layer_hashes += [pad_piece for _ in range(remainder)]\n        self.root = merkle_root(self.layer_hashes)\n        self.current.close()")]),
    ("root-pad-zero-hash", HS, {"C02": "C02.4", "C10": "C10.2"}, "HasherV2 pads the root layer with zero hashes instead of the all-zero-piece root",
     [("                self.layer_hashes.append(merkle_root(pad_piece))", "                self.layer_hashes.append(bytes(HASH_SIZE))")]),
    ("piece-layer-after-padding", HS, {"C02": "C02.4", "C10": "C10.2"}, "HasherV2 takes the piece layer after root padding",
     [("        self.piece_layer = b\"\".join(self.layer_hashes)\n        hashes = len(self.layer_hashes)", "        hashes = len(self.layer_hashes)"), ("        self.root = merkle_root(self.layer_hashes)\n\n\nclass HasherHybrid", "        self.piece_layer = b\"\".join(self.layer_hashes)\n        self.root = merkle_root(self.layer_hashes)\n\n\nclass HasherHybrid")]),
    ("merkle-pair-order", HS, {"C02": "C02.4"}, "merkle_root hashes right + left", [("sha256(x + y).digest() for x, y in zip(*[iter(blocks)] * 2)", "sha256(y + x).digest() for x, y in zip(*[iter(blocks)] * 2)")]),
    ("merkle-sha1", HS, {"C02": "C02.4"}, "merkle_root reduces with sha1", [("sha256(x + y).digest() for x, y in zip(*[iter(blocks)] * 2)", "sha1(x + y).digest() for x, y in zip(*[iter(blocks)] * 2)")]),
    ("next-power-2-strict", UT, {"C02": "C02.4"}, "next_power_2 returns the next power strictly greater",
     [("    if not value & (value - 1) and value:\n        return value\n    start = 1\n    while start < value:", "    start = 1\n    while start <= value:")]),
    # ---------------- creators (C02.1-3, C10.3)
    ("v2-membership-non-strict", TR, {"C02": "C02.3", "C10": "C10.3"}, "TorrentFileV2 stores a layer for files of exactly one piece", [("            if size > self.piece_length:\n                self.piece_layers[fhash.root]", "            if size >= self.piece_length:\n                self.piece_layers[fhash.root]")], {"quick": True}),
    ("assembler-layer-keyed-by-name", TR, {"C02": "C02.3", "C10": "C10.3"}, "TorrentAssembler keys the piece layer by a prefix of the root", [("                self.piece_layers[hasher.root] = layers", "                self.piece_layers[hasher.root[:20]] = layers")]),
    ("v2-empty-file-hashed", TR, {"C02": "C02.2", "C10": "C10.3"}, "TorrentFileHybrid gives empty files a root", [("            if file_size == 0:\n                return {\"\": {\"length\": file_size}}\n\n            logger.debug(\"Hashing %s\", str(path))\n            file_hash = HasherHybrid", "            logger.debug(\"Hashing %s\", str(path))\n            file_hash = HasherHybrid")]),
    ("tree-skips-dotfiles", TR, {"C02": "C02.1", "C10": "C10.3"}, "TorrentAssembler skips hidden files in the tree",
     [("            for name in sorted(os.listdir(path)):\n                tree[name] = self._traverse(os.path.join(path, name))\n        return tree", "            for name in sorted(os.listdir(path)):\n                if name.startswith(\".\"):\n                    continue\n                tree[name] = self._traverse(os.path.join(path, name))\n        return tree", 2)]),
    ("leaf-length-of-root", TR, {"C02": "C02.1"}, "TorrentFileV2 leaf length taken from the content root", [("            size = os.path.getsize(path)\n\n            if size == 0:", "            size = os.path.getsize(self.path)\n\n            if size == 0:")]),
    ("assembler-wrong-kw", TR, {"C10": "C10.4"}, "TorrentAssembler passes a keyword FileHasher does not accept", [("            \"hybrid\": self.hybrid,\n        }", "            \"hybrid\": self.hybrid,\n            \"align\": False,\n        }")]),
    # ---------------- hybrid (C03, C10)
    ("G15-regress-single-file-padded", TR, {"C03": "C03.4"}, "pinned-tree defect G15: single-file hybrid hashed with padding", [("        if os.path.isfile(self.path):\n            self.kws[\"pad\"] = False\n", "        if os.path.isfile(self.path):\n", 2)], {"quick": True}),
    ("hybrid-pad-record-length", HS, {"C03": "C03.3", "C10": "C10.2"}, "FileHasher records the padding length minus one",
     [("                self.padding_file = {\n                    \"attr\": \"p\",\n                    \"length\": plength,\n                    \"path\": [\".pad\", str(plength)],\n                }\n                piece.update(bytes(plength))\n            piece = piece.digest()", "                self.padding_file = {\n                    \"attr\": \"p\",\n                    \"length\": plength - 1,\n                    \"path\": [\".pad\", str(plength)],\n                }\n                piece.update(bytes(plength))\n            piece = piece.digest()")]),
    ("hybrid-zeros-not-hashed", HS, {"C03": "C03.3", "C10": "C10.2"}, "HasherHybrid lists the padding but does not hash it",
     [("                piece.update(bytes(plength))\n            self.pieces.append(piece.digest())  # nosec", "            self.pieces.append(piece.digest())  # nosec")]),
    ("hybrid-attr-missing", HS, {"C03": "C03.3", "C10": "C10.2"}, "HasherHybrid padding record not marked as padding",
     [("                self.padding_file = {\n                    \"attr\": \"p\",\n                    \"length\": plength,\n                    \"path\": [\".pad\", str(plength)],\n                }\n                piece.update(bytes(plength))\n            self.pieces.append", "                self.padding_file = {\n                    \"attr\": \"x\",\n                    \"length\": plength,\n                    \"path\": [\".pad\", str(plength)],\n                }\n                piece.update(bytes(plength))\n            self.pieces.append")]),
    ("hybrid-gap-not-decremented", HS, {"C03": "C03.3", "C10": "C10.2"}, "FileHasher forgets plength -= size", [("            total += size\n            plength -= size\n            blocks.append(sha256(block[:size]).digest())\n            if self.hybrid:", "            total += size\n            blocks.append(sha256(block[:size]).digest())\n            if self.hybrid:")]),
    ("hybrid-entry-after-empty-return", TR, {"C03": "C03.1", "C10": "C10.3"}, "TorrentFileHybrid lists empty files in the tree only",
     [("            self.files.append({\n                \"length\":\n                file_size,\n                \"path\":\n                os.path.relpath(path, self.path).split(os.sep),\n            })\n\n            if file_size == 0:\n                return {\"\": {\"length\": file_size}}\n", "            if file_size == 0:\n                return {\"\": {\"length\": file_size}}\n\n            self.files.append({\n                \"length\":\n                file_size,\n                \"path\":\n                os.path.relpath(path, self.path).split(os.sep),\n            })\n")]),
    ("hybrid-padding-entry-first", TR, {"C03": "C03.2", "C10": "C10.3"}, "TorrentAssembler appends every padding entry unconditionally", [("            if self.hybrid and hasher.padding_file:\n                self.files.append(hasher.padding_file)", "            if self.hybrid:\n                self.files.append(hasher.padding_file)")]),
    # ---------------- v1 (C01)
    ("v1-files-reversed", TR, {"C01": "C01.1"}, "info.files built from the reversed list", [("            } for path in filelist]", "            } for path in reversed(filelist)]")], {"quick": True}),
    ("v1-files-skip-empty", TR, {"C01": "C01.1"}, "empty files left out of info.files", [("            } for path in filelist]", "            } for path in filelist if os.path.getsize(path)]")]),
    ("v1-hasher-resorted", TR, {"C01": "C01.1"}, "hasher gets a re-sorted list", [("        feeder = Hasher(filelist, self.piece_length, **kws)", "        feeder = Hasher(sorted(filelist, key=str.lower), self.piece_length, **kws)")]),
    ("v1-listing-skips-hidden", UT, {"C01": "C01.2"}, "_filelist_total skips dot files", [("        for item in path.iterdir():\n            size, paths", "        for item in path.iterdir():\n            if item.name.startswith(\".\"):\n                continue\n            size, paths")]),
    ("v1-length-from-stat-blocks", TR, {"C01": "C01.3"}, "entry length rounded up to 512", [("                \"length\":\n                os.path.getsize(path),\n                \"path\":\n                os.path.relpath(path, self.path).split(os.sep),\n            } for path in filelist]", "                \"length\":\n                -(-os.path.getsize(path) // 512) * 512,\n                \"path\":\n                os.path.relpath(path, self.path).split(os.sep),\n            } for path in filelist]")]),
    ("v1-hasher-other-piece-length", TR, {"C01": "C01.4"}, "hasher constructed with twice the piece length", [("        feeder = Hasher(filelist, self.piece_length, **kws)", "        feeder = Hasher(filelist, self.piece_length * 2, **kws)")]),
    ("v1-partial-whole-buffer", HS, {"C01": "C01.6"}, "short read handed over with the whole buffer", [("                return self._handle_partial(piece[:size])", "                return self._handle_partial(piece)")], {"quick": True}),
    ("v1-stitch-extend-whole-temp", HS, {"C01": "C01.6"}, "stitching appends the whole temp buffer", [("            arr.extend(temp[:size])", "            arr.extend(temp)")]),
    ("v1-stitch-target-off-by-one", HS, {"C01": "C01.6"}, "continuation requests one byte too few", [("            target = self.piece_length - len(arr)\n            temp = bytearray(target)\n            size = self.current.readinto(temp)", "            target = self.piece_length - len(arr) - 1\n            temp = bytearray(target)\n            size = self.current.readinto(temp)")]),
    ("v1-stitch-guard-order", HS, {"C01": "C01.6"}, "next_file() evaluated before the length test", [("        while len(arr) < self.piece_length and self.next_file():", "        while self.next_file() and len(arr) < self.piece_length:")]),
    ("v1-index-double-step", HS, {"C01": "C01.6"}, "file index advances by two", [("        self.index += 1\n        if self.progress == 1:\n            self.progbar.close_out()\n        if self.index < len(self.paths):", "        self.index += 2\n        if self.progress == 1:\n            self.progbar.close_out()\n        if self.index < len(self.paths):")]),
    ("v1-full-piece-sha256", HS, {"C01": "C01.5"}, "full pieces hashed with sha256", [("                return sha1(piece).digest()  # nosec", "                return sha256(piece).digest()  # nosec")]),
    # ---------------- align (C15)
    ("G14-regress-align-remainder", TR, {"C15": "C15.2"}, "pinned-tree defect G14: padding = S % P for S >= P, full piece for empty files", [(_ALIGN_NEW, _ALIGN_OLD)], {"quick": True}),
    ("G14-regress-single-file-align", TR, {"C15": "C15.3"}, "pinned-tree defect G14: single aligned file hashed with zero-extension", [("            info[\"length\"] = size\n            kws[\"align\"] = False\n", "            info[\"length\"] = size\n")]),
    ("align-pad-is-remainder", TR, {"C15": "C15.2"}, "padding length = S % P", [(_ALIGN_NEW, "                remainder = filesize % self.piece_length\n")]),
    ("align-pad-unmarked", TR, {"C15": "C15.1"}, "padding entries not marked", [("                        \"attr\": \"p\",\n                        \"length\": remainder,", "                        \"attr\": \"h\",\n                        \"length\": remainder,")]),
    ("align-pad-before-file", TR, {"C15": "C15.1"}, "padding entry appended to a different list position (before the file)",
     [("                info[\"files\"].append({\n                    \"length\":\n                    filesize,\n                    \"path\":\n                    os.path.relpath(path, self.path).split(os.sep),\n                })\n                remainder = -filesize % self.piece_length\n", "                remainder = -filesize % self.piece_length\n"), ("                        \"path\": [\".pad\", str(remainder)],\n                    })\n", "                        \"path\": [\".pad\", str(remainder)],\n                    })\n                info[\"files\"].append({\n                    \"length\":\n                    filesize,\n                    \"path\":\n                    os.path.relpath(path, self.path).split(os.sep),\n                })\n")]),
    ("align-hasher-extends-short", HS, {"C15": "C15.3"}, "align arm zero-extends by one byte too few", [("            target = self.piece_length - len(arr)\n            temp = bytearray(target)\n            arr.extend(temp)", "            target = self.piece_length - len(arr) - 1\n            temp = bytearray(target)\n            arr.extend(temp)")]),
    ("align-flag-not-passed", TR, {"C15": "C15.3"}, "hasher never told about alignment", [("            \"align\": self.align,\n", "            \"align\": False,\n")]),
    # ---------------- benign
    ("benign-v2-helper-extracted", HS, {"C02": "C02", "C10": "C10"}, "HasherV2 padding count moved into a helper method",
     [("                remaining = self.num_blocks - len(blocks)\n                if not self.layer_hashes:\n                    # when the there is only one block for file\n                    power2 = next_power_2(len(blocks))\n                    remaining = power2 - len(blocks)\n\n                # pad the the rest with zeroes to fill remaining space.\n                padding = [bytes(32) for _ in range(remaining)]\n                blocks.extend(padding)",
       "                blocks.extend(self._zero_pad(len(blocks)))"),
      ("    def _calculate_root(self):\n        \"\"\"\n        Calculate root hash for the target file.\n        \"\"\"", "    def _zero_pad(self, count):\n        \"\"\"Zero hashes that complete a short piece.\"\"\"\n        missing = self.num_blocks - count\n        if not self.layer_hashes:\n            missing = next_power_2(count) - count\n        return [bytes(HASH_SIZE)] * missing\n\n    def _calculate_root(self):\n        \"\"\"\n        Calculate root hash for the target file.\n        \"\"\"")], {"expect": "clean"}),
    ("benign-align-equivalent-form", TR, {"C15": "C15"}, "(P - S % P) % P", [(_ALIGN_NEW, "                remainder = (self.piece_length - filesize % self.piece_length) % self.piece_length\n")], {"expect": "clean"}),
    ("benign-rename-locals", HS, {"C02": "C02", "C10": "C10", "C03": "C03"}, "FileHasher locals renamed", [("        plength = self.piece_length\n        blocks = []\n        piece = sha1()  # nosec\n        total = 0\n        block = bytearray(BLOCK_SIZE)\n        for _ in range(self.amount):\n            size = self.current.readinto(block)\n            self.progbar.update(size)\n            if not size:\n                self.end = True\n                break\n            total += size\n            plength -= size\n            blocks.append(sha256(block[:size]).digest())\n            if self.hybrid:\n                piece.update(block[:size])", "        plength = self.piece_length\n        blocks = []\n        piece = sha1()  # nosec\n        total = 0\n        chunk = bytearray(BLOCK_SIZE)\n        for _ in range(self.amount):\n            got = self.current.readinto(chunk)\n            self.progbar.update(got)\n            if not got:\n                self.end = True\n                break\n            total += got\n            plength -= got\n            blocks.append(sha256(chunk[:got]).digest())\n            if self.hybrid:\n                piece.update(chunk[:got])")], {"expect": "clean"}),
    ("benign-v1-logging", HS, {"C01": "C01"}, "extra logging in the v1 hasher", [("            piece = bytearray(self.piece_length)\n            size = self.current.readinto(piece)", "            piece = bytearray(self.piece_length)\n            logger.debug(\"reading piece\")\n            size = self.current.readinto(piece)")], {"expect": "clean"}),
    # ---------------- post-assembly integrity, traversal entry, helper purity (rules added after the second seeding round)
    ("sortmeta-drops-trailing-pad", TR, {"C03": "C03.5"}, "sort_meta deletes a trailing padding entry from info.files",
     [("        meta = self.meta\n        meta[\"info\"] = dict(sorted(list(meta[\"info\"].items())))\n",
       "        meta = self.meta\n        files = meta[\"info\"].get(\"files\")\n        if files and files[-1].get(\"attr\") == \"p\":\n            files.pop()\n        meta[\"info\"] = dict(sorted(list(meta[\"info\"].items())))\n")]),
    ("sortmeta-filters-tree", TR, {"C02": "C02.5"}, "sort_meta rebuilds the file tree without its empty-file leaves",
     [("        meta = self.meta\n        meta[\"info\"] = dict(sorted(list(meta[\"info\"].items())))\n",
       "        meta = self.meta\n        if \"file tree\" in meta[\"info\"]:\n            meta[\"info\"][\"file tree\"] = {k: v for k, v in meta[\"info\"][\"file tree\"].items() if v.get(\"\", {}).get(\"length\", 1)}\n        meta[\"info\"] = dict(sorted(list(meta[\"info\"].items())))\n")]),
    ("sortmeta-inplace-rekey-benign", TR, {"C02": "C02.5", "C03": "C03.5"}, "piece layers re-keyed in place (pop / re-insert in sorted order)",
     [("            layers = meta[\"piece layers\"]\n            meta[\"piece layers\"] = dict(sorted(list(layers.items())))\n",
       "            layers = self.piece_layers\n            for root in sorted(layers):\n                layers[root] = layers.pop(root)\n")], {"expect": "clean"}),
    ("merkle-root-in-place", HS, {"C02": "C02.4", "C10": "C10.2"}, "merkle_root folds the caller's list in place",
     [("        while len(blocks) > 1:\n            blocks = [\n                sha256(x + y).digest() for x, y in zip(*[iter(blocks)] * 2)\n            ]\n        return blocks[0]",
       "        while len(blocks) > 1:\n            blocks[:] = [\n                sha256(x + y).digest() for x, y in zip(*[iter(blocks)] * 2)\n            ]\n        return blocks[0]")]),
    ("hasher-stops-at-piece-count", HS, {"C01": "C01.6", "C15": "C15.3"}, "v1 hasher ends after ceil(total / piece_length) pieces",
     [("        while True:\n            piece = bytearray(self.piece_length)\n            size = self.current.readinto(piece)",
       "        self._done = getattr(self, \"_done\", 0) + 1\n        if self._done > -(-self.total // self.piece_length):\n            raise StopIteration\n        while True:\n            piece = bytearray(self.piece_length)\n            size = self.current.readinto(piece)")]),
]


def _set(pref):
    out = []
    for name, file, rule, what, edits, *rest in ITEMS:
        kw = rest[0] if rest else {}
        r = rule.get(pref)
        if r is None:
            continue
        out.append(m(name, file, r, what, edits, **kw))
    return out


MUT_C01 = _set("C01")
MUT_C02 = _set("C02")
MUT_C03 = _set("C03")
MUT_C10 = _set("C10")
MUT_C15 = _set("C15")
