"""Helpers shared by the rule modules."""
import ast

from tfsa.cfg import CFG
from tfsa.loader import own_nodes, AnalysisError
from tfsa.report import norm


_cfg_cache = {}


def cfg_of(fn):
    key = id(fn.node)
    if key not in _cfg_cache:
        _cfg_cache[key] = (fn.node, CFG(fn.node))
    return _cfg_cache[key][1]


def stmt_node(ctx, fn, node):
    """CFG node of the statement that contains AST node `node` in function fn."""
    g = cfg_of(fn)
    n = node
    while n is not None:
        if n in g.of:
            return g.of[n]
        n = ctx.prog.parent.get(n)
    return None


def funcs(ctx, quals, required=True):
    out = []
    for q in quals:
        f = ctx.prog.functions.get(q)
        if f is None:
            if required:
                raise AnalysisError("anchor vanished: function %s" % q)
            continue
        out.append(f)
    return out


def class_methods(ctx, class_quals, required=True):
    out = []
    for q in class_quals:
        c = ctx.prog.classes.get(q)
        if c is None:
            if required:
                raise AnalysisError("anchor vanished: class %s" % q)
            continue
        out.extend(c.methods.values())
        for n in c.nested.values():
            out.extend(n.methods.values())
    return out


def is_dispatch_site(ctx, site):
    """The CLI dispatch call  args.func(args)."""
    n = site.node
    return isinstance(n, ast.Call) and isinstance(n.func, ast.Attribute) and n.func.attr in ctx.cg.dispatch \
        and any(t[0] == "umeth" for t in site.targets)


def reach(ctx, entries, skip_dispatch=False, allow_approx=True):
    """{Func: chain} reachable from entries; optionally not following the CLI dispatch edge."""
    cg = ctx.cg
    seen = {}
    work = []
    for e in entries:
        if e not in seen:
            seen[e] = []
            work.append(e)
    while work:
        f = work.pop(0)
        for site in cg.sites.get(f, []):
            if skip_dispatch and is_dispatch_site(ctx, site):
                continue
            for t in site.targets:
                if t[0] == "pkg" and t[1] not in seen:
                    if t[1] in site.approx and not allow_approx:
                        continue
                    seen[t[1]] = seen[f] + [(f, site)]
                    work.append(t[1])
    return seen


def reach_effects(ctx, entries, kinds, skip_dispatch=False):
    """[(Effect, chain, precise)] of the given kinds reachable from entries."""
    precise = reach(ctx, entries, skip_dispatch, allow_approx=False)
    full = reach(ctx, entries, skip_dispatch, allow_approx=True)
    out = []
    for fn, chain in full.items():
        for e in ctx.eff.direct.get(fn, []):
            if e.kind in kinds:
                if fn in precise:
                    out.append((e, precise[fn], True))
                else:
                    out.append((e, chain, False))
    return out, precise, full


def chain_text(chain, last=None):
    parts = ["%s@L%s" % (f.qual.split(":")[1], getattr(s.node, "lineno", "?")) for f, s in chain]
    if last is not None:
        parts.append(last.qual.split(":")[1])
    return " -> ".join(parts)


def module_level_entries(ctx):
    """Functions called at import time of any package module."""
    out = []
    for mod, sites in ctx.cg.module_sites.items():
        for s in sites:
            for t in s.targets:
                if t[0] == "pkg" and t[1] not in out:
                    out.append(t[1])
    return out


# ---------------------------------------------------------------------- three-valued evaluation
def eval3(expr, atom):
    """Three-valued evaluation of a boolean expression skeleton.

    atom(node) -> True / False / None for leaves (anything that is not and/or/not).
    """
    if isinstance(expr, ast.BoolOp):
        vals = [eval3(v, atom) for v in expr.values]
        if isinstance(expr.op, ast.And):
            if any(v is False for v in vals):
                return False
            if all(v is True for v in vals):
                return True
            return None
        if any(v is True for v in vals):
            return True
        if all(v is False for v in vals):
            return False
        return None
    if isinstance(expr, ast.UnaryOp) and isinstance(expr.op, ast.Not):
        v = eval3(expr.operand, atom)
        return None if v is None else (not v)
    if isinstance(expr, ast.Constant):
        return bool(expr.value)
    return atom(expr)


def atoms_of(expr):
    """Leaves of the boolean skeleton of expr."""
    if isinstance(expr, ast.BoolOp):
        out = []
        for v in expr.values:
            out.extend(atoms_of(v))
        return out
    if isinstance(expr, ast.UnaryOp) and isinstance(expr.op, ast.Not):
        return atoms_of(expr.operand)
    return [expr]


def test_expr(node):
    """Condition expression of a CFG test node."""
    a = node.ast
    if isinstance(a, (ast.If, ast.While)):
        return a.test
    return None


def sorted_listing_generator(ctx, fn, call):
    """`call` invokes a package generator that walks `sorted(os.listdir(P))` (default ordering, no filter) for a parameter P and
    yields once per entry - the name itself, or a tuple that carries the name: (argument bound to P, index of the name in the
    yielded tuple | None if the name is yielded bare).  None if the call is not of that kind."""
    if not isinstance(call, ast.Call):
        return None
    tg = targets_of(ctx, fn, call)
    if len(tg) != 1 or not tg[0].is_generator:
        return None
    G = tg[0]
    loops = [n for n in own_nodes(G.node) if isinstance(n, ast.For)]
    yields = [n for n in own_nodes(G.node) if isinstance(n, (ast.Yield, ast.YieldFrom))]
    if len(loops) != 1 or len(yields) != 1 or not isinstance(yields[0], ast.Yield) or yields[0].value is None or not isinstance(loops[0].target, ast.Name):
        return None
    l, y = loops[0], yields[0]
    it = l.iter
    if not (isinstance(it, ast.Call) and is_ext_call(ctx, it, G, ("builtins.sorted",)) and not it.keywords and len(it.args) == 1 and isinstance(it.args[0], ast.Call)
            and is_ext_call(ctx, it.args[0], G, ("os.listdir",)) and it.args[0].args and isinstance(it.args[0].args[0], ast.Name)):
        return None
    P = it.args[0].args[0].id
    # the yield is a plain statement of the loop body (no filter, nothing skipped)
    if not any(isinstance(st, ast.Expr) and st.value is y for st in l.body) or any(isinstance(x, (ast.Continue, ast.Break, ast.Return)) for st in l.body for x in ast.walk(st)):
        return None
    v = y.value
    if isinstance(v, ast.Name) and v.id == l.target.id:
        pos = None
    elif isinstance(v, ast.Tuple) and any(isinstance(e, ast.Name) and e.id == l.target.id for e in v.elts):
        pos = [i for i, e in enumerate(v.elts) if isinstance(e, ast.Name) and e.id == l.target.id][0]
    else:
        return None
    bound = ctx.res.bind_args(G, call, G.cls is not None and not G.is_static)
    if P not in bound or not isinstance(bound[P], ast.AST):
        return None
    return bound[P], pos


def branch_when(node, atom):
    """Edge label ('true'/'false') taken at test node when atoms evaluate per `atom`; None if undetermined."""
    t = test_expr(node)
    if t is None:
        return None
    v = eval3(t, atom)
    if v is None:
        return None
    return "true" if v else "false"


def succ_by_label(node, label):
    return [s for s, lab in node.succ if lab == label]


def names_assigned_between(ctx, fn, a, b, name):
    """True if some CFG path from node a to node b (excluding a) assigns local `name`."""
    g = cfg_of(fn)
    on_path = g.reachable(a) & {n for n in g.live_nodes() if b in g.reachable(n)}
    for n in on_path:
        if n is a:
            continue
        if n is b:
            continue
        if _assigns(n, name):
            return True
    return False


def _assigns(cfgnode, name):
    a = cfgnode.ast
    if a is None:
        return False
    if cfgnode.kind == "iter":
        return any(isinstance(t, ast.Name) and t.id == name for t in ast.walk(a.target))
    if cfgnode.kind == "with":
        return any(it.optional_vars is not None and any(isinstance(t, ast.Name) and t.id == name for t in ast.walk(it.optional_vars)) for it in a.items)
    if cfgnode.kind in ("test", "withexit", "handler"):
        if cfgnode.kind == "handler":
            return a.name == name
        # walrus in a test
        src = a.test if hasattr(a, "test") else None
        return src is not None and any(isinstance(x, ast.NamedExpr) and x.target.id == name for x in ast.walk(src))
    if isinstance(a, (ast.Assign, ast.AugAssign, ast.AnnAssign)):
        targets = a.targets if isinstance(a, ast.Assign) else [a.target]
        for t in targets:
            for x in ast.walk(t):
                if isinstance(x, ast.Name) and x.id == name and isinstance(x.ctx, ast.Store):
                    return True
    if isinstance(a, ast.Delete):
        return any(isinstance(t, ast.Name) and t.id == name for t in a.targets)
    for x in ast.walk(a) if isinstance(a, ast.AST) else []:
        if isinstance(x, ast.NamedExpr) and x.target.id == name:
            return True
    return False


def calls_in(node, ctx=None):
    return [n for n in ast.walk(node) if isinstance(n, ast.Call)]


def ext_name(ctx, call, fn):
    """Dotted external names the call may resolve to."""
    return [t[1] for t in ctx.res.call_targets(call, fn) if t[0] == "ext"]


def is_ext_call(ctx, node, fn, names):
    return isinstance(node, ast.Call) and any(d in names for d in ext_name(ctx, node, fn))


def same_expr(a, b):
    return norm(a) == norm(b)


def in_loop(ctx, fn, node):
    """True if the statement containing node can execute more than once in one call (lies on a CFG cycle)."""
    g = cfg_of(fn)
    n = stmt_node(ctx, fn, node)
    if n is None:
        return None
    for s, _ in n.succ:
        if n in g.reachable(s):
            return True
    # comprehension
    p = ctx.prog.parent.get(node)
    while p is not None and not isinstance(p, ast.stmt):
        if isinstance(p, (ast.ListComp, ast.SetComp, ast.DictComp, ast.GeneratorExp)):
            return True
        p = ctx.prog.parent.get(p)
    return False


# ---------------------------------------------------------------------- symbolic trace over the CFG
class Undetermined(Exception):
    pass


def reach_under(g, start, atom, stop=()):
    """Nodes reachable from `start` along normal edges when every test the atoms decide is followed only along the decided
    edge (undecided tests: both edges).  `stop` nodes are not entered again (e.g. the statement that re-defines the
    variables the atoms talk about), so the result describes one iteration."""
    stop = set(stop)
    seen = set()
    work = [start]
    while work:
        n = work.pop()
        if n in seen:
            continue
        seen.add(n)
        lab = branch_when(n, atom) if n.kind == "test" else None
        for s, l in n.succ:
            if l == "exc" or s in stop:
                continue
            if lab is not None and l in ("true", "false") and l != lab:
                continue
            work.append(s)
    return seen


def trace(g, start, atom, stop=(), iter_decide=None, maxsteps=400, visit=None):
    """Follow the CFG from `start`, deciding each test with eval3 over `atom`.

    Returns (visited nodes in order, terminal) where terminal is 'exit' | 'xexit' | 'stop' | 'loop'.
    Raises Undetermined when a test cannot be decided from the atoms.
    """
    seen = []
    n = start
    steps = 0
    stop = set(stop)
    while True:
        steps += 1
        if steps > maxsteps:
            raise Undetermined("trace too long")
        if n is g.exit:
            return seen, "exit"
        if n is g.xexit:
            return seen, "xexit"
        if n in stop and seen:
            return seen, "stop"
        if n in seen and n.kind in ("test", "iter"):
            return seen, "loop"
        seen.append(n)
        if visit is not None:
            visit(n)
        if n.kind == "test":
            t = test_expr(n)
            v = eval3(t, atom)
            if v is None:
                raise Undetermined("cannot decide: %s" % norm(t))
            nxt = succ_by_label(n, "true" if v else "false")
            if not nxt:
                # `while True` has no false edge
                raise Undetermined("no %s edge at %s" % (v, norm(t)))
            n = nxt[0]
            continue
        if n.kind == "iter":
            take = iter_decide(n) if iter_decide else False
            nxt = succ_by_label(n, "iter" if take else "done")
            if not nxt:
                raise Undetermined("loop without exit")
            n = nxt[0]
            continue
        normal = [s for s, lab in n.succ if lab not in ("exc",)]
        if not normal:
            return seen, "xexit"
        if len(normal) > 1:
            raise Undetermined("ambiguous successor at %r" % n)
        n = normal[0]


def targets_of(ctx, fn, call):
    """Package functions a call may reach according to the call graph (including name over-approximation)."""
    out = []
    for site in ctx.cg.sites.get(fn, []):
        if site.node is call:
            for t in site.targets:
                if t[0] == "pkg" and t[1] not in out:
                    out.append(t[1])
    return out


def constructor_helpers(ctx, init):
    """Methods of the constructor's class that only the constructor calls: [(helper, call site in the constructor)].
    Their bodies are part of the construction (a constructor split into steps)."""
    out = []
    for c in own_nodes(init.node):
        if not isinstance(c, ast.Call):
            continue
        for h in targets_of(ctx, init, c):
            if h is init or h.cls is not init.cls or any(h is o[0] for o in out):
                continue
            callers = [(f, site) for f, sites in ctx.cg.sites.items() for site in sites if any(t[0] == "pkg" and t[1] is h for t in site.targets)]
            if len(callers) == 1 and callers[0][0] is init:
                out.append((h, c))
    return out


class _SubstNames(ast.NodeTransformer):
    def __init__(self, m):
        self.m = m

    def visit_Name(self, n):
        if isinstance(n.ctx, ast.Load) and n.id in self.m:
            import copy
            return copy.deepcopy(self.m[n.id])
        return n


def inline_single_return(ctx, fn, call):
    """The value of a call of a package helper whose body is one `return <expr>` (after an optional docstring), as an
    expression over the caller's names: parameters replaced by the arguments, the receiver by the caller's receiver.
    None when the call is not of that kind (several targets, other statements, names the helper binds itself)."""
    import copy
    if not isinstance(call, ast.Call) or any(isinstance(a, ast.Starred) for a in call.args) or any(k.arg is None for k in call.keywords):
        return None
    tg = targets_of(ctx, fn, call)
    if len(tg) != 1 or tg[0].is_generator:
        return None
    T = tg[0]
    body = [st for st in T.node.body if not (isinstance(st, ast.Expr) and isinstance(st.value, ast.Constant))]
    if not body or not isinstance(body[-1], ast.Return) or body[-1].value is None:
        return None
    # before the return: plain `name = <expr>` definitions, each name defined once (read as abbreviations)
    pre = body[:-1]
    if not all(isinstance(st, ast.Assign) and len(st.targets) == 1 and isinstance(st.targets[0], ast.Name) for st in pre):
        return None
    locals_ = [st.targets[0].id for st in pre]
    if len(set(locals_)) != len(locals_) or set(locals_) & set(T.params):
        return None
    expr = body[-1].value
    if any(isinstance(x, (ast.Lambda, ast.ListComp, ast.SetComp, ast.DictComp, ast.GeneratorExp, ast.NamedExpr)) for st in body for x in ast.walk(st)):
        return None
    is_method = T.cls is not None and not T.is_static
    bound = ctx.res.bind_args(T, call, is_method)
    m = {}
    for prm in T.params:
        if is_method and prm == T.self_name:
            if not (isinstance(call.func, ast.Attribute)):
                return None
            m[prm] = call.func.value
        elif prm in bound and isinstance(bound[prm], ast.AST):
            m[prm] = bound[prm]
        else:
            return None           # a default value: not followed
    if set(bound) - set(T.params):
        return None
    for st in pre:
        m[st.targets[0].id] = _SubstNames(dict(m)).visit(copy.deepcopy(st.value))
    return ast.fix_missing_locations(_SubstNames(m).visit(copy.deepcopy(expr)))


def worklist_loops(fn):
    """`while work:` loops of fn that keep their own stack / queue of things still to visit: the test reads a local list
    (`work`, `len(work)`, `work != []`) that the body pops from, appends to, or reads the last element of.  A walk written
    that way visits a tree in an order, and with components, that the tuple-insensitive analyses here do not separate."""
    out = []
    for n in own_nodes(fn.node):
        if not isinstance(n, ast.While):
            continue
        names = {x.id for x in ast.walk(n.test) if isinstance(x, ast.Name)}
        hit = None
        for st in n.body + n.orelse:
            for x in ast.walk(st):
                if isinstance(x, ast.Call) and isinstance(x.func, ast.Attribute) and isinstance(x.func.value, ast.Name) and x.func.value.id in names \
                        and x.func.attr in ("pop", "append", "popleft", "extend", "appendleft"):
                    hit = x.func.value.id
                elif isinstance(x, ast.Subscript) and isinstance(x.value, ast.Name) and x.value.id in names and isinstance(x.slice, ast.UnaryOp):
                    hit = x.value.id
        if hit is not None:
            out.append((n, hit))
    return out


def in_worklist_loop(ctx, fn, node):
    """The name of the work list when node lies inside a worklist loop of fn (see worklist_loops), else None."""
    loops = worklist_loops(fn)
    if not loops:
        return None
    inside = {id(x): w for l, w in loops for x in ast.walk(l)}
    return inside.get(id(node))


def _reads_length(fn, name):
    """Local `name` holds a recorded length: every assignment of it in fn reads the key 'length' of something."""
    defs = [n for n in own_nodes(fn.node) if isinstance(n, ast.Assign) and any(isinstance(t, ast.Name) and t.id == name for t in n.targets)]
    stores = [n for n in own_nodes(fn.node) if isinstance(n, ast.Name) and n.id == name and isinstance(n.ctx, ast.Store)]
    if not defs or len(defs) != len(stores):
        return False
    for d in defs:
        v = d.value
        ok = (isinstance(v, ast.Subscript) and isinstance(v.slice, ast.Constant) and v.slice.value == "length") or \
            (isinstance(v, ast.Call) and isinstance(v.func, ast.Attribute) and v.func.attr == "get" and v.args and isinstance(v.args[0], ast.Constant) and v.args[0].value == "length")
        if not ok:
            return False
    return True


def nonempty_atom(fn, x):
    """Truth of atom x for an entry whose recorded length is not zero (None: x does not speak of the recorded length).
    `length`, `length > 0`, `length != 0`, `0 < length` are true, `length == 0` is false; also written on entry['length']."""
    def is_len(e):
        if isinstance(e, ast.Name):
            return _reads_length(fn, e.id)
        return isinstance(e, ast.Subscript) and isinstance(e.slice, ast.Constant) and e.slice.value == "length"
    if is_len(x):
        return True
    if isinstance(x, ast.Compare) and len(x.ops) == 1:
        l, r, op = x.left, x.comparators[0], x.ops[0]
        if is_len(l) and isinstance(r, ast.Constant) and r.value == 0:
            return {ast.Eq: False, ast.NotEq: True, ast.Gt: True, ast.LtE: False}.get(type(op))
        if is_len(r) and isinstance(l, ast.Constant) and l.value == 0:
            return {ast.Eq: False, ast.NotEq: True, ast.Lt: True, ast.GtE: False}.get(type(op))
    return None
