"""C04 - recheck never reports 100% for damaged or incomplete content (necessary structural clauses)."""
from . import recheck_rules as R
from .recheck_mutants import MUT_C04

PROP = "C04"
EXPLANATION = (
    "Partial. The size arithmetic of extract / _gen_padding / advance / Padder for every file-size combination is a "
    "run-time quantity and is not decided. Decided are necessary conditions, each of which - if broken - lets some "
    "damage through: C04.1 match bookkeeping (matched bytes grow only under equality of the computed and the recorded "
    "hash of the same iteration, examined bytes grow unconditionally by the same size, result = matched/examined*100, "
    "results() drains the comparison); C04.2 StopIteration discipline (contradiction rule: inside a __next__, if one "
    "call of a callee that may let StopIteration escape is wrapped in try/except StopIteration that carries on, every "
    "other call of that callee in the method must be protected too - otherwise an inner exhaustion ends the outer "
    "iteration and later files are never compared); C04.3 the partial piece carried across files is always yielded or "
    "carried and flushed after the last file, with no last-file special case; C04.4 an absent file is replaced by a "
    "zero-filled stand-in of the recorded length on the sibling branch; C04.5 the recorded-hash slice is [k*H, k*H+H) "
    "with H the digest size of the hash used on the computed side and k advanced by exactly one per piece.")
RULE_TEXT = "one obligation per accumulator / exit / call site / branch / slice; non-trivial = CFG dominance, control dependence, may-raise summary, linear normal form"


def run(ctx):
    ctx.trust("absent data is read as zeros by design; the arithmetic of extract/_gen_padding/advance is NOT decided")
    R.bookkeeping(ctx, "C04.1")
    R.stop_iteration_discipline(ctx, "C04.2")
    R.carried_buffer(ctx, "C04.3")
    R.absent_data(ctx, "C04.4")
    R.digest_pairing(ctx, "C04.5")
    R.exhaustion_guard(ctx, "C04.6")
    from .conservation import zero_fill_conservation
    zero_fill_conservation(ctx, "C04.7")


MUTANTS = MUT_C04
QUICK_CANARIES = True
CLAIM = {
    "text": "Partial: five families of necessary conditions of 'damage is never reported as 100%' are decided on every path (bookkeeping, iterator hand-over discipline, carried-buffer flush, "
            "absent-data stand-ins, digest pairing). A pass does not prove the byte arithmetic of the piece extractors right for every size; it proves that the structural ways in which "
            "whole files or pieces escape comparison are absent. Defects G16 and G17 (repaired) were of exactly this kind. Also: the stored percentage is not rewritten afterwards and reaches the command's return value unchanged; the payload total (when it takes part in the percentage) grows for exactly the compared entries; accumulators kept on the object are reset per run; no StopIteration raised outside the iterator classes can escape from a hand-written __next__. The hash handed out for a v1 piece is the digest of the piece taken from the stream in the same call (a stored digest only under identity / equality with the buffer it was made from); the zero stand-in that takes over when a v2 file ends early is told what is still owed before advance() books the piece.",
    "note": "Not decided: extract / _gen_padding / advance / Padder arithmetic for all size combinations; hash equality itself. Trusted: Python iterator protocol semantics.",
    "technique": "CFG dominance and control dependence, may-raise (StopIteration) summary with a contradiction rule, must-pass-through in generator loops, linear normal forms of slice bounds",
    "design_ref": "DESIGN.md section 4, C04",
}
