"""C08 - the info-hash depends only on payload, piece length, version and info options."""
import ast

from tfsa.flow import Flow, walk_terms, show
from tfsa.loader import own_nodes, AnalysisError
from tfsa.pointsto import PointsTo
from tfsa.report import norm
from tfsa.resolve import const_str
from tfsa import effects as E
from . import common as C

PROP = "C08"
EXPLANATION = (
    "Non-interference (label) analysis over the creators. Sinks: every value stored into the info dictionary or any "
    "structure reachable from it (file list, file tree, pieces, padding entries) and into 'piece layers' - enumerated by "
    "the points-to analysis from the dictionary MetaFile.__init__ creates (literal entries and all insertion statements "
    "in all creators and hashers). For each sink the origin term of the stored value (and key) is computed and evaluated "
    "to a set of provenance labels with transfer functions for the path and enumeration primitives: parameters "
    "announce / url_list / httpseeds / outfile / progress / cwd, the clock, the working directory and random sources are "
    "forbidden; the content path may arrive only as an argument of file-reading primitives (label dropped: the bytes do "
    "not depend on the spelling), through relpath(child, root) of an enumerated child, or as basename(abspath/realpath(p)) "
    "(a bare basename only under an isfile guard); directory enumeration order must be cleansed by sorted() with default "
    "ordering before it reaches an ordered container. Top level: besides info only 'creation date' may carry the clock. "
    "Explicit data flow only (plus the named isfile guard); implicit flows through arbitrary control dependence are not tracked.")
RULE_TEXT = "one obligation per sink (stored value or literal entry under info / piece layers, and top-level entries); non-trivial = label evaluation of an inter-procedural origin term"

ALLOWED_OPTS = {"comment", "source", "private", "piece_length", "meta_version", "align"}
PATH_PARAMS = {"path", "content"}
FORBIDDEN_PARAMS = {"announce", "url_list", "httpseeds", "outfile", "progress", "cwd"}
PASS = {"builtins.str", "builtins.bytes", "builtins.bytearray", "builtins.int", "builtins.len", "builtins.sum", "builtins.min", "builtins.max",
        "builtins.list", "builtins.tuple", "builtins.dict", "builtins.zip", "builtins.iter", "builtins.next", "builtins.range", "builtins.enumerate",
        "builtins.reversed", "builtins.abs", "builtins.divmod", "builtins.pow", "builtins.repr", "builtins.format", "pathlib.Path", "pathlib.PurePath",
        "os.path.join", "os.fspath", "os.path.normpath", "os.path.split", "os.path.splitext", "os.path.dirname", "os.fsdecode", "os.fsencode",
        "hashlib.sha1", "hashlib.sha256", "hashlib.md5"}
FS_CONTENT = {"os.path.getsize", "builtins.open", "io.open", "os.stat", "os.path.getmtime"}
BOOLS = {"os.path.exists", "os.path.isfile", "os.path.isdir", "os.path.islink", "builtins.isinstance", "builtins.hasattr", "builtins.bool",
         "builtins.any", "builtins.all", "builtins.callable"}


ORDER = {"enum-order", "custom-order"}


class Labels:
    def __init__(self, ctx, init):
        self.ctx = ctx
        self.init = init
        self.memo = {}

    def of(self, terms):
        out = set()
        for t in terms:
            out |= self.one(t)
        return out

    def one(self, t):
        try:
            r = self.memo.get(t)
        except TypeError:
            r = None
        if r is not None:
            return r
        r = self._one(t)
        try:
            self.memo[t] = r
        except TypeError:
            pass
        return r

    @staticmethod
    def _components_of(t):
        """t = Path(X).parts / X.split(sep)  ->  the term set X, else None."""
        if t[0] == "attr" and t[2] == "parts":
            for b in t[1]:
                if b[0] == "ext" and b[1] in ("pathlib.Path", "pathlib.PurePath") and len(b[2]) == 1:
                    return b[2][0]
        if t[0] == "meth" and t[1] == "split":
            return t[2]
        return None

    def _component_drop(self, t):
        """Path(X).parts[len(Path(P).parts):] - the components of X after those of P.  Like relpath(X, P) this is the
        relative location, provided X is spelled with P as its prefix: both as given by the caller or both normalised."""
        base, index = t[1], t[2]
        if len(base) != 1 or len(index) != 1:
            return None
        (b,), (ix,) = tuple(base), tuple(index)
        X = self._components_of(b)
        if X is None or not (ix[0] == "op" and ix[1] == "slice"):
            return None
        lo, hi, step = ix[2]
        if any(x != ("const", None) for x in hi) or any(x != ("const", None) for x in step) or len(lo) != 1:
            return None
        (l,) = tuple(lo)
        if not (l[0] == "ext" and l[1] == "builtins.len" and len(l[2]) == 1 and len(l[2][0]) == 1):
            return None
        P = self._components_of(next(iter(l[2][0])))
        if P is None:
            return None
        lx, lp = self.of(X), self.of(P)
        pathish = {"raw-path", "norm-path", "abs-path", "entry-names"}
        out = {x for x in (lx | lp) if x not in pathish}
        kx, kp_ = lx & {"raw-path", "norm-path", "abs-path"}, lp & {"raw-path", "norm-path", "abs-path"}
        if kx and kx == kp_ and len(kx) == 1:
            out.add("rel")
            return out
        # the listing and the root are spelled differently: the number of components dropped is that of the other spelling
        return (out | kx | kp_ | {"raw-path"}) - {"abs-path"}

    def _args(self, t):
        out = set()
        for a in t[2]:
            out |= self.of(a)
        for _, v in (t[3] if len(t) > 3 else ()):
            out |= self.of(v)
        return out

    def _one(self, t):
        k = t[0]
        if k in ("const", "rec", "lambda", "self", "global", "selfattr"):
            return set()
        if k == "unknown":
            return {"unknown:" + str(t[1])}
        if k == "param":
            if t[1] == self.init.qual:
                p = t[2]
                if p in PATH_PARAMS:
                    return {"raw-path"}
                if p in ALLOWED_OPTS:
                    return {"opt:" + p}
                if p in FORBIDDEN_PARAMS:
                    return {"forbidden:" + p}
                return {"param:" + p}
            return {"param:%s.%s" % (t[1].split(":")[-1], t[2])}
        if k == "ext":
            d = t[1]
            if d in E.CLOCK:
                return {"clock"}
            if d in E.CWD:
                return {"cwd"}
            if d in E.RANDOM:
                return {"random"}
            if d in ("os.environ.get", "os.getenv"):
                return {"environment"}
            if d in BOOLS:
                return set()
            if d in FS_CONTENT or d in ("pyben.load",):
                return {"fs-content"}
            if d in E.ENUM_SOURCES:
                return {"enum-order", "entry-names"}
            args = self._args(t)
            if d in ("os.path.abspath", "os.path.realpath"):
                return {("norm-path" if a in ("raw-path", "abs-path") else a) for a in args}
            if d == "os.path.basename":
                out = set()
                for a in args:
                    if a == "norm-path":
                        out.add("name")
                    elif a in ("raw-path", "abs-path"):
                        out.add("raw-name")
                    else:
                        out.add(a)
                return out
            if d == "os.path.relpath":
                a0 = self.of(t[2][0]) if t[2] else set()
                a1 = self.of(t[2][1]) if len(t[2]) > 1 else {"cwd"}
                a0 = {("raw-path" if x == "abs-path" else x) for x in a0}
                a1 = {("raw-path" if x == "abs-path" else x) for x in a1}
                pathish = {"raw-path", "norm-path", "entry-names"}
                out = {x for x in (a0 | a1) if x not in pathish}
                if "cwd" in a1:
                    return out | {"cwd"}
                if (a0 & {"raw-path", "norm-path"}) and (a1 & {"raw-path", "norm-path"}):
                    out.add("rel")
                elif a0 & {"raw-path", "norm-path"}:
                    out |= a0 & {"raw-path", "norm-path"}
                return out
            if d == "builtins.sorted":
                kw = dict(t[3])
                if "key" not in kw:
                    return args - {"enum-order"}          # reverse=True is still one fixed total order
                verdict = sort_key_verdict(kw["key"])
                if verdict == "injective":
                    return args - {"enum-order"}          # distinct entries never tie: the result does not depend on the input order
                if verdict == "ties":
                    return args | {"custom-order"}
                return args | {"unknown:sort key"}
            if d in ("builtins.sum", "builtins.len", "builtins.max", "builtins.min", "builtins.any", "builtins.all"):
                return args - ORDER          # commutative aggregates: the order of the elements does not show in the result
            if d in ("builtins.set", "builtins.frozenset"):
                return args | {"enum-order"}
            if d in PASS or d.startswith("os.path.") or d.startswith("builtins."):
                return args
            if d.startswith(("time.", "datetime.")):
                return args | {"clock"}
            return args
        if k == "meth":
            name = t[1]
            recv = self.of(t[2])
            args = set()
            for a in t[3]:
                args |= self.of(a)
            if name in ("iterdir", "glob", "rglob"):
                return (recv - {"fs-content"}) | {"enum-order", "entry-names"}
            if name in ("read", "readinto", "readline", "readlines", "read_bytes", "read_text", "stat"):
                return {"fs-content"}
            if name in ("is_file", "is_dir", "exists", "startswith", "endswith", "isdigit"):
                return set()
            if name == "resolve":
                return {("norm-path" if a in ("raw-path", "abs-path") else a) for a in recv}
            if name in ("get", "pop", "setdefault") and t[3]:
                # a lookup: the key selects among what the container holds (the receiver's labels); what arrives is a stored
                # value or the default, not the key
                rest = set()
                for a in t[3][1:]:
                    rest |= self.of(a)
                return recv | rest
            if name == "absolute":
                # Path.absolute() prefixes the working directory but keeps '..' components: a third spelling - as long as the
                # one the caller gave (minus its root), not normalised
                return {("abs-path" if a == "raw-path" else a) for a in recv}
            return recv | args
        if k == "attr":
            base = self.of(t[1])
            if t[2] == "name":
                return {("name" if a == "norm-path" else "raw-name" if a in ("raw-path", "abs-path") else a) for a in base}
            if t[2] in ("st_size", "st_mtime"):
                return {"fs-content"}
            return base
        if k == "op":
            if t[1].startswith("cmp:") or t[1] in ("Not",):
                return set()
            out = set()
            for a in t[2]:
                out |= self.of(a)
            return out
        if k == "sub":
            drop = self._component_drop(t)
            if drop is not None:
                return drop
            # reading an element: keys under which values were stored do not flow into the value read
            out = set()
            for b in t[1]:
                if b[0] == "kelem":
                    out |= self.of(b[2])
                elif b[0] == "dict":
                    for _, v in b[1]:
                        out |= self.of(v)
                else:
                    out |= self.one(b)
            return out
        if k == "elem":
            # an element of an unordered enumeration is not itself order-dependent
            return self.of(t[1]) - ORDER
        if k == "kelem":
            return self.of(t[1]) | self.of(t[2])
        if k == "added":
            return self.of(t[1])
        if k == "inloop":
            return self.of(t[1]) | (self.of(t[2]) & ORDER)
        if k in ("list", "fstr"):
            out = set()
            for a in t[1]:
                out |= self.of(a)
            return out
        if k == "dict":
            out = set()
            for a, b in t[1]:
                out |= self.of(a) | self.of(b)
            return out
        if k == "inst":
            out = set()
            for _, v in t[2]:
                out |= self.of(v)
            return out
        if k == "pkgcall":
            out = set()
            for _, v in t[2]:
                out |= self.of(v)
            return out
        return {"unknown:" + k}


def recovery_hook(ctx, init):
    """The last element of a list option, taken under os.path.exists(that element), is the content path."""
    g = C.cfg_of(init)

    def hook(f, name, what, payload, flow, env, depth):
        if f is not init or what != "value" or name not in PATH_PARAMS:
            return None
        if isinstance(payload, ast.Subscript) and isinstance(payload.value, ast.Name) and norm(payload.slice) == "-1":
            stmt = ctx.prog.enclosing_stmt(payload)
            node = C.stmt_node(ctx, init, stmt)
            for b, lab in g.control_deps(node):
                t = C.test_expr(b)
                if t is None or lab != "true":
                    continue
                for a in C.atoms_of(t):
                    if isinstance(a, ast.Call) and C.is_ext_call(ctx, a, init, ("os.path.exists", "os.path.isfile", "os.path.isdir")) and a.args \
                            and norm(a.args[0]) == norm(payload):
                        return frozenset([("param", init.qual, "path")])
        return None
    return hook


def recovery_expr_hook(ctx, init):
    """The same recovery arm wherever it is written (a helper that returns the recovered path): `X[-1]` evaluated where
    os.path.exists(X[-1]) is known to be true is the content path the list option swallowed."""
    def hook(f, e, flow, env, depth):
        if f is None or not (isinstance(e.value, ast.Name) and norm(e.slice) == "-1"):
            return None
        stmt = ctx.prog.enclosing_stmt(e)
        g = C.cfg_of(f)
        node = C.stmt_node(ctx, f, stmt)
        if node is None:
            return None
        # a use inside the test itself (os.path.exists(X[-1])) is not a recovered path
        if node.kind == "test":
            return None
        for b, lab in g.control_deps(node):
            t = C.test_expr(b)
            if t is None or lab != "true":
                continue
            for a in C.atoms_of(t):
                if isinstance(a, ast.Call) and C.is_ext_call(ctx, a, f, ("os.path.exists", "os.path.isfile", "os.path.isdir")) and a.args and norm(a.args[0]) == norm(e):
                    return frozenset([("param", init.qual, "path")])
        return None
    return hook


INJECTIVE_CALLS = {"str", "os.fspath", "os.fsencode", "Path", "PurePath", "pathlib.Path", "pathlib.PurePath", "PurePosixPath", "tuple", "list", "repr"}
NON_INJECTIVE_ATTRS = {"lower", "upper", "casefold", "name", "stem", "suffix", "suffixes", "title", "swapcase", "strip", "parent"}
NON_INJECTIVE_CALLS = {"len", "os.path.basename", "os.path.getsize", "os.path.getmtime", "os.path.dirname", "os.path.splitext", "hash", "os.path.normcase", "int", "float"}


def sort_key_verdict(key_terms):
    """'injective' - distinct elements get distinct keys, so sorted() yields one order whatever order the elements arrive in;
    'ties' - distinct elements can share a key (a stable sort then keeps the arrival order of the operating system);
    'unknown' otherwise."""
    verdicts = set()
    for t in key_terms:
        if t[0] == "lambda" and len(t) > 1:
            try:
                lam = ast.parse(t[1], mode="eval").body
            except SyntaxError:
                verdicts.add("unknown")
                continue
            if not (isinstance(lam, ast.Lambda) and len(lam.args.args) == 1):
                verdicts.add("unknown")
                continue
            verdicts.add(_expr_injective(lam.body, lam.args.args[0].arg))
        elif t[0] == "ext":
            short = t[1].replace("builtins.", "")
            verdicts.add("injective" if short in INJECTIVE_CALLS else ("ties" if short in NON_INJECTIVE_CALLS or short.split(".")[-1] in NON_INJECTIVE_ATTRS else "unknown"))
        else:
            verdicts.add("unknown")
    if verdicts == {"injective"}:
        return "injective"
    if "ties" in verdicts:
        return "ties"
    return "unknown"


def _expr_injective(e, x):
    """Is the expression an injective function of the variable x (for path strings)?"""
    if isinstance(e, ast.Name) and e.id == x:
        return "injective"
    if isinstance(e, ast.Tuple):
        vs = [_expr_injective(el, x) for el in e.elts]
        return "injective" if "injective" in vs else ("ties" if all(v == "ties" for v in vs) else "unknown")
    if isinstance(e, ast.Call):
        name = norm(e.func)
        if name in INJECTIVE_CALLS and len(e.args) == 1 and not e.keywords:
            return _expr_injective(e.args[0], x)
        if name in NON_INJECTIVE_CALLS:
            return "ties"
        if isinstance(e.func, ast.Attribute) and e.func.attr in ("split", "encode", "rsplit") and _expr_injective(e.func.value, x) == "injective":
            return "injective"       # splitting at a separator / encoding loses nothing
        if isinstance(e.func, ast.Attribute) and e.func.attr in NON_INJECTIVE_ATTRS:
            return "ties"
        return "unknown"
    if isinstance(e, ast.Attribute):
        if e.attr in ("parts",) and _expr_injective(e.value, x) == "injective":
            return "injective"
        if e.attr in NON_INJECTIVE_ATTRS:
            return "ties"
        return "unknown"
    if isinstance(e, ast.Constant):
        return "ties"
    return "unknown"


def isfile_guarded(ctx, fn, node):
    """The statement is control-dependent on os.path.isfile(<content path>) being true."""
    g = C.cfg_of(fn)
    n = C.stmt_node(ctx, fn, node)

    def is_isfile(a):
        return isinstance(a, ast.Call) and (C.is_ext_call(ctx, a, fn, ("os.path.isfile",)) or (isinstance(a.func, ast.Attribute) and a.func.attr == "is_file"))

    def isfile_local(a):
        # single = os.path.isfile(<content path>), bound once
        if isinstance(a, ast.Name):
            bl = ctx.res.bindings(fn).get(a.id, [])
            return len(bl) == 1 and bl[0][0] == "value" and is_isfile(bl[0][1])
        return False
    # the value sits in the true arm of a conditional expression `X if <isfile> else Y`
    child, par = node, ctx.prog.parent.get(node)
    while par is not None and not isinstance(par, ast.stmt):
        if isinstance(par, ast.IfExp) and child is par.body and (is_isfile(par.test) or isfile_local(par.test)):
            return True
        child, par = par, ctx.prog.parent.get(par)
    if n is None:
        return False
    for b, lab in g.control_deps(n):
        t = C.test_expr(b)
        if t is None:
            continue
        for a in C.atoms_of(t):
            if isfile_local(a) and C.branch_when(b, lambda x, a=a: True if x is a else None) == lab:
                return True
            if isinstance(a, ast.Call) and (C.is_ext_call(ctx, a, fn, ("os.path.isfile",)) or (isinstance(a.func, ast.Attribute) and a.func.attr == "is_file")):
                if C.branch_when(b, lambda x, a=a: True if x is a else None) == lab:
                    return True
            # self.flag with the single definition  self.flag = os.path.isfile(<content path>)
            if isinstance(a, ast.Attribute) and isinstance(a.value, ast.Name) and fn.self_name and a.value.id == fn.self_name and fn.cls is not None:
                defs = []
                for c in ctx.prog.mro(fn.cls):
                    for m in c.methods.values():
                        for x in own_nodes(m.node):
                            if isinstance(x, ast.Assign) and any(isinstance(tg, ast.Attribute) and tg.attr == a.attr and isinstance(tg.value, ast.Name) and tg.value.id == m.self_name for tg in x.targets):
                                defs.append((m, x.value))
                if len(defs) == 1 and isinstance(defs[0][1], ast.Call) and (C.is_ext_call(ctx, defs[0][1], defs[0][0], ("os.path.isfile",))
                                                                         or (isinstance(defs[0][1].func, ast.Attribute) and defs[0][1].func.attr == "is_file")):
                    if C.branch_when(b, lambda x, a=a: True if x is a else None) == lab:
                        return True
    return False


FORBIDDEN_AT_INFO = {"clock": "the clock", "cwd": "the current working directory", "random": "a random source", "environment": "the process environment",
                     "raw-path": "the content path as spelled by the caller", "norm-path": "the absolute location of the payload",
                     "abs-path": "the content path as spelled by the caller (made absolute, '..' kept)",
                     "enum-order": "the operating system's directory enumeration order", "custom-order": "a non-default sort order"}


def judge(ctx, rule, fn, node, label, labs, where, allow_raw_name):
    bad = []
    for l in sorted(labs):
        if l in FORBIDDEN_AT_INFO:
            bad.append(FORBIDDEN_AT_INFO[l])
        elif l.startswith("forbidden:"):
            bad.append("the %s option" % l.split(":")[1])
        elif l == "raw-name" and not allow_raw_name:
            bad.append("the base name of the path as spelled (not normalised: 'dir/.' or a trailing separator change it)")
        elif l.startswith("param:"):
            bad.append("parameter " + l.split(":", 1)[1])
    unknown = [l for l in labs if l.startswith("unknown:")]
    if bad:
        ctx.violated(rule, fn, "%s depends on %s" % (where, "; ".join(bad)), node)
    elif unknown:
        ctx.undecided(rule, fn, "%s: origin not fully understood (%s)" % (where, ", ".join(sorted(unknown))), node)
    else:
        ctx.holds(rule, fn, "%s depends only on %s" % (where, ", ".join(sorted(labs)) or "constants"), node)


def run(ctx):
    ctx.trust("os.path / pathlib semantics of abspath, realpath, basename, relpath; sorted() default ordering; file content does not depend on how its path is spelled")
    init = ctx.prog.func("torrentfile.torrent:MetaFile.__init__")
    pt = PointsTo(ctx.prog, ctx.res, ctx.cg)
    flow = Flow(ctx.prog, ctx.res, stop_funcs=[init], hook=recovery_hook(ctx, init))
    flow.expr_hook = recovery_expr_hook(ctx, init)
    # a shared helper (merkle_root, the hashers) is also called by the reading commands: only the creating contexts say
    # what a metafile is made of
    base = ctx.prog.cls("torrentfile.torrent:MetaFile")
    creating = [m_ for c_ in ctx.prog.subclasses(base) for m_ in c_.methods.values()] + [f_ for f_ in ctx.prog.functions.values() if f_.module.name in ("torrentfile.commands", "torrentfile.cli", "torrentfile.interactive") and f_.cls is None]
    on_creation_paths = set(C.reach(ctx, creating)) | set(creating)
    flow.caller_filter = lambda f_: f_.module.name not in ("torrentfile.recheck", "torrentfile.rebuild", "torrentfile.edit") and f_ in on_creation_paths
    lab = Labels(ctx, init)
    # the meta dictionary created by MetaFile.__init__
    roots = set()
    for n in own_nodes(init.node):
        if isinstance(n, ast.Assign) and any(isinstance(t, ast.Attribute) and t.attr == "meta" for t in n.targets) and isinstance(n.value, ast.Dict):
            roots |= pt.pts(n.value, init)
    if not roots:
        raise AnalysisError("anchor vanished: the meta dictionary literal of MetaFile.__init__")
    kp = pt.key_paths(roots)
    creators = {"torrentfile.torrent", "torrentfile.hasher", "torrentfile.utils"}
    n_info = n_top = 0
    seen = set()

    def sink(fn, node, exprs, path, how):
        nonlocal n_info, n_top
        if id(node) in seen or fn is None or fn.module.name not in creators:
            return
        seen.add(id(node))
        labs = set()
        for e in exprs:
            if e is not None:
                labs |= lab.of(flow.term(e, fn))
        if path and path[-1] == "<order>":
            labs &= ORDER
        where = "value stored under %s (%s)" % ("/".join(path) or "<top level>", how)
        work = C.in_worklist_loop(ctx, fn, node)
        if work is not None and labs & {"raw-path", "abs-path", "norm-path", "enum-order", "custom-order", "raw-name"}:
            # an iterative walk: directory, listing and dictionary travel together as tuples on the stack `work`, and the
            # origin terms do not keep the components of such tuples apart
            n_info += 1
            ctx.undecided("C08.1", fn, "%s is computed inside a loop that keeps its own stack of open directories (`%s`): the components of the "
                          "stacked tuples are not kept apart, so whether the path or the listing order reaches it is not decided" % (where, work), node)
            return
        if path and path[0] in ("info", "piece layers"):
            n_info += 1
            allow = isfile_guarded(ctx, fn, node)
            if not allow and "raw-name" in labs:
                # X if <single file> else Y: the bare name may appear in X only
                conds = [e for e in exprs if isinstance(e, ast.IfExp)]
                if conds and len(conds) == len([e for e in exprs if e is not None]) and all(
                        isfile_guarded(ctx, fn, c.body) and "raw-name" not in lab.of(flow.term(c.orelse, fn)) for c in conds):
                    allow = True
            judge(ctx, "C08.1", fn, node, path, labs, where, allow_raw_name=allow)
        else:
            n_top += 1
            key = path[0] if path else None
            bad = []
            for l in sorted(labs):
                if l in ("clock", "random", "environment") and key != "creation date":
                    bad.append(FORBIDDEN_AT_INFO[l])
                if l in ("cwd", "raw-path", "norm-path", "abs-path", "enum-order"):
                    bad.append(FORBIDDEN_AT_INFO[l])
            if bad:
                ctx.violated("C08.4", fn, "top-level %s depends on %s: two runs on equal input would differ in more than the creation date" % (where, "; ".join(bad)), node)
            else:
                ctx.holds("C08.4", fn, "top-level %s: %s" % (where, ", ".join(sorted(labs)) or "constants"), node, nontrivial=False)

    for o, paths in kp.items():
        p = sorted(paths, key=lambda x: (len(x), x))[0]
        node = o.node
        if o.kind == "dict" and isinstance(node, ast.Dict):
            for k, v in zip(node.keys, node.values):
                ck = const_str(k) if k is not None else None
                sub = p + ((ck,) if ck is not None else ("*",))
                if isinstance(v, (ast.Dict, ast.List)) and id(v) in pt.objs:
                    if ck is None and k is not None:
                        sink(o.fn, k, [k], sub, "literal key")
                    continue        # nested literal: judged as its own object
                sink(o.fn, v, [v] + ([k] if ck is None and k is not None else []), sub, "literal entry")
        elif o.kind == "list" and isinstance(node, (ast.List, ast.Tuple)):
            for v in node.elts:
                if isinstance(v, (ast.Dict, ast.List)) and id(v) in pt.objs:
                    continue
                sink(o.fn, v, [v], p + ("[]",), "list element")
        elif o.kind == "list" and isinstance(node, ast.ListComp):
            if not (isinstance(node.elt, (ast.Dict, ast.List)) and id(node.elt) in pt.objs):
                sink(o.fn, node.elt, [node.elt], p + ("[]",), "comprehension element")
            for gen in node.generators:
                sink(o.fn, gen.iter, [gen.iter], p + ("<order>",), "comprehension order")
    for ins, objs in pt.insertions_into(kp.keys()):
        if ins.how in ("del", "rekey") or ins.fn is None:
            continue
        p = sorted({pp for o in objs for pp in kp[o]}, key=lambda x: (len(x), x))[0]
        ck = const_str(ins.key) if ins.key is not None else None
        sub = p + ((ck,) if ck is not None else (("*",) if ins.key is not None else ("[]",)))
        exprs = [ins.value] + ([ins.key] if ins.key is not None and ck is None else [])
        if isinstance(ins.value, (ast.Dict,)) and id(ins.value) in pt.objs and ck is not None:
            continue
        sink(ins.fn, ins.node, exprs, sub, ins.how)
        # ordered containers filled in a loop: the iteration order is a sink as well
        if ins.how in ("append", "extend", "store") and p and p[0] in ("info", "piece layers"):
            n = ins.node
            while n is not None and n is not ins.fn.node:
                n = ctx.prog.parent.get(n)
                if isinstance(n, ast.For):
                    sink(ins.fn, n.iter, [n.iter], p + ("<order>",), "loop order of `for %s in %s`" % (norm(n.target), norm(n.iter)[:40]))
                    break
    ctx.floor("sinks under info / piece layers", 40, n_info)
    ctx.floor("top-level sinks", 5, n_top)
    # ---- C08.3: the enumeration helpers
    enum_sites = 0
    for f in ctx.prog.functions.values():
        if f.module.name not in creators:
            continue
        for n in own_nodes(f.node):
            if isinstance(n, ast.Call):
                is_enum = C.is_ext_call(ctx, n, f, tuple(E.ENUM_SOURCES)) or (isinstance(n.func, ast.Attribute) and n.func.attr in E.ENUM_METHODS
                                                                              and any(k == ("path",) for k in ctx.res.kinds(n.func.value, f)))
                if not is_enum:
                    continue
                enum_sites += 1
                par = ctx.prog.parent.get(n)
                direct = isinstance(par, ast.Call) and C.is_ext_call(ctx, par, f, ("builtins.sorted",)) and not par.keywords
                if direct:
                    ctx.holds("C08.3", f, "directory enumeration is wrapped in sorted() with default ordering", par)
                else:
                    # the enumeration feeds something that is sorted before it leaves the function
                    rets = [r for r in own_nodes(f.node) if isinstance(r, ast.Return) and r.value is not None]
                    labs = set()
                    for r in rets:
                        labs |= lab.of(flow.term(r.value, f))
                    if "enum-order" in labs or "custom-order" in labs:
                        ctx.violated("C08.3", f, "the order in which the operating system enumerates the directory survives into the value %s returns" % f.qualname, n)
                    else:
                        ctx.holds("C08.3", f, "enumeration order is cleansed (sorted) before %s returns" % f.qualname, n)
    ctx.floor("directory enumeration sites in the creators", 2, enum_sites)
    from .dynscan import dynamic_features
    dynamic_features(ctx, "C08.0")


MUTANTS = [
    {"name": "G20-regress-name-from-raw-path", "file": "torrentfile/torrent.py", "expect": "violated", "rule": "C08.1", "canary": True, "quick": True,
     "what": "pinned-tree defect G20: name = last component of the path as spelled",
     "edits": [("        self.name = os.path.basename(os.path.abspath(self.path))\n", "        parent, self.name = os.path.split(self.path)\n        if not self.name:\n            self.name = os.path.basename(parent)\n")]},
    {"name": "name-normpath-only", "file": "torrentfile/torrent.py", "expect": "violated", "rule": "C08.1", "canary": True,
     "what": "normpath keeps '.'", "edits": [("        self.name = os.path.basename(os.path.abspath(self.path))", "        self.name = os.path.basename(os.path.normpath(self.path))")]},
    {"name": "tracker-in-info", "file": "torrentfile/torrent.py", "expect": "violated", "rule": "C08.1", "canary": True, "quick": True,
     "what": "announce stored inside info", "edits": [('            self.meta["announce"] = self.announce\n', '            self.meta["announce"] = self.announce\n            self.meta["info"]["announce"] = self.announce\n')]},
    {"name": "date-in-info", "file": "torrentfile/torrent.py", "expect": "violated", "rule": "C08.1", "canary": True,
     "what": "creation date duplicated in info", "edits": [('        self.meta["info"]["piece length"] = self.piece_length\n', '        self.meta["info"]["piece length"] = self.piece_length\n        self.meta["info"]["created"] = self.meta["creation date"]\n')]},
    {"name": "v1-files-absolute-paths", "file": "torrentfile/torrent.py", "expect": "violated", "rule": "C08.1", "canary": True,
     "what": "v1 file paths relative to the cwd", "edits": [('                os.path.relpath(path, self.path).split(os.sep),\n            } for path in filelist]', '                os.path.relpath(path).split(os.sep),\n            } for path in filelist]')]},
    {"name": "filelist-unsorted", "file": "torrentfile/utils.py", "expect": "violated", "rule": "C08", "canary": True, "quick": True,
     "what": "v1 file list in iterdir order", "edits": [("    return total, sorted(filelist)", "    return total, filelist")]},
    {"name": "v2-tree-unsorted", "file": "torrentfile/torrent.py", "expect": "violated", "rule": "C08", "canary": True,
     "what": "v2 traversal in listdir order", "edits": [("            for name in sorted(os.listdir(path)):\n                file_tree[name]", "            for name in os.listdir(path):\n                file_tree[name]")]},
    {"name": "outfile-in-info", "file": "torrentfile/torrent.py", "expect": "violated", "rule": "C08.1", "canary": True,
     "what": "source defaults to the output file name", "edits": [('        if source:\n            self.meta["info"]["source"] = source', '        if source or outfile:\n            self.meta["info"]["source"] = source or outfile')]},
    {"name": "padding-path-with-cwd", "file": "torrentfile/hasher.py", "expect": "violated", "rule": "C08.1", "canary": True,
     "what": "padding entry path embeds the working directory", "edits": [('                    "path": [".pad", str(plength)],\n                }\n                piece.update(bytes(plength))\n            piece = piece.digest()', '                    "path": [".pad", os.getcwd(), str(plength)],\n                }\n                piece.update(bytes(plength))\n            piece = piece.digest()')]},
    {"name": "hybrid-tree-key-raw-dir", "file": "torrentfile/torrent.py", "expect": "violated", "rule": "C08.1", "canary": True,
     "what": "directory tree wrapped under the raw base name (not under an isfile guard)",
     "edits": [('        else:\n            info["file tree"] = self._traverse(self.path)\n            if self.hybrid:', '        else:\n            info["file tree"] = {os.path.basename(self.path): self._traverse(self.path)}\n            if self.hybrid:')]},
    {"name": "top-level-hostname-stamp", "file": "torrentfile/torrent.py", "expect": "violated", "rule": "C08.4", "canary": True,
     "what": "top-level field with the working directory", "edits": [('            "info": {},\n        }', '            "info": {},\n            "origin": os.getcwd(),\n        }')]},
    {"name": "benign-realpath", "file": "torrentfile/torrent.py", "expect": "clean",
     "what": "realpath instead of abspath", "edits": [("        self.name = os.path.basename(os.path.abspath(self.path))", "        self.name = os.path.basename(os.path.realpath(self.path))")]},
    {"name": "benign-sorted-twice", "file": "torrentfile/utils.py", "expect": "clean",
     "what": "sorting earlier as well", "edits": [("        for item in path.iterdir():", "        for item in sorted(path.iterdir()):")]},
    {"name": "benign-new-top-level-field", "file": "torrentfile/torrent.py", "expect": "clean",
     "what": "tracker-derived top-level field", "edits": [('            self.meta["announce-list"] = self.announce_list\n', '            self.meta["announce-list"] = self.announce_list\n            self.meta["publisher-url"] = self.announce\n')]},
]
QUICK_CANARIES = True

CLAIM = {
    "text": "Decided for explicit data flow over all creators and hashers: every value that can be stored under info or piece layers is enumerated by points-to analysis and its "
            "inter-procedural origin evaluated to provenance labels; trackers, seeds, output location, progress mode, cwd, clock, random sources, path spelling, payload location and "
            "directory enumeration order cannot reach any of them, and at top level only the creation date carries the clock. Hence the info dictionary is a function of payload, piece "
            "length, version and the info options.",
    "note": "Trusted: semantics of the path primitives in the transfer functions; that reading a file yields bytes independent of the spelling of its path. Implicit flows through "
            "control dependence are not tracked (none exists today besides the isfile guard the rule names); equality of the hashes themselves is C01/C02.",
    "technique": "non-interference by label propagation over inter-procedural origin terms (taint with cleansing transfer functions), sinks from field-sensitive points-to",
    "design_ref": "DESIGN.md section 4, C08; appendix C.3",
}
