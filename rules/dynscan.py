"""Dynamic-feature scan: constructs that would make the static call graph unsound."""
import ast

from tfsa.loader import own_nodes
from tfsa.report import norm

FORBIDDEN_CALLS = {"exec", "eval", "compile", "__import__", "globals", "locals", "setattr", "delattr"}
FORBIDDEN_EXT = {"importlib.import_module", "importlib.reload", "importlib.__import__", "runpy.run_path", "runpy.run_module",
                 "builtins.exec", "builtins.eval", "builtins.setattr", "builtins.delattr", "builtins.globals",
                 "builtins.locals", "builtins.compile", "builtins.__import__", "types.MethodType", "ctypes.pythonapi"}


def dynamic_features(ctx, rule):
    """One obligation: the package uses no dynamic feature outside the modelled ones."""
    found = []
    for fn in list(ctx.prog.functions.values()) + [None]:
        if fn is None:
            nodes = []
            for mod in ctx.prog.modules.values():
                nodes += [(n, None, mod) for n in ctx.res._module_level_nodes(mod)]
        else:
            nodes = [(n, fn, fn.module) for n in own_nodes(fn.node)]
        for n, f, mod in nodes:
            if not isinstance(n, ast.Call):
                continue
            if isinstance(n.func, ast.Name):
                nm = n.func.id
                for k in ctx.res.kinds(n.func, f, mod):
                    if k[0] == "ext" and k[1] in FORBIDDEN_EXT:
                        found.append((f, n, nm))
                    if k[0] == "ext" and k[1] == "builtins.getattr":
                        if len(n.args) < 2 or not (isinstance(n.args[1], ast.Constant) and isinstance(n.args[1].value, str)):
                            # reading an attribute of an object that is not the package's own (the argparse namespace, a
                            # pathlib / os object) cannot produce a package callable the call graph does not know
                            rk = ctx.res.kinds(n.args[0], f, mod) if n.args else set()
                            foreign = bool(rk) and all(k2[0] in ("extinst", "str", "bytes", "int", "float", "list", "dict", "set", "tuple", "path", "file", "hash") for k2 in rk)
                            if not foreign:
                                found.append((f, n, "getattr with a non-constant name"))
            elif isinstance(n.func, ast.Attribute):
                for k in ctx.res.kinds(n.func, f, mod):
                    if k[0] == "ext" and k[1] in FORBIDDEN_EXT:
                        found.append((f, n, k[1]))
    if found:
        for f, n, nm in found:
            ctx.undecided(rule, f, "dynamic feature '%s' is not modelled by the call graph; every who-may-call argument is unsound" % nm, n)
    else:
        ctx.holds(rule, None, "no exec / eval / importlib / setattr / non-constant getattr in %d functions" % len(ctx.prog.functions),
                  "dynamic-feature scan", nontrivial=False)
