"""C15 - piece-aligned v1 metafiles: padding entries account exactly for the pieces."""
import ast

from tfsa.loader import own_nodes, AnalysisError
from tfsa.report import norm
from tfsa.resolve import const_str
from . import common as C
from .linear import Lin, lin_of, module_consts
from .hash_mutants import MUT_C15

PROP = "C15"
EXPLANATION = (
    "Partial. Not decided: the hasher's byte arithmetic for all sizes. Decided: C15.1 the padding entry is appended "
    "directly after its file's entry, only when the gap is non-zero, and is marked attr='p' with the gap as length; "
    "C15.2 gap arithmetic: the expression that defines the padding length is evaluated symbolically over the four cells "
    "of S = q*P + r (q = 0 | q >= 1) x (r = 0 | 0 < r < P) - an exhaustive abstract domain for expressions built from "
    "S, P, %, -, comparisons with P and conditionals - and must give 0 when r = 0 (the empty file included) and P - r "
    "otherwise; C15.3 flag agreement: the hasher receives the same align value that selects the padded listing, the "
    "single-file branch (only 'length' recorded) forces it off, and the hasher's align arm zero-extends a short piece to "
    "exactly piece_length (linear form) and returns its SHA-1 without reading the next file.")
RULE_TEXT = "one obligation per cell of the gap arithmetic, per shape fact of the listing and of the hasher's align arm"


# ---------------------------------------------------------------------------------------------- q/r cells
CELLS = [("q=0", "r=0"), ("q=0", "r>0"), ("q>=1", "r=0"), ("q>=1", "r>0")]


class Unknown(Exception):
    pass


def ev(e, cell, S, P, env):
    """Symbolic value of e in a cell: one of 0, 'r', 'P-r', 'P', 'S', '-S', ('bool', b)."""
    q, r = cell
    if isinstance(e, ast.Constant) and e.value == 0:
        return 0
    if isinstance(e, (ast.Name, ast.Attribute)):
        t = norm(e)
        if t == S:
            return 0 if (q == "q=0" and r == "r=0") else ("r" if q == "q=0" else "S")
        if t == P:
            return "P"
        if t in env:
            return env[t]
        raise Unknown(t)
    if isinstance(e, ast.UnaryOp) and isinstance(e.op, ast.USub):
        v = ev(e.operand, cell, S, P, env)
        if v == 0:
            return 0
        if v in ("S", "r"):
            return "-" + v
        raise Unknown(norm(e))
    if isinstance(e, ast.BinOp) and isinstance(e.op, ast.Mod):
        l = ev(e.left, cell, S, P, env)
        m = ev(e.right, cell, S, P, env)
        if m != "P":
            raise Unknown(norm(e))
        if l == 0 or l == "P":
            return 0
        if l in ("S", "r"):
            return 0 if r == "r=0" else "r"
        if l in ("-S", "-r"):
            return 0 if r == "r=0" else "P-r"
        if l == "P-r":
            return "P-r" if r == "r>0" else 0
        raise Unknown(norm(e))
    if isinstance(e, ast.BinOp) and isinstance(e.op, ast.Sub):
        l = ev(e.left, cell, S, P, env)
        rr = ev(e.right, cell, S, P, env)
        if l == "P":
            if rr == 0:
                return "P"
            if rr == "r":
                return "P-r" if r == "r>0" else "P"
            if rr == "P":
                return 0
            if rr == "P-r":
                return "r" if r == "r>0" else 0
        if rr == 0:
            return l
        raise Unknown(norm(e))
    if isinstance(e, ast.IfExp):
        t = truth(e.test, cell, S, P, env)
        return ev(e.body if t else e.orelse, cell, S, P, env)
    raise Unknown(norm(e))


def truth(t, cell, S, P, env):
    q, r = cell
    if isinstance(t, ast.Compare) and len(t.ops) == 1:
        l = ev(t.left, cell, S, P, env)
        rr = ev(t.comparators[0], cell, S, P, env)
        op = t.ops[0]
        slike = (0, "r", "S")
        if (rr == "P" and l in slike) or (l == "P" and rr in slike):
            # normalise to  S <op> P
            name = type(op).__name__
            if l == "P":
                name = {"Lt": "Gt", "Gt": "Lt", "LtE": "GtE", "GtE": "LtE"}.get(name, name)
            small = q == "q=0"                      # S < P
            if name == "Lt":
                return small
            if name == "GtE":
                return not small
            if name == "Gt":
                if small:
                    return False
                if r == "r>0":
                    return True
                raise Unknown("S > P is undetermined when S is a whole number of pieces")
            if name == "LtE":
                if small:
                    return True
                if r == "r>0":
                    return False
                raise Unknown("S <= P is undetermined when S is a whole number of pieces")
            raise Unknown(norm(t))
        if rr == 0 or l == 0:
            other = l if rr == 0 else rr
            nz = other not in (0,)
            if isinstance(op, (ast.Eq,)):
                return not nz
            if isinstance(op, (ast.NotEq, ast.Gt)):
                return nz
        raise Unknown(norm(t))
    if isinstance(t, ast.UnaryOp) and isinstance(t.op, ast.Not):
        return not truth(t.operand, cell, S, P, env)
    v = ev(t, cell, S, P, env)
    return v != 0


def run(ctx):
    ctx.trust("hashlib.sha1; the hasher's byte-level behaviour for all sizes is NOT decided")
    cls = ctx.prog.cls("torrentfile.torrent:TorrentFile")
    fn = cls.methods["assemble"]
    g = C.cfg_of(fn)
    P = "self.piece_length"
    # the aligned listing loop: the loop that appends a literal with attr
    loops = [n for n in own_nodes(fn.node) if isinstance(n, ast.For) and any(isinstance(x, ast.Dict) and any(const_str(k) == "attr" for k in x.keys) for st in n.body for x in ast.walk(st))]
    if len(loops) != 1:
        ctx.undecided("C15.1", fn, "aligned listing loop (appending an entry with an 'attr' key) not found")
        return
    loop = loops[0]
    apps = [x for st in loop.body for x in ast.walk(st) if isinstance(x, ast.Call) and isinstance(x.func, ast.Attribute) and x.func.attr == "append" and x.args and isinstance(x.args[0], ast.Dict)]
    real = [a for a in apps if not any(const_str(k) == "attr" for k in a.args[0].keys)]
    pads = [a for a in apps if any(const_str(k) == "attr" for k in a.args[0].keys)]
    if len(real) != 1 or len(pads) != 1:
        ctx.undecided("C15.1", fn, "expected one file entry and one padding entry append in the aligned loop")
        return
    rn, pn = C.stmt_node(ctx, fn, real[0]), C.stmt_node(ctx, fn, pads[0])
    ent = {const_str(k): v for k, v in zip(pads[0].args[0].keys, pads[0].args[0].values)}
    gap = norm(ent.get("length"))
    ok_lit = const_str(ent.get("attr")) == "p" and isinstance(ent.get("length"), ast.Name) and set(ent) == {"attr", "length", "path"}
    ctx.decide("C15.1", fn, ok_lit, "padding entry is {attr: 'p', length: gap, path: ...}", "padding entry literal is %s" % norm(pads[0].args[0]), pads[0])
    same_list = norm(real[0].func.value) == norm(pads[0].func.value)
    after = g.dominates(rn, pn) and same_list
    between = [a for a in apps if a not in (real[0], pads[0])]
    ctx.decide("C15.1", fn, after and not between, "the padding entry is appended to the same list directly after its file's entry",
               "the padding entry does not directly follow its file's entry in info.files", norm(pads[0]) + " :: position")
    conds = [(C.test_expr(b), lab) for b, lab in g.direct_control_deps(pn) if C.test_expr(b) is not None and b.kind == "test"]
    ok_guard = len(conds) == 1 and ((norm(conds[0][0]) == gap and conds[0][1] == "true") or (norm(conds[0][0]) in ("%s > 0" % gap, "%s != 0" % gap) and conds[0][1] == "true"))
    ctx.decide("C15.1", fn, ok_guard, "the padding entry is appended iff the gap is non-zero", "the padding entry is appended under %s" % [(norm(t), l) for t, l in conds], norm(pads[0]) + " :: guard")
    # ---- C15.2 gap arithmetic over the four cells
    # size variable: getsize of the loop variable
    sdefs = [st for st in loop.body if isinstance(st, ast.Assign) and isinstance(st.value, ast.Call) and C.is_ext_call(ctx, st.value, fn, ("os.path.getsize",))]
    if len(sdefs) != 1:
        ctx.undecided("C15.2", fn, "file size definition not found in the aligned loop")
        return
    S = norm(sdefs[0].targets[0])
    rlen = norm({const_str(k): v for k, v in zip(real[0].args[0].keys, real[0].args[0].values)}.get("length"))
    ctx.decide("C15.2", fn, rlen == S, "the file entry records the same size the gap is computed from", "the file entry records %s but the gap is computed from %s" % (rlen, S), real[0])
    for cell in CELLS:
        label = "cell %s, %s" % cell
        try:
            val = eval_gap(loop.body, gap, cell, S, P)
        except Unknown as exc:
            ctx.undecided("C15.2", fn, "%s: gap expression outside the abstract domain (%s)" % (label, exc), "gap :: " + label)
            continue
        want = 0 if cell[1] == "r=0" else "P-r"
        desc = {0: "0 (no padding entry)", "P-r": "P - r", "r": "r", "P": "a full piece P", "S": "S"}.get(val, str(val))
        wdesc = "0 (no padding entry)" if want == 0 else "P - r"
        ex = {("q=0", "r=0"): "an empty file", ("q=0", "r>0"): "a file shorter than a piece", ("q>=1", "r=0"): "a file of whole pieces", ("q>=1", "r>0"): "e.g. 16389 bytes with 16384-byte pieces"}[cell]
        ctx.decide("C15.2", fn, val == want, "%s (S = q*P + r): gap = %s" % (label, desc),
                   "%s (%s): the padding length is %s, must be %s - the listed lengths no longer add up to the pieces that are hashed" % (label, ex, desc, wdesc), "gap :: " + label)
    # ---- C15.3 flag agreement
    hc = [n for n in own_nodes(fn.node) if isinstance(n, ast.Call) and any(k[0] == "class" and k[1].name == "Hasher" for k in ctx.res.kinds(n.func, fn))]
    kwname = None
    for kw in (hc[0].keywords if hc else []):
        if kw.arg is None:
            kwname = norm(kw.value)
    lit = [n for n in own_nodes(fn.node) if isinstance(n, ast.Assign) and norm(n.targets[0]) == kwname and isinstance(n.value, ast.Dict)]
    ok = False
    if lit:
        d = {const_str(k): norm(v) for k, v in zip(lit[0].value.keys, lit[0].value.values)}
        ok = d.get("align") == "self.align"
    direct = any(kw.arg == "align" and norm(kw.value) == "self.align" for kw in (hc[0].keywords if hc else []))
    ctx.decide("C15.3", fn, ok or direct, "the hasher receives align = self.align", "the hasher does not receive the align flag that controls the listing", hc[0] if hc else fn.node)
    ln = g.of[loop]
    tests = [(norm(C.test_expr(b)), lab) for b, lab in g.control_deps(ln) if C.test_expr(b) is not None]
    sel = any((t == "not self.align" and lab == "false") or (t == "self.align" and lab == "true") for t, lab in tests)
    ctx.decide("C15.3", fn, sel, "the padded listing is selected by the same self.align", "the padded listing is selected by %s" % tests, loop.iter)
    # single file: align forced off before hashing
    offs = [n for n in own_nodes(fn.node) if isinstance(n, ast.Assign) and isinstance(n.targets[0], ast.Subscript) and norm(n.targets[0].value) == kwname
            and const_str(n.targets[0].slice) == "align" and isinstance(n.value, ast.Constant) and n.value.value is False]
    ok = False
    for o in offs:
        on = C.stmt_node(ctx, fn, o)
        isf = any("isfile(self.path)" in norm(C.test_expr(b)) and lab == "true" for b, lab in g.control_deps(on) if C.test_expr(b) is not None)
        before = hc and C.stmt_node(ctx, fn, hc[0]) in g.reachable(on)
        ok = ok or (isf and before)
    ctx.decide("C15.3", fn, ok, "single file: only 'length' is recorded and zero-extension is switched off before hashing",
               "a single aligned file is hashed with zero-extension although only its length is recorded: its last piece cannot be verified", "single-file align off")
    # the hasher's align arm
    hcls = ctx.prog.cls("torrentfile.hasher:Hasher")
    hp = hcls.methods["_handle_partial"]
    init = hcls.methods["__init__"]
    st = [n for n in own_nodes(init.node) if isinstance(n, ast.Assign) and norm(n.targets[0]) == "self.align"]
    ctx.decide("C15.3", init, len(st) == 1 and norm(st[0].value) == "align", "Hasher stores the align argument", "Hasher does not store its align argument unchanged", st[0] if st else init.node)
    arm = [n for n in hp.node.body if isinstance(n, ast.If) and norm(n.test) == "self.align"]
    arr = [p for p in hp.params if p != hp.self_name][0]
    if len(arm) != 1:
        ctx.undecided("C15.3", hp, "align arm of _handle_partial not found")
    else:
        body = arm[0].body
        consts = module_consts(hcls.module)
        ext = [x for s in body for x in ast.walk(s) if isinstance(x, ast.Call) and isinstance(x.func, ast.Attribute) and x.func.attr == "extend" and norm(x.func.value) == arr]
        amount = None
        if len(ext) == 1:
            a = ext[0].args[0]
            if isinstance(a, ast.Name):
                vals = [s.value for s in body if isinstance(s, ast.Assign) and norm(s.targets[0]) == a.id]
                a = vals[0] if len(vals) == 1 else a
            if isinstance(a, ast.Call) and norm(a.func) in ("bytearray", "bytes") and len(a.args) == 1:
                n_ = a.args[0]
                if isinstance(n_, ast.Name):
                    vals = [s.value for s in body if isinstance(s, ast.Assign) and norm(s.targets[0]) == n_.id]
                    n_ = vals[0] if len(vals) == 1 else n_
                amount = lin_of(n_, consts)
        want = Lin.atom("self.piece_length").sub(Lin.atom("len(%s)" % arr))
        ctx.decide("C15.3", hp, amount == want, "align arm zero-extends the short piece by piece_length - len(piece)",
                   "align arm extends the short piece by %s zero bytes; must be %s" % (amount, want), arm[0])
        rets = [s for s in body if isinstance(s, ast.Return)]
        ok = len(rets) == 1 and norm(rets[0].value) == "sha1(%s).digest()" % arr
        reads_next = any(isinstance(x, ast.Call) and norm(x.func).endswith("next_file") for s in body for x in ast.walk(s))
        ctx.decide("C15.3", hp, ok and not reads_next, "align arm returns the SHA-1 of the zero-extended piece without opening the next file",
                   "align arm does not simply return sha1 of the zero-extended piece", rets[0] if rets else arm[0])


def eval_gap(body, gap, cell, S, P):
    """Value of variable `gap` after the statements of the loop body, in the given cell."""
    env = {}

    def run(stmts):
        for st in stmts:
            if isinstance(st, ast.Assign) and len(st.targets) == 1 and isinstance(st.targets[0], ast.Name):
                name = st.targets[0].id
                if name == S:
                    continue
                try:
                    env[name] = ev(st.value, cell, S, P, env)
                except Unknown:
                    if name == gap:
                        raise
                    env.pop(name, None)
            elif isinstance(st, ast.If):
                uses_gap = any(isinstance(x, ast.Assign) and any(isinstance(t, ast.Name) and t.id == gap for t in x.targets) for x in ast.walk(st))
                if not uses_gap:
                    continue
                t = truth(st.test, cell, S, P, env)
                run(st.body if t else st.orelse)
    run(body)
    if gap not in env:
        raise Unknown("no definition of %s" % gap)
    v = env[gap]
    if cell[1] == "r=0":
        v = {"r": 0, "P-r": "P"}.get(v, v)
    return v


MUTANTS = MUT_C15
QUICK_CANARIES = True
CLAIM = {
    "text": "Partial: the padding length expression is evaluated over an exhaustive four-cell abstract domain (S = q*P + r) and must equal the gap to the next piece boundary in each; the "
            "listing shape (position, marker, guard), the agreement of the align flag between listing and hasher, the single-file exemption and the hasher's zero-extension arm are decided. "
            "The SHA-1 of the padded stream for every size is not.",
    "note": "Not decided: byte-level behaviour of the hasher beyond the align arm's facts. Expressions outside the abstract domain are undecided.",
    "technique": "abstract evaluation of the gap expression over the q/r cells, shape facts via CFG dominance / control dependence, integer-linear normal form of the zero-extension",
    "design_ref": "DESIGN.md section 4, C15",
}
