"""C15 - piece-aligned v1 metafiles: padding entries account exactly for the pieces."""
import ast

from tfsa.loader import own_nodes, AnalysisError
from tfsa.report import norm
from tfsa.resolve import const_str
from . import common as C
from .linear import Lin, lin_of, module_consts
from .hash_mutants import MUT_C15

PROP = "C15"
EXPLANATION = (
    "Partial. Not decided: the hasher's byte arithmetic for all sizes. Decided: C15.1 padding entries are marked attr='p', go to the same "
    "list as the file entries and are appended only with the align switch on; C15.2 one iteration of the listing loop is simulated, with the "
    "switch on, over the four cells of S = q*P + r (q = 0 | q >= 1) x (r = 0 | 0 < r < P) - an exhaustive abstract domain for integer-linear "
    "expressions over S and P with %, //, comparisons and conditionals - and must list the file with length S followed by a padding entry of "
    "length P - r exactly when r > 0 (whichever way the loop spells gap and guard); C15.3 flag agreement by worlds: for a directory the hasher "
    "receives self.align, for a single file (only 'length' recorded) it receives False; and what the v1 hasher hashes after a short, non-empty "
    "read with the switch on is computed as a symbolic byte sequence (bytes read, n zero bytes, stale bytes of a reused buffer) through extend / "
    "+ / ljust / sha1().update() / a whole fresh or object-held buffer, and must be the bytes read followed by piece_length - n zero bytes, "
    "without the next file being opened.")
RULE_TEXT = "one obligation per cell of the gap arithmetic, per shape fact of the listing and of the hasher's align arm"


# ---------------------------------------------------------------------------------------------- q/r cells
CELLS = [("q=0", "r=0"), ("q=0", "r>0"), ("q>=1", "r=0"), ("q>=1", "r>0")]


class Unknown(Exception):
    pass


class Poly:
    """Integer-linear form over the monomials 1, P, r, q, q*P  (S = q*P + r, 0 <= r < P, P > 0)."""
    MON = ("1", "P", "r", "q", "qP")

    def __init__(self, **kw):
        self.c = {m: kw.get(m, 0) for m in self.MON}

    def __add__(self, o):
        return Poly(**{m: self.c[m] + o.c[m] for m in self.MON})

    def __neg__(self):
        return Poly(**{m: -self.c[m] for m in self.MON})

    def __sub__(self, o):
        return self + (-o)

    def scale(self, k):
        return Poly(**{m: self.c[m] * k for m in self.MON})

    def times_P(self):
        if self.c["P"] or self.c["r"] or self.c["qP"]:
            raise Unknown("non-linear product")
        return Poly(P=self.c["1"], qP=self.c["q"])

    def is_const(self):
        return not any(self.c[m] for m in self.MON if m != "1")

    def key(self):
        return tuple(self.c[m] for m in self.MON)

    def __eq__(self, o):
        return isinstance(o, Poly) and self.key() == o.key()

    def __hash__(self):
        return hash(self.key())

    def __repr__(self):
        names = {"1": "", "P": "P", "r": "r", "q": "q", "qP": "q*P"}
        parts = []
        for m in self.MON:
            k = self.c[m]
            if not k:
                continue
            t = names[m]
            parts.append(("%d" % k) if not t else (t if k == 1 else ("-" + t if k == -1 else "%d*%s" % (k, t))))
        return " + ".join(parts).replace("+ -", "- ") or "0"


def restrict(p, cell):
    """Substitute what the cell knows: q = 0 and / or r = 0."""
    q, r = cell
    c = dict(p.c)
    if q == "q=0":
        c["q"] = 0
        c["qP"] = 0
    if r == "r=0":
        c["r"] = 0
    return Poly(**c)


def S_of(cell):
    return restrict(Poly(qP=1, r=1), cell)


def ev(e, cell, S, P, env):
    """Symbolic value (Poly) of an integer expression in a cell."""
    if isinstance(e, ast.Constant) and isinstance(e.value, int) and not isinstance(e.value, bool):
        return Poly(**{"1": e.value})
    if isinstance(e, (ast.Name, ast.Attribute)):
        t = norm(e)
        if t == S:
            return S_of(cell)
        if t == P:
            return Poly(P=1)
        if t in env:
            return env[t]
        raise Unknown(t)
    if isinstance(e, ast.UnaryOp) and isinstance(e.op, ast.USub):
        return -ev(e.operand, cell, S, P, env)
    if isinstance(e, ast.BinOp):
        if isinstance(e.op, (ast.Add, ast.Sub)):
            l, r = ev(e.left, cell, S, P, env), ev(e.right, cell, S, P, env)
            return restrict(l + r if isinstance(e.op, ast.Add) else l - r, cell)
        if isinstance(e.op, ast.Mult):
            l, r = ev(e.left, cell, S, P, env), ev(e.right, cell, S, P, env)
            if l.is_const():
                return r.scale(l.c["1"])
            if r.is_const():
                return l.scale(r.c["1"])
            if l == Poly(P=1):
                return restrict(r.times_P(), cell)
            if r == Poly(P=1):
                return restrict(l.times_P(), cell)
            raise Unknown(norm(e))
        if isinstance(e.op, (ast.Mod, ast.FloorDiv)):
            l, m = ev(e.left, cell, S, P, env), ev(e.right, cell, S, P, env)
            if m != Poly(P=1):
                raise Unknown(norm(e))
            quo, rem = divmod_P(l, cell)
            return rem if isinstance(e.op, ast.Mod) else quo
        raise Unknown(norm(e))
    if isinstance(e, ast.IfExp):
        return ev(e.body if truth(e.test, cell, S, P, env) else e.orelse, cell, S, P, env)
    if isinstance(e, ast.Call) and isinstance(e.func, ast.Name) and e.func.id == "divmod" and len(e.args) == 2:
        raise Unknown("divmod")
    raise Unknown(norm(e))


def divmod_P(v, cell):
    """(v // P, v % P) for v = a*P + d*q*P + e*q + b*r + c with 0 <= r < P (r > 0 or r = 0 per cell)."""
    if v.c["q"]:
        raise Unknown("bare q under division")
    a, d, b, c = v.c["P"], v.c["qP"], v.c["r"], v.c["1"]
    if c:
        raise Unknown("constant offset under division by P")
    whole = Poly(**{"1": a, "q": d})
    if b == 0:
        return whole, Poly()
    if b == 1:
        return whole, Poly(r=1)                      # 0 < r < P
    if b == -1:
        return whole - Poly(**{"1": 1}), Poly(P=1, r=-1)   # -r = -P + (P - r)
    raise Unknown("multiple of r under division by P")


def sign(v, cell):
    """'zero' | 'pos' | 'neg' for a Poly in a cell (using 0 < r < P when r > 0, q >= 1 when not 0)."""
    v = restrict(v, cell)
    if not any(v.c.values()):
        return "zero"
    q, r = cell
    a, d, e_, b, c = v.c["P"], v.c["qP"], v.c["q"], v.c["r"], v.c["1"]
    if e_ or c:
        # constants mixed with symbolic sizes: only decidable when everything else vanishes
        if not (a or d or b or e_):
            return "pos" if c > 0 else "neg"
        raise Unknown("sign of %r" % v)
    # v = (a + d*q) * P + b*r  with q >= 1 if present, 0 < r < P
    lo_q = 1
    if d >= 0:
        low = (a + d * lo_q)     # coefficient of P at least this
    else:
        low = None
    if b == 0:
        if d == 0:
            return "pos" if a > 0 else "neg"
        if d > 0 and a + d >= 1:
            return "pos"
        if d < 0 and a + d <= -1:
            return "neg"
        raise Unknown("sign of %r" % v)
    if d == 0:
        # a*P + b*r with 0 < r < P
        if a >= 1 and b >= -a:
            return "pos" if not (b == -a and False) else "pos"
        if a == 0:
            return "pos" if b > 0 else "neg"
        if a <= -1 and b <= -a:
            return "neg"
    if d > 0 and a + d >= 1 and b >= -(a + d):
        return "pos"
    if d > 0 and a + d == 0 and b > 0:
        # (q - 1) * d * P + b * r with q >= 1 and r > 0: at least b * r
        return "pos"
    if d < 0 and a + d == 0 and b < 0:
        return "neg"
    raise Unknown("sign of %r" % v)


FLAGS = {}          # boolean switches fixed during a simulation, e.g. {"self.align": True}


def truth(t, cell, S, P, env):
    if norm(t) in FLAGS:
        return FLAGS[norm(t)]
    if isinstance(t, ast.Compare) and len(t.ops) == 1:
        l = ev(t.left, cell, S, P, env)
        r = ev(t.comparators[0], cell, S, P, env)
        op = t.ops[0]
        d = restrict(l - r, cell)
        # S compared with P when S is a whole number of pieces (q >= 1, r = 0): S - P = (q-1)*P, sign unknown beyond >= 0
        if cell == ("q>=1", "r=0") and d == Poly(qP=1, P=-1):
            if isinstance(op, ast.GtE):
                return True
            if isinstance(op, ast.Lt):
                return False
            raise Unknown("S ? P is undetermined when S is a whole number of pieces")
        if cell == ("q>=1", "r=0") and d == Poly(qP=-1, P=1):
            if isinstance(op, ast.LtE):
                return True
            if isinstance(op, ast.Gt):
                return False
            raise Unknown("P ? S is undetermined when S is a whole number of pieces")
        sg = sign(d, cell)
        return {ast.Lt: sg == "neg", ast.LtE: sg in ("neg", "zero"), ast.Gt: sg == "pos", ast.GtE: sg in ("pos", "zero"),
                ast.Eq: sg == "zero", ast.NotEq: sg != "zero"}[type(op)]
    if isinstance(t, ast.UnaryOp) and isinstance(t.op, ast.Not):
        return not truth(t.operand, cell, S, P, env)
    if isinstance(t, ast.BoolOp):
        vals = [truth(v, cell, S, P, env) for v in t.values]
        return all(vals) if isinstance(t.op, ast.And) else any(vals)
    return sign(ev(t, cell, S, P, env), cell) != "zero"


def run(ctx):
    ctx.trust("hashlib.sha1; the hasher's byte-level behaviour for all sizes is NOT decided")
    # the padded stream is hashed to its end: the iteration stops at the exhaustion of the last file, not at a piece count
    # computed from the unpadded total
    from .c01 import end_of_iteration
    end_of_iteration(ctx, "C15.3", ctx.prog.cls("torrentfile.hasher:Hasher").methods["__next__"])
    cls = ctx.prog.cls("torrentfile.torrent:TorrentFile")
    fn = cls.methods["assemble"]
    g = C.cfg_of(fn)
    P = "self.piece_length"
    listing(ctx, fn, g, P)
    flag_agreement(ctx, fn, g)
    # the hasher's align arm
    hcls = ctx.prog.cls("torrentfile.hasher:Hasher")
    hp = hcls.methods["_handle_partial"]
    init = hcls.methods["__init__"]
    st = [n for n in own_nodes(init.node) if isinstance(n, ast.Assign) and norm(n.targets[0]) == "self.align"]
    ctx.decide("C15.3", init, len(st) == 1 and norm(st[0].value) == "align", "Hasher stores the align argument", "Hasher does not store its align argument unchanged", st[0] if st else init.node)
    aligned_short_read(ctx, hcls, hp)


def simulate(body, apps, cell, S, P, switch=True):
    """Entries one iteration of the listing loop appends for a file whose size lies in `cell`, with the align switch on:
    [(kind, length Poly)], kind = 'file' | 'pad'."""
    env, out = {}, []
    app_stmt = set(apps)

    class Skip(Exception):
        pass

    def contains(st, pred):
        return any(pred(x) for x in ast.walk(st))

    def run(stmts):
        for st in stmts:
            if isinstance(st, ast.Assign) and len(st.targets) == 1 and isinstance(st.targets[0], ast.Name):
                name = st.targets[0].id
                if name == S:
                    continue
                try:
                    env[name] = ev(st.value, cell, S, P, env)
                except Unknown:
                    env.pop(name, None)
                continue
            if isinstance(st, ast.If):
                relevant = contains(st, lambda x: x in app_stmt or isinstance(x, (ast.Continue, ast.Break, ast.Return)))
                try:
                    t = truth(st.test, cell, S, P, env)
                except Unknown:
                    if relevant:
                        raise
                    for x in ast.walk(st):
                        if isinstance(x, ast.Assign):
                            for tg in x.targets:
                                if isinstance(tg, ast.Name):
                                    env.pop(tg.id, None)
                    continue
                run(st.body if t else st.orelse)
                continue
            if isinstance(st, ast.Continue):
                raise Skip()
            if isinstance(st, (ast.Break, ast.Return)):
                raise Unknown("`%s` inside the listing loop" % norm(st))
            if isinstance(st, ast.Expr) and st.value in app_stmt:
                d = st.value.args[0]
                ent = {const_str(k): v for k, v in zip(d.keys, d.values)}
                kind = "pad" if "attr" in ent else "file"
                if ent.get("length") is None:
                    raise Unknown("entry without a length")
                out.append((kind, restrict(ev(ent["length"], cell, S, P, env), cell)))
                continue
            if contains(st, lambda x: x in app_stmt):
                raise Unknown("entry appended inside `%s`" % norm(st)[:40])
    FLAGS["self.align"] = switch
    try:
        run(body)
    except Skip:
        pass
    finally:
        FLAGS.clear()
    return out


def listing(ctx, fn, g, P):
    """C15.1 / C15.2: one iteration of the aligned listing loop, simulated over the four cells of S = q*P + r."""
    loops = [n for n in own_nodes(fn.node) if isinstance(n, ast.For) and any(isinstance(x, ast.Dict) and any(const_str(k) == "attr" for k in x.keys) for st in n.body for x in ast.walk(st))]
    if len(loops) != 1:
        ctx.undecided("C15.1", fn, "aligned listing loop (appending an entry with an 'attr' key) not found")
        return
    loop = loops[0]
    apps = [x for st in loop.body for x in ast.walk(st) if isinstance(x, ast.Call) and isinstance(x.func, ast.Attribute) and x.func.attr == "append" and x.args and isinstance(x.args[0], ast.Dict)]
    real = [a for a in apps if not any(const_str(k) == "attr" for k in a.args[0].keys)]
    pads = [a for a in apps if any(const_str(k) == "attr" for k in a.args[0].keys)]
    if not real or not pads:
        ctx.undecided("C15.1", fn, "expected a file entry and a padding entry appended in the aligned loop")
        return
    for pd in pads:
        ent = {const_str(k): v for k, v in zip(pd.args[0].keys, pd.args[0].values)}
        ok_lit = const_str(ent.get("attr")) == "p" and set(ent) == {"attr", "length", "path"}
        ctx.decide("C15.1", fn, ok_lit, "padding entry is {attr: 'p', length: gap, path: ...}", "padding entry literal is %s" % norm(pd.args[0]), pd)
    same_list = len({norm(a.func.value) for a in apps}) == 1
    ctx.decide("C15.1", fn, same_list, "file entries and padding entries are appended to one list", "file entries and padding entries go to different lists: %s" % sorted({norm(a.func.value) for a in apps}),
               norm(pads[0]) + " :: position")
    # the padded listing is reached only with the switch on (and is reached with it on)
    pn = C.stmt_node(ctx, fn, pads[0])

    def flag(v):
        return lambda x: v if (isinstance(x, ast.Attribute) and x.attr == "align") else None
    off, on = C.reach_under(g, g.entry, flag(False)), C.reach_under(g, g.entry, flag(True))
    rent = {const_str(k): v for k, v in zip(real[0].args[0].keys, real[0].args[0].values)}
    if pn in off and pn in on and isinstance(rent.get("length"), ast.Name):
        # no test on the switch stands in the way; the switch may still decide through a value (gap = ... if self.align else 0):
        # evaluate one iteration with the switch off
        verdict = True
        for cell in CELLS:
            try:
                got = simulate(loop.body, apps, cell, rent["length"].id, P, switch=False)
            except Unknown as exc:
                verdict = None
                why = str(exc)
                break
            if any(k == "pad" and v != Poly() for k, v in got):
                verdict = False
                break
        if verdict is None:
            ctx.undecided("C15.3", fn, "whether padding entries are listed with self.align off could not be evaluated (%s)" % why, loop.iter)
        else:
            ctx.decide("C15.3", fn, verdict, "with self.align off one iteration lists no padding entry (evaluated over the size cells)",
                       "padding entries are appended although self.align is off", loop.iter)
    else:
        ctx.decide("C15.3", fn, pn not in off and pn in on, "padding entries are appended only when self.align is set",
                   "padding entries are %s" % ("appended although self.align is off" if pn in off else "never appended when self.align is on"), loop.iter)
    # the size the entries are computed from: the recorded length of the file entry
    if not isinstance(rent.get("length"), ast.Name):
        ctx.undecided("C15.2", fn, "the file entry's length `%s` is not a size variable" % norm(rent.get("length")), real[0])
        return
    S = rent["length"].id
    for cell in CELLS:
        label = "cell %s, %s" % cell
        try:
            got = simulate(loop.body, apps, cell, S, P)
        except Unknown as exc:
            ctx.undecided("C15.2", fn, "%s: the listing loop is outside the abstract domain (%s)" % (label, exc), "gap :: " + label)
            continue
        size = S_of(cell)
        gapw = Poly() if cell[1] == "r=0" else Poly(P=1, r=-1)
        want = [("file", size)] + ([("pad", gapw)] if cell[1] != "r=0" else [])
        ex = {("q=0", "r=0"): "an empty file", ("q=0", "r>0"): "a file shorter than a piece", ("q>=1", "r=0"): "a file of whole pieces", ("q>=1", "r>0"): "e.g. 16389 bytes with 16384-byte pieces"}[cell]

        def desc(seq):
            return ", ".join("%s entry of length %s" % (k, "a full piece P" if v == Poly(P=1) else repr(v)) for k, v in seq) or "nothing"
        ok = got == want or (cell[1] == "r=0" and got == want + [("pad", Poly())])
        ctx.decide("C15.2", fn, ok, "%s (S = q*P + r): one iteration lists %s" % (label, desc(got)),
                   "%s (%s): one iteration lists %s; must be %s - the listed lengths no longer add up to the pieces that are hashed" % (label, ex, desc(got), desc(want)), "gap :: " + label)


def _flag_value(e, atom):
    """Value of the align argument expression under `atom`: True / False / 'self.align' / None (not understood)."""
    if isinstance(e, ast.Constant) and isinstance(e.value, bool):
        return e.value
    if isinstance(e, ast.Attribute) and e.attr == "align" and isinstance(e.value, ast.Name):
        return "self.align"
    if isinstance(e, ast.IfExp):
        t = C.eval3(e.test, atom)
        if t is None:
            return None
        return _flag_value(e.body if t else e.orelse, atom)
    if isinstance(e, ast.BoolOp) and isinstance(e.op, ast.And):
        vals = []
        for v in e.values:
            t = C.eval3(v, atom)
            vals.append(t if t is not None else _flag_value(v, atom))
        if any(v is False for v in vals):
            return False
        rest = [v for v in vals if v is not True]
        return rest[0] if len(rest) == 1 else (True if not rest else None)
    return None


def flag_agreement(ctx, fn, g):
    """C15.3: the hasher is constructed with align = self.align for a directory, and with align off for a single file
    (only 'length' is recorded for it, so a zero-extended last piece could never be verified)."""
    hc = [n for n in own_nodes(fn.node) if isinstance(n, ast.Call) and any(k[0] == "class" and k[1].name == "Hasher" for k in ctx.res.kinds(n.func, fn))]
    if len(hc) != 1:
        ctx.undecided("C15.3", fn, "expected one construction of the v1 hasher in assemble, found %d" % len(hc))
        return
    hn = C.stmt_node(ctx, fn, hc[0])
    kwname = None
    sources = []        # (expr, cfg node | None)
    for kw in hc[0].keywords:
        if kw.arg is None:
            kwname = norm(kw.value)
        elif kw.arg == "align":
            sources.append((kw.value, None))
    stores = []
    if kwname is not None and not sources:
        for n in own_nodes(fn.node):
            if isinstance(n, ast.Assign) and norm(n.targets[0]) == kwname and isinstance(n.value, ast.Dict):
                for k, v in zip(n.value.keys, n.value.values):
                    if const_str(k) == "align":
                        sources.append((v, C.stmt_node(ctx, fn, n)))
            if isinstance(n, ast.Assign) and isinstance(n.targets[0], ast.Subscript) and norm(n.targets[0].value) == kwname and const_str(n.targets[0].slice) == "align":
                stores.append((n.value, C.stmt_node(ctx, fn, n)))
    if len(hc[0].args) > 2 and not sources:
        sources.append((hc[0].args[2], None))
    if not sources and stores:
        # the display has no 'align' entry; it is put there by a store that every path to the construction passes
        always = [st_ for st_ in stores if st_[1] is not None and g.dominates(st_[1], hn)]
        if always:
            sources.append(always[0])
            stores = [st_ for st_ in stores if st_ is not always[0]]
    if len(sources) != 1:
        ctx.undecided("C15.3", fn, "the align argument of the hasher could not be located (%d candidate expressions)" % len(sources), hc[0])
        return
    # names holding os.path.isfile(<content path>)
    single_names = set()
    for name, bl in ctx.res.bindings(fn).items():
        vals = [p_ for w_, p_ in bl if w_ == "value"]
        if len(vals) == 1 and len(bl) == 1 and isinstance(vals[0], ast.Call) and C.is_ext_call(ctx, vals[0], fn, ("os.path.isfile",)):
            single_names.add(name)

    def world(single):
        def atom(x):
            if isinstance(x, ast.Call) and C.is_ext_call(ctx, x, fn, ("os.path.isfile",)):
                return single
            if isinstance(x, ast.Call) and C.is_ext_call(ctx, x, fn, ("os.path.isdir",)):
                return not single
            if isinstance(x, ast.Name) and x.id in single_names:
                return single
            return None
        return atom
    for single in (True, False):
        atom = world(single)
        live = C.reach_under(g, g.entry, atom)
        if hn not in live:
            ctx.undecided("C15.3", fn, "the hasher construction is not reached for a %s" % ("single file" if single else "directory"), hc[0])
            continue
        val = _flag_value(sources[0][0], atom)
        which = norm(sources[0][0])
        decided = True
        for v, sn in stores:
            if sn in live and hn in g.reachable(sn):
                # a store on some path: it decides the value only if no path under this world avoids it
                if hn in C.reach_under(g, g.entry, atom, stop=[sn]):
                    decided = False
                val, which = _flag_value(v, atom), norm(ctx.prog.enclosing_stmt(v))
        if not decided or val is None:
            ctx.undecided("C15.3", fn, "the align value the hasher receives for a %s could not be evaluated (`%s`)" % ("single file" if single else "directory", which), hc[0])
            continue
        if single:
            ctx.decide("C15.3", fn, val is False, "single file: only 'length' is recorded and zero-extension is switched off before hashing",
                       "a single aligned file is hashed with zero-extension although only its length is recorded: its last piece cannot be verified", "single-file align off")
        else:
            ctx.decide("C15.3", fn, val == "self.align", "the hasher receives align = self.align", "the hasher does not receive the align flag that controls the listing: it receives %s" % val, hc[0])


def _align_truth(t, value=True):
    """Three-valued value of a test when self.align has the given value."""
    def atom(x):
        if isinstance(x, ast.Attribute) and x.attr == "align":
            return value
        return None
    return C.eval3(t, atom)


def aligned_short_read(ctx, hcls, hp):
    """C15.3, the hasher side: after a short, non-empty read with the align switch on, what is hashed is the bytes read
    followed by piece_length - n zero bytes - whichever way the code spells it (extending the slice, feeding a second
    update to the SHA-1 object, or hashing a fresh zero-filled read buffer whole)."""
    from tfsa.reach import ReachDefs
    from .c01 import buffer_info
    from .bytes_seq import Interp, Unknown, canon, show, N
    nx = hcls.methods["__next__"]
    consts = module_consts(hcls.module)
    g = C.cfg_of(nx)
    rdf = ReachDefs(nx, g)
    def self_attr(e, f_):
        return isinstance(e, ast.Attribute) and isinstance(e.value, ast.Name) and e.value.id == f_.self_name
    reads = [n for n in own_nodes(nx.node) if isinstance(n, ast.Assign) and isinstance(n.value, ast.Call) and isinstance(n.value.func, ast.Attribute) and n.value.func.attr == "readinto"
             and n.value.args and (isinstance(n.value.args[0], ast.Name) or self_attr(n.value.args[0], nx)) and isinstance(n.targets[0], ast.Name)]
    if len(reads) != 1 and not (reads and len({norm(r_) for r_ in reads}) == 1):
        ctx.undecided("C15.3", nx, "expected one readinto in the v1 hasher's __next__, found %d" % len(reads))
        return
    # (the same read written twice - once before a `while size == 0` loop and once in it - is one read)
    barg = reads[0].value.args[0]
    sz = reads[0].targets[0].id
    rn = C.stmt_node(ctx, nx, reads[0])
    read_nodes = [C.stmt_node(ctx, nx, r_) for r_ in reads]
    if isinstance(barg, ast.Name):
        buf = barg.id
        cap, fresh = buffer_info(ctx, nx, g, rdf, buf, rn)
    else:
        # a buffer kept on the object: allocated somewhere else, reused between reads
        from .c01 import _attr_alloc
        buf = "<self>." + barg.attr
        cap, fresh = _attr_alloc(ctx, nx, barg.attr), False

    def is_buf(e, f_):
        return (isinstance(e, ast.Name) and e.id == buf) or (self_attr(e, f_) and "<self>." + e.attr == buf)
    PL = Lin.atom("self.piece_length")
    want = canon([("data",), ("zeros", PL.sub(N))])

    def short_aligned(x):
        if isinstance(x, ast.Attribute) and x.attr == "align":
            return True
        if isinstance(x, ast.Compare) and len(x.ops) == 1 and norm(x.left) == sz:
            r, op = norm(x.comparators[0]), type(x.ops[0])
            if r == "self.piece_length":
                return {ast.Lt: True, ast.NotEq: True, ast.Eq: False, ast.GtE: False, ast.LtE: True, ast.Gt: False}.get(op)
            if r == "0":
                return {ast.Eq: False, ast.NotEq: True, ast.Gt: True, ast.LtE: False, ast.GtE: True, ast.Lt: False}.get(op)
        if isinstance(x, ast.Name) and x.id == sz:
            return True
        return None

    def is_sha1_in(fn):
        return lambda call: C.is_ext_call(ctx, call, fn, ("hashlib.sha1",))

    def whole_buffer():
        if cap is None:
            raise Unknown("capacity of the read buffer %r could not be determined" % buf)
        capl = lin_of(ast.parse(cap.replace(hp.self_name + ".", nx.self_name + "."), mode="eval").body, consts)
        if capl is None:
            raise Unknown("capacity %s of the read buffer is outside the term language" % cap)
        return [("data",), ("zeros", capl.sub(N))] if fresh else [("data",), ("stale",)]

    def hp_leaf(e):
        # the handler reads the very buffer of the object that __next__ filled
        if buf.startswith("<self>.") and is_buf(e, hp):
            return whole_buffer()
        return None

    def nx_leaf(e):
        if isinstance(e, ast.Subscript) and is_buf(e.value, nx) and isinstance(e.slice, ast.Slice) \
                and e.slice.lower is None and e.slice.step is None and norm(e.slice.upper) == sz:
            return [("data",)]
        if is_buf(e, nx):
            return whole_buffer()
        return None

    def nx_int(x):
        if isinstance(x, ast.Name) and x.id == sz:
            return N
        return None

    sites = 0
    after = set()
    for rn_ in read_nodes:
        after |= set(C.reach_under(g, rn_, short_aligned, stop=read_nodes))
    for r in [n for n in own_nodes(nx.node) if isinstance(n, ast.Return) and n.value is not None]:
        node = C.stmt_node(ctx, nx, r)
        if node is None or node not in after:
            continue            # not reached after a short non-empty read with align on
        sites += 1
        tests_ = [C.test_expr(b_) for b_, _l in g.control_deps(node) if C.test_expr(b_) is not None]
        from .c01 import _speaks_of_a_copy
        if tests_ and _speaks_of_a_copy(ctx, nx, tests_, sz):
            # the tests that select this return speak of a copy of the count (chunk_size = size): which return a short read
            # takes was not decided by them, so what this one hashes says nothing about the short aligned case
            ctx.undecided("C15.3", nx, "`%s` is selected by tests on a copy of the byte count %r; whether a short aligned read takes it is not decided" % (norm(r)[:50], sz), r)
            continue
        # statements of the same block that precede the return
        par = ctx.prog.parent.get(r)
        prefix = []
        for field in ("body", "orelse", "finalbody"):
            lst = getattr(par, field, None)
            if isinstance(lst, list) and r in lst:
                prefix = lst[:lst.index(r)]
        it = Interp(is_sha1_in(nx), nx_leaf, nx_int, consts)
        try:
            for st in prefix:
                try:
                    it.step(st)
                except Unknown:
                    pass            # a statement of the block that does not concern the digest; names it binds stay unknown
            v = r.value
            hp_call = isinstance(v, ast.Call) and any(t is hp for t in C.targets_of(ctx, nx, v))
            if hp_call:
                bound = {}
                ps = [p_ for p_ in hp.params if p_ != hp.self_name]
                for i_, a in enumerate(v.args):
                    if i_ < len(ps):
                        bound[ps[i_]] = a
                for kw in v.keywords:
                    if kw.arg in ps:
                        bound[kw.arg] = kw.value
                if set(bound) != set(ps):
                    raise Unknown("call of %s does not bind every parameter" % hp.name)
                vals = {}
                for p_, a in bound.items():
                    try:
                        vals[p_] = ("bytes", it.ev_bytes(a))
                    except Unknown:
                        vals[p_] = ("int", it.ev_int(a))
                got = partial_handler(ctx, hp, vals, consts, is_sha1_in(hp), hp_leaf)
            else:
                got = it.hashed(v)
        except Unknown as exc:
            ctx.undecided("C15.3", nx, "what `%s` hashes after a short read of an aligned torrent could not be followed: %s" % (norm(r)[:50], exc), r)
            continue
        except Continued as exc:
            ctx.violated("C15.3", hp, "align switch on, short piece: %s before the piece is complete - what completes it then depends on whether another file follows (its bytes, or nothing at all "
                         "after the last file), not on the zero bytes the padding entry stands for" % exc, r)
            continue
        got = canon(got)
        ctx.decide("C15.3", nx, got == want, "align switch on, short piece: `%s` hashes the bytes read followed by piece_length - n zero bytes" % norm(r)[:50],
                   "align switch on, short piece: `%s` hashes %s; the padded layout needs the bytes read + (self.piece_length - n) zero bytes" % (norm(r)[:50], show(got)), r)
    ctx.floor("returns of the v1 hasher reached after a short aligned read", 1, sites)


class Continued(Exception):
    pass


def partial_handler(ctx, hp, arg_parts, consts, is_sha1, leaf=None):
    """What the partial-piece handler hashes for `arg_parts` when self.align is on: follow its statements with the switch
    decided; a loop that opens the next file is the unaligned behaviour."""
    from .bytes_seq import Interp, Unknown
    it = Interp(is_sha1, leaf or (lambda e: None), lambda x: None, consts)
    for p_, (kind, val) in arg_parts.items():
        if kind == "bytes":
            it.bytes_env[p_] = list(val)
        else:
            it.int_env[p_] = val

    def run(stmts):
        for st in stmts:
            if isinstance(st, ast.If):
                t = _align_truth(st.test)
                if t is None:
                    raise Unknown("`if %s` is not decided by the align switch" % norm(st.test))
                res = run(st.body if t else st.orelse)
                if res is not None:
                    return res
                continue
            if isinstance(st, (ast.While, ast.For)):
                if any(isinstance(x, ast.Call) and norm(x.func).endswith("next_file") for x in ast.walk(st)):
                    raise Continued("%s reaches `%s`" % (hp.name, norm(st.test if isinstance(st, ast.While) else st.iter)[:60]))
                raise Unknown("loop `%s`" % norm(st)[:40])
            if isinstance(st, ast.Expr) and isinstance(st.value, ast.Call) and norm(st.value.func).endswith("next_file"):
                raise Continued("%s calls next_file()" % hp.name)
            res = it.step(st)
            if res is not None:
                return res
        return None
    res = run(hp.node.body)
    if res is None:
        raise Unknown("%s does not return a digest on the aligned path" % hp.name)
    return res


def eval_gap(body, gap, cell, S, P):
    """Value of variable `gap` after the statements of the loop body, in the given cell."""
    env = {}

    def run(stmts):
        for st in stmts:
            if isinstance(st, ast.Assign) and len(st.targets) == 1 and isinstance(st.targets[0], ast.Name):
                name = st.targets[0].id
                if name == S:
                    continue
                try:
                    env[name] = ev(st.value, cell, S, P, env)
                except Unknown:
                    if name == gap:
                        raise
                    env.pop(name, None)
            elif isinstance(st, ast.If):
                uses_gap = any(isinstance(x, ast.Assign) and any(isinstance(t, ast.Name) and t.id == gap for t in x.targets) for x in ast.walk(st))
                if not uses_gap:
                    continue
                t = truth(st.test, cell, S, P, env)
                run(st.body if t else st.orelse)
    run(body)
    if gap not in env:
        raise Unknown("no definition of %s" % gap)
    return restrict(env[gap], cell)


MUTANTS = MUT_C15
QUICK_CANARIES = True
CLAIM = {
    "text": "Partial: the padding length expression is evaluated over an exhaustive four-cell abstract domain (S = q*P + r) and must equal the gap to the next piece boundary in each; the "
            "listing shape (position, marker, guard), the agreement of the align flag between listing and hasher, the single-file exemption and the hasher's zero-extension arm are decided. "
            "The SHA-1 of the padded stream for every size is not.",
    "note": "Not decided: byte-level behaviour of the hasher beyond the align arm's facts. Expressions outside the abstract domain are undecided.",
    "technique": "abstract evaluation of the gap expression over the q/r cells, shape facts via CFG dominance / control dependence, integer-linear normal form of the zero-extension",
    "design_ref": "DESIGN.md section 4, C15",
}
