"""C15 - piece-aligned v1 metafiles: padding entries account exactly for the pieces."""
import ast

from tfsa.loader import own_nodes, AnalysisError
from tfsa.report import norm
from tfsa.resolve import const_str
from . import common as C
from .linear import Lin, lin_of, module_consts
from .hash_mutants import MUT_C15

PROP = "C15"
EXPLANATION = (
    "Partial. Not decided: the hasher's byte arithmetic for all sizes. Decided: C15.1 the padding entry is appended "
    "directly after its file's entry, only when the gap is non-zero, and is marked attr='p' with the gap as length; "
    "C15.2 gap arithmetic: the expression that defines the padding length is evaluated symbolically over the four cells "
    "of S = q*P + r (q = 0 | q >= 1) x (r = 0 | 0 < r < P) - an exhaustive abstract domain for expressions built from "
    "S, P, %, -, comparisons with P and conditionals - and must give 0 when r = 0 (the empty file included) and P - r "
    "otherwise; C15.3 flag agreement: the hasher receives the same align value that selects the padded listing, the "
    "single-file branch (only 'length' recorded) forces it off, and the hasher's align arm zero-extends a short piece to "
    "exactly piece_length (linear form) and returns its SHA-1 without reading the next file.")
RULE_TEXT = "one obligation per cell of the gap arithmetic, per shape fact of the listing and of the hasher's align arm"


# ---------------------------------------------------------------------------------------------- q/r cells
CELLS = [("q=0", "r=0"), ("q=0", "r>0"), ("q>=1", "r=0"), ("q>=1", "r>0")]


class Unknown(Exception):
    pass


class Poly:
    """Integer-linear form over the monomials 1, P, r, q, q*P  (S = q*P + r, 0 <= r < P, P > 0)."""
    MON = ("1", "P", "r", "q", "qP")

    def __init__(self, **kw):
        self.c = {m: kw.get(m, 0) for m in self.MON}

    def __add__(self, o):
        return Poly(**{m: self.c[m] + o.c[m] for m in self.MON})

    def __neg__(self):
        return Poly(**{m: -self.c[m] for m in self.MON})

    def __sub__(self, o):
        return self + (-o)

    def scale(self, k):
        return Poly(**{m: self.c[m] * k for m in self.MON})

    def times_P(self):
        if self.c["P"] or self.c["r"] or self.c["qP"]:
            raise Unknown("non-linear product")
        return Poly(P=self.c["1"], qP=self.c["q"])

    def is_const(self):
        return not any(self.c[m] for m in self.MON if m != "1")

    def key(self):
        return tuple(self.c[m] for m in self.MON)

    def __eq__(self, o):
        return isinstance(o, Poly) and self.key() == o.key()

    def __hash__(self):
        return hash(self.key())

    def __repr__(self):
        names = {"1": "", "P": "P", "r": "r", "q": "q", "qP": "q*P"}
        parts = []
        for m in self.MON:
            k = self.c[m]
            if not k:
                continue
            t = names[m]
            parts.append(("%d" % k) if not t else (t if k == 1 else ("-" + t if k == -1 else "%d*%s" % (k, t))))
        return " + ".join(parts).replace("+ -", "- ") or "0"


def restrict(p, cell):
    """Substitute what the cell knows: q = 0 and / or r = 0."""
    q, r = cell
    c = dict(p.c)
    if q == "q=0":
        c["q"] = 0
        c["qP"] = 0
    if r == "r=0":
        c["r"] = 0
    return Poly(**c)


def S_of(cell):
    return restrict(Poly(qP=1, r=1), cell)


def ev(e, cell, S, P, env):
    """Symbolic value (Poly) of an integer expression in a cell."""
    if isinstance(e, ast.Constant) and isinstance(e.value, int) and not isinstance(e.value, bool):
        return Poly(**{"1": e.value})
    if isinstance(e, (ast.Name, ast.Attribute)):
        t = norm(e)
        if t == S:
            return S_of(cell)
        if t == P:
            return Poly(P=1)
        if t in env:
            return env[t]
        raise Unknown(t)
    if isinstance(e, ast.UnaryOp) and isinstance(e.op, ast.USub):
        return -ev(e.operand, cell, S, P, env)
    if isinstance(e, ast.BinOp):
        if isinstance(e.op, (ast.Add, ast.Sub)):
            l, r = ev(e.left, cell, S, P, env), ev(e.right, cell, S, P, env)
            return restrict(l + r if isinstance(e.op, ast.Add) else l - r, cell)
        if isinstance(e.op, ast.Mult):
            l, r = ev(e.left, cell, S, P, env), ev(e.right, cell, S, P, env)
            if l.is_const():
                return r.scale(l.c["1"])
            if r.is_const():
                return l.scale(r.c["1"])
            if l == Poly(P=1):
                return restrict(r.times_P(), cell)
            if r == Poly(P=1):
                return restrict(l.times_P(), cell)
            raise Unknown(norm(e))
        if isinstance(e.op, (ast.Mod, ast.FloorDiv)):
            l, m = ev(e.left, cell, S, P, env), ev(e.right, cell, S, P, env)
            if m != Poly(P=1):
                raise Unknown(norm(e))
            quo, rem = divmod_P(l, cell)
            return rem if isinstance(e.op, ast.Mod) else quo
        raise Unknown(norm(e))
    if isinstance(e, ast.IfExp):
        return ev(e.body if truth(e.test, cell, S, P, env) else e.orelse, cell, S, P, env)
    if isinstance(e, ast.Call) and isinstance(e.func, ast.Name) and e.func.id == "divmod" and len(e.args) == 2:
        raise Unknown("divmod")
    raise Unknown(norm(e))


def divmod_P(v, cell):
    """(v // P, v % P) for v = a*P + d*q*P + e*q + b*r + c with 0 <= r < P (r > 0 or r = 0 per cell)."""
    if v.c["q"]:
        raise Unknown("bare q under division")
    a, d, b, c = v.c["P"], v.c["qP"], v.c["r"], v.c["1"]
    if c:
        raise Unknown("constant offset under division by P")
    whole = Poly(**{"1": a, "q": d})
    if b == 0:
        return whole, Poly()
    if b == 1:
        return whole, Poly(r=1)                      # 0 < r < P
    if b == -1:
        return whole - Poly(**{"1": 1}), Poly(P=1, r=-1)   # -r = -P + (P - r)
    raise Unknown("multiple of r under division by P")


def sign(v, cell):
    """'zero' | 'pos' | 'neg' for a Poly in a cell (using 0 < r < P when r > 0, q >= 1 when not 0)."""
    v = restrict(v, cell)
    if not any(v.c.values()):
        return "zero"
    q, r = cell
    a, d, e_, b, c = v.c["P"], v.c["qP"], v.c["q"], v.c["r"], v.c["1"]
    if e_ or c:
        # constants mixed with symbolic sizes: only decidable when everything else vanishes
        if not (a or d or b or e_):
            return "pos" if c > 0 else "neg"
        raise Unknown("sign of %r" % v)
    # v = (a + d*q) * P + b*r  with q >= 1 if present, 0 < r < P
    lo_q = 1
    if d >= 0:
        low = (a + d * lo_q)     # coefficient of P at least this
    else:
        low = None
    if b == 0:
        if d == 0:
            return "pos" if a > 0 else "neg"
        if d > 0 and a + d >= 1:
            return "pos"
        if d < 0 and a + d <= -1:
            return "neg"
        raise Unknown("sign of %r" % v)
    if d == 0:
        # a*P + b*r with 0 < r < P
        if a >= 1 and b >= -a:
            return "pos" if not (b == -a and False) else "pos"
        if a == 0:
            return "pos" if b > 0 else "neg"
        if a <= -1 and b <= -a:
            return "neg"
    if d > 0 and a + d >= 1 and b >= -(a + d):
        return "pos"
    raise Unknown("sign of %r" % v)


def truth(t, cell, S, P, env):
    if isinstance(t, ast.Compare) and len(t.ops) == 1:
        l = ev(t.left, cell, S, P, env)
        r = ev(t.comparators[0], cell, S, P, env)
        op = t.ops[0]
        d = restrict(l - r, cell)
        # S compared with P when S is a whole number of pieces (q >= 1, r = 0): S - P = (q-1)*P, sign unknown beyond >= 0
        if cell == ("q>=1", "r=0") and d == Poly(qP=1, P=-1):
            if isinstance(op, ast.GtE):
                return True
            if isinstance(op, ast.Lt):
                return False
            raise Unknown("S ? P is undetermined when S is a whole number of pieces")
        if cell == ("q>=1", "r=0") and d == Poly(qP=-1, P=1):
            if isinstance(op, ast.LtE):
                return True
            if isinstance(op, ast.Gt):
                return False
            raise Unknown("P ? S is undetermined when S is a whole number of pieces")
        sg = sign(d, cell)
        return {ast.Lt: sg == "neg", ast.LtE: sg in ("neg", "zero"), ast.Gt: sg == "pos", ast.GtE: sg in ("pos", "zero"),
                ast.Eq: sg == "zero", ast.NotEq: sg != "zero"}[type(op)]
    if isinstance(t, ast.UnaryOp) and isinstance(t.op, ast.Not):
        return not truth(t.operand, cell, S, P, env)
    if isinstance(t, ast.BoolOp):
        vals = [truth(v, cell, S, P, env) for v in t.values]
        return all(vals) if isinstance(t.op, ast.And) else any(vals)
    return sign(ev(t, cell, S, P, env), cell) != "zero"


def run(ctx):
    ctx.trust("hashlib.sha1; the hasher's byte-level behaviour for all sizes is NOT decided")
    # the padded stream is hashed to its end: the iteration stops at the exhaustion of the last file, not at a piece count
    # computed from the unpadded total
    from .c01 import end_of_iteration
    end_of_iteration(ctx, "C15.3", ctx.prog.cls("torrentfile.hasher:Hasher").methods["__next__"])
    cls = ctx.prog.cls("torrentfile.torrent:TorrentFile")
    fn = cls.methods["assemble"]
    g = C.cfg_of(fn)
    P = "self.piece_length"
    # the aligned listing loop: the loop that appends a literal with attr
    loops = [n for n in own_nodes(fn.node) if isinstance(n, ast.For) and any(isinstance(x, ast.Dict) and any(const_str(k) == "attr" for k in x.keys) for st in n.body for x in ast.walk(st))]
    if len(loops) != 1:
        ctx.undecided("C15.1", fn, "aligned listing loop (appending an entry with an 'attr' key) not found")
        return
    loop = loops[0]
    apps = [x for st in loop.body for x in ast.walk(st) if isinstance(x, ast.Call) and isinstance(x.func, ast.Attribute) and x.func.attr == "append" and x.args and isinstance(x.args[0], ast.Dict)]
    real = [a for a in apps if not any(const_str(k) == "attr" for k in a.args[0].keys)]
    pads = [a for a in apps if any(const_str(k) == "attr" for k in a.args[0].keys)]
    if len(real) != 1 or len(pads) != 1:
        ctx.undecided("C15.1", fn, "expected one file entry and one padding entry append in the aligned loop")
        return
    rn, pn = C.stmt_node(ctx, fn, real[0]), C.stmt_node(ctx, fn, pads[0])
    ent = {const_str(k): v for k, v in zip(pads[0].args[0].keys, pads[0].args[0].values)}
    gap = norm(ent.get("length"))
    ok_lit = const_str(ent.get("attr")) == "p" and isinstance(ent.get("length"), ast.Name) and set(ent) == {"attr", "length", "path"}
    ctx.decide("C15.1", fn, ok_lit, "padding entry is {attr: 'p', length: gap, path: ...}", "padding entry literal is %s" % norm(pads[0].args[0]), pads[0])
    same_list = norm(real[0].func.value) == norm(pads[0].func.value)
    after = g.dominates(rn, pn) and same_list
    between = [a for a in apps if a not in (real[0], pads[0])]
    ctx.decide("C15.1", fn, after and not between, "the padding entry is appended to the same list directly after its file's entry",
               "the padding entry does not directly follow its file's entry in info.files", norm(pads[0]) + " :: position")
    conds = [(C.test_expr(b), lab) for b, lab in g.direct_control_deps(pn) if C.test_expr(b) is not None and b.kind == "test"]
    ok_guard = len(conds) == 1 and ((norm(conds[0][0]) == gap and conds[0][1] == "true") or (norm(conds[0][0]) in ("%s > 0" % gap, "%s != 0" % gap) and conds[0][1] == "true"))
    ctx.decide("C15.1", fn, ok_guard, "the padding entry is appended iff the gap is non-zero", "the padding entry is appended under %s" % [(norm(t), l) for t, l in conds], norm(pads[0]) + " :: guard")
    # ---- C15.2 gap arithmetic over the four cells
    # size variable: getsize of the loop variable
    sdefs = [st for st in loop.body if isinstance(st, ast.Assign) and isinstance(st.value, ast.Call) and C.is_ext_call(ctx, st.value, fn, ("os.path.getsize",))]
    if len(sdefs) != 1:
        ctx.undecided("C15.2", fn, "file size definition not found in the aligned loop")
        return
    S = norm(sdefs[0].targets[0])
    rlen = norm({const_str(k): v for k, v in zip(real[0].args[0].keys, real[0].args[0].values)}.get("length"))
    ctx.decide("C15.2", fn, rlen == S, "the file entry records the same size the gap is computed from", "the file entry records %s but the gap is computed from %s" % (rlen, S), real[0])
    for cell in CELLS:
        label = "cell %s, %s" % cell
        try:
            val = eval_gap(loop.body, gap, cell, S, P)
        except Unknown as exc:
            ctx.undecided("C15.2", fn, "%s: gap expression outside the abstract domain (%s)" % (label, exc), "gap :: " + label)
            continue
        want = Poly() if cell[1] == "r=0" else Poly(P=1, r=-1)
        desc = "0 (no padding entry)" if val == Poly() else ("a full piece P" if val == Poly(P=1) else repr(val))
        wdesc = "0 (no padding entry)" if want == Poly() else "P - r"
        ex = {("q=0", "r=0"): "an empty file", ("q=0", "r>0"): "a file shorter than a piece", ("q>=1", "r=0"): "a file of whole pieces", ("q>=1", "r>0"): "e.g. 16389 bytes with 16384-byte pieces"}[cell]
        ctx.decide("C15.2", fn, val == want, "%s (S = q*P + r): gap = %s" % (label, desc),
                   "%s (%s): the padding length is %s, must be %s - the listed lengths no longer add up to the pieces that are hashed" % (label, ex, desc, wdesc), "gap :: " + label)
    # ---- C15.3 flag agreement
    hc = [n for n in own_nodes(fn.node) if isinstance(n, ast.Call) and any(k[0] == "class" and k[1].name == "Hasher" for k in ctx.res.kinds(n.func, fn))]
    kwname = None
    for kw in (hc[0].keywords if hc else []):
        if kw.arg is None:
            kwname = norm(kw.value)
    lit = [n for n in own_nodes(fn.node) if isinstance(n, ast.Assign) and norm(n.targets[0]) == kwname and isinstance(n.value, ast.Dict)]
    ok = False
    if lit:
        d = {const_str(k): norm(v) for k, v in zip(lit[0].value.keys, lit[0].value.values)}
        ok = d.get("align") == "self.align"
    direct = any(kw.arg == "align" and norm(kw.value) == "self.align" for kw in (hc[0].keywords if hc else []))
    ctx.decide("C15.3", fn, ok or direct, "the hasher receives align = self.align", "the hasher does not receive the align flag that controls the listing", hc[0] if hc else fn.node)
    ln = g.of[loop]
    tests = [(norm(C.test_expr(b)), lab) for b, lab in g.control_deps(ln) if C.test_expr(b) is not None]
    sel = any((t == "not self.align" and lab == "false") or (t == "self.align" and lab == "true") for t, lab in tests)
    ctx.decide("C15.3", fn, sel, "the padded listing is selected by the same self.align", "the padded listing is selected by %s" % tests, loop.iter)
    # single file: align forced off before hashing
    offs = [n for n in own_nodes(fn.node) if isinstance(n, ast.Assign) and isinstance(n.targets[0], ast.Subscript) and norm(n.targets[0].value) == kwname
            and const_str(n.targets[0].slice) == "align" and isinstance(n.value, ast.Constant) and n.value.value is False]
    ok = False
    for o in offs:
        on = C.stmt_node(ctx, fn, o)
        isf = any("isfile(self.path)" in norm(C.test_expr(b)) and lab == "true" for b, lab in g.control_deps(on) if C.test_expr(b) is not None)
        before = hc and C.stmt_node(ctx, fn, hc[0]) in g.reachable(on)
        ok = ok or (isf and before)
    ctx.decide("C15.3", fn, ok, "single file: only 'length' is recorded and zero-extension is switched off before hashing",
               "a single aligned file is hashed with zero-extension although only its length is recorded: its last piece cannot be verified", "single-file align off")
    # the hasher's align arm
    hcls = ctx.prog.cls("torrentfile.hasher:Hasher")
    hp = hcls.methods["_handle_partial"]
    init = hcls.methods["__init__"]
    st = [n for n in own_nodes(init.node) if isinstance(n, ast.Assign) and norm(n.targets[0]) == "self.align"]
    ctx.decide("C15.3", init, len(st) == 1 and norm(st[0].value) == "align", "Hasher stores the align argument", "Hasher does not store its align argument unchanged", st[0] if st else init.node)
    arm = [n for n in hp.node.body if isinstance(n, ast.If) and norm(n.test) == "self.align"]
    arr = [p for p in hp.params if p != hp.self_name][0]
    if len(arm) != 1:
        ctx.undecided("C15.3", hp, "align arm of _handle_partial not found")
    else:
        body = arm[0].body
        consts = module_consts(hcls.module)
        ext = [x for s in body for x in ast.walk(s) if isinstance(x, ast.Call) and isinstance(x.func, ast.Attribute) and x.func.attr == "extend" and norm(x.func.value) == arr]
        amount = None
        if len(ext) == 1:
            a = ext[0].args[0]
            if isinstance(a, ast.Name):
                vals = [s.value for s in body if isinstance(s, ast.Assign) and norm(s.targets[0]) == a.id]
                a = vals[0] if len(vals) == 1 else a
            if isinstance(a, ast.Call) and norm(a.func) in ("bytearray", "bytes") and len(a.args) == 1:
                n_ = a.args[0]
                if isinstance(n_, ast.Name):
                    vals = [s.value for s in body if isinstance(s, ast.Assign) and norm(s.targets[0]) == n_.id]
                    n_ = vals[0] if len(vals) == 1 else n_
                amount = lin_of(n_, consts)
        want = Lin.atom("self.piece_length").sub(Lin.atom("len(%s)" % arr))
        rets = [s for s in body if isinstance(s, ast.Return)]
        whole = None
        if not ext and len(rets) == 1:
            # alternative shape: the arm hashes the read buffer itself, whole - correct iff that buffer is piece_length
            # zero bytes allocated anew for the read that filled it (its tail is then the zero padding)
            whole = whole_buffer_arm(ctx, hcls, hp, rets[0])
        if whole is not None:
            okw, msg = whole
            if okw is None:
                ctx.undecided("C15.3", hp, msg, arm[0])
            else:
                ctx.decide("C15.3", hp, okw, msg, msg, arm[0])
            arr = whole_param(hp, rets[0]) or arr
        else:
            ctx.decide("C15.3", hp, amount == want, "align arm zero-extends the short piece by piece_length - len(piece)",
                       "align arm extends the short piece by %s zero bytes; must be %s" % (amount, want), arm[0])
        ok = len(rets) == 1 and norm(rets[0].value) == "sha1(%s).digest()" % arr
        reads_next = any(isinstance(x, ast.Call) and norm(x.func).endswith("next_file") for s in body for x in ast.walk(s))
        ctx.decide("C15.3", hp, ok and not reads_next, "align arm returns the SHA-1 of the zero-extended piece without opening the next file",
                   "align arm does not simply return sha1 of the zero-extended piece", rets[0] if rets else arm[0])


def whole_param(hp, ret):
    v = ret.value
    if isinstance(v, ast.Call) and isinstance(v.func, ast.Attribute) and v.func.attr == "digest" and isinstance(v.func.value, ast.Call) and v.func.value.args \
            and isinstance(v.func.value.args[0], ast.Name) and v.func.value.args[0].id in hp.params:
        return v.func.value.args[0].id
    return None


def whole_buffer_arm(ctx, hcls, hp, ret):
    """(verdict, text) for an align arm that hashes a parameter whole; None if the arm does not have that shape."""
    from tfsa.reach import ReachDefs
    from .c01 import buffer_info
    pname = whole_param(hp, ret)
    if pname is None:
        return None
    nx = hcls.methods["__next__"]
    idx = [p for p in hp.params if p != hp.self_name].index(pname)
    g = C.cfg_of(nx)
    rdf = ReachDefs(nx, g)
    verdicts = []
    for call in [n for n in own_nodes(nx.node) if isinstance(n, ast.Call) and any(t is hp for t in C.targets_of(ctx, nx, n))]:
        if idx >= len(call.args) or not isinstance(call.args[idx], ast.Name):
            return None, "the align arm hashes its parameter %r whole, but the caller passes `%s`" % (pname, norm(call.args[idx]) if idx < len(call.args) else "?")
        buf = call.args[idx].id
        reads = [n for n in own_nodes(nx.node) if isinstance(n, ast.Assign) and isinstance(n.value, ast.Call) and isinstance(n.value.func, ast.Attribute) and n.value.func.attr == "readinto"
                 and n.value.args and isinstance(n.value.args[0], ast.Name) and n.value.args[0].id == buf]
        if len(reads) != 1:
            return None, "the buffer handed to the align arm is not filled by exactly one readinto"
        cap, fresh = buffer_info(ctx, nx, g, rdf, buf, C.stmt_node(ctx, nx, reads[0]))
        if cap is None:
            return None, "capacity of the buffer handed to the align arm could not be determined"
        if cap != "self.piece_length":
            verdicts.append((False, "align arm hashes the whole read buffer, whose capacity is %s, not the piece length" % cap))
        elif not fresh:
            verdicts.append((False, "align arm hashes the whole read buffer, but that buffer is reused between reads: beyond the bytes just read it holds the previous piece, not zero padding"))
        else:
            verdicts.append((True, "align arm hashes the whole read buffer = the bytes read followed by zeros up to piece_length (the buffer is allocated anew for every read)"))
    if not verdicts:
        return None, "no call of the partial-piece handler found"
    bad = [v for v in verdicts if not v[0]]
    return bad[0] if bad else verdicts[0]


def eval_gap(body, gap, cell, S, P):
    """Value of variable `gap` after the statements of the loop body, in the given cell."""
    env = {}

    def run(stmts):
        for st in stmts:
            if isinstance(st, ast.Assign) and len(st.targets) == 1 and isinstance(st.targets[0], ast.Name):
                name = st.targets[0].id
                if name == S:
                    continue
                try:
                    env[name] = ev(st.value, cell, S, P, env)
                except Unknown:
                    if name == gap:
                        raise
                    env.pop(name, None)
            elif isinstance(st, ast.If):
                uses_gap = any(isinstance(x, ast.Assign) and any(isinstance(t, ast.Name) and t.id == gap for t in x.targets) for x in ast.walk(st))
                if not uses_gap:
                    continue
                t = truth(st.test, cell, S, P, env)
                run(st.body if t else st.orelse)
    run(body)
    if gap not in env:
        raise Unknown("no definition of %s" % gap)
    return restrict(env[gap], cell)


MUTANTS = MUT_C15
QUICK_CANARIES = True
CLAIM = {
    "text": "Partial: the padding length expression is evaluated over an exhaustive four-cell abstract domain (S = q*P + r) and must equal the gap to the next piece boundary in each; the "
            "listing shape (position, marker, guard), the agreement of the align flag between listing and hasher, the single-file exemption and the hasher's zero-extension arm are decided. "
            "The SHA-1 of the padded stream for every size is not.",
    "note": "Not decided: byte-level behaviour of the hasher beyond the align arm's facts. Expressions outside the abstract domain are undecided.",
    "technique": "abstract evaluation of the gap expression over the q/r cells, shape facts via CFG dominance / control dependence, integer-linear normal form of the zero-extension",
    "design_ref": "DESIGN.md section 4, C15",
}
