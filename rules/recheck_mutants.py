"""Mutants shared by C04 / C05 / C16 (edits of torrentfile/recheck.py on a scratch copy)."""

F = "torrentfile/recheck.py"

_NEXT_NEW = '''        while True:
            try:
                return self.process_current()
            except StopIteration as itererr:
                if not self.next_file():
                    raise StopIteration from itererr
'''
_NEXT_OLD = '''        try:
            return self.process_current()
        except StopIteration as itererr:
            if self.next_file():
                return self.process_current()
            raise StopIteration from itererr
'''
_ITER_NEW = '''            if os.path.exists(path):
                pieces = self.extract(path, partial)
            else:
                pieces = self._gen_padding(partial, total)
            for piece in pieces:
                if len(piece) == self.piece_length:
                    yield piece
                    partial = bytearray()
                else:
                    partial = piece
            self.progbar.close_out()
        if partial:
            yield partial
'''
_ITER_OLD = '''            if os.path.exists(path):
                for piece in self.extract(path, partial):
                    if (len(piece) == self.piece_length) or (i + 1 == len(
                            self.paths)):
                        yield piece
                    else:
                        partial = piece

            else:
                length = self.fileinfo[i]["length"]
                for pad in self._gen_padding(partial, length):
                    if len(pad) == self.piece_length:
                        yield pad
                    else:
                        partial = pad
            self.progbar.close_out()
'''


def m(name, rule, what, edits, canary=True, quick=False, expect="violated"):
    return {"name": name, "file": F, "expect": expect, "rule": rule, "canary": canary and expect == "violated", "quick": quick, "what": what, "edits": edits}


def _set(pref, items):
    out = []
    for name, rule, what, edits, *rest in items:
        kw = rest[0] if rest else {}
        r = rule if isinstance(rule, str) else rule.get(pref)
        if r is None:
            continue
        out.append(m(name, r, what, edits, **kw))
    return out


ITEMS = [
    ("G16-regress-unprotected-second-call", {"C04": "C04.2", "C16": "C16.4", "C05": "C05.3"}, "pinned-tree defect G16: process_current() called in the handler outside of any try",
     [(_NEXT_NEW, _NEXT_OLD)], {"quick": True}),
    ("G17-regress-last-file-special-case", {"C04": "C04.3", "C16": "C16.5", "C05": "C05.2"}, "pinned-tree defect G17: no flush after the loop, last-file special case on one branch only",
     [(_ITER_NEW, _ITER_OLD)], {"quick": True}),
    ("flush-removed", {"C04": "C04.3", "C16": "C16.5", "C05": "C05.2"}, "post-loop flush removed", [("        if partial:\n            yield partial\n", "")]),
    ("flush-only-if-full", {"C04": "C04.3", "C16": "C16.5"}, "post-loop flush only for full pieces", [("        if partial:\n            yield partial\n", "        if len(partial) == self.piece_length:\n            yield partial\n")]),
    ("short-piece-dropped", {"C04": "C04.3", "C16": "C16.5"}, "short pieces are not carried", [("                else:\n                    partial = piece\n            self.progbar.close_out()", "            self.progbar.close_out()")]),
    ("padding-not-continued", {"C04": "C04.3", "C16": "C16.5"}, "missing file restarts the piece", [("                pieces = self._gen_padding(partial, total)", "                pieces = self._gen_padding(bytearray(), total)")]),
    ("missing-file-skipped", {"C04": "C04.4"}, "absent v1 file skipped", [("            else:\n                pieces = self._gen_padding(partial, total)\n", "            else:\n                pieces = []\n")]),
    ("missing-v2-file-skipped", {"C04": "C04.4"}, "absent v2 file gets an empty stand-in", [("                self.hasher = self.Padder(self.length, self.piece_length)\n            return True", "                self.hasher = iter(())\n            return True")]),
    ("matched-counts-all", {"C04": "C04.1", "C16": "C16.2"}, "matched grows unconditionally", [("            if chunk == piece:\n                matching += size\n                matched += size", "            matching += size\n            matched += size"), ], {"quick": True}),
    ("matched-on-prefix", {"C04": "C04.1", "C16": "C16.2"}, "only the first 4 bytes are compared", [("            if chunk == piece:", "            if chunk[:4] == piece[:4]:")]),
    ("matched-or-empty", {"C04": "C04.1", "C16": "C16.2"}, "an empty recorded hash counts as match", [("            if chunk == piece:", "            if chunk == piece or not piece:")]),
    ("consumed-only-matched", {"C04": "C04.1", "C16": "C16.2"}, "denominator grows only for matching pieces", [("            consumed += size\n            matching = 0\n            if chunk == piece:\n                matching += size\n                matched += size", "            matching = 0\n            if chunk == piece:\n                consumed += size\n                matching += size\n                matched += size")]),
    ("result-rounded-up", {"C04": "C04.1", "C16": "C16.2"}, "result rounded up", [("        self._result = (matched / consumed) * 100 if consumed > 0 else 0", "        self._result = round((matched + consumed - 1) / consumed) * 100 if consumed > 0 else 0")]),
    ("results-stops-early", {"C04": "C04.1", "C16": "C16.2"}, "results() stops after 1000 pieces", [("        for response in self.iter_hashes():\n            responses.append(response)", "        for response in self.iter_hashes():\n            responses.append(response)\n            if len(responses) > 1000:\n                break")]),
    ("weight-by-piece-length", {"C16": "C16.1"}, "v1 weights every piece with the full piece length", [("        return chunck, piece, path, len(partial)", "        return chunck, piece, path, self.piece_length")], {"quick": True}),
    ("slice-width-32-v1", {"C04": "C04.5", "C16": "C16.3"}, "v1 recorded slice 32 bytes wide", [("        end = start + SHA1\n", "        end = start + SHA256\n")]),
    ("slice-stride-wrong", {"C04": "C04.5", "C16": "C16.3"}, "v2 stride 20", [("        start = self.count * SHA256", "        start = self.count * SHA1")]),
    ("counter-double-step", {"C04": "C04.5", "C16": "C16.3"}, "v1 counter advances by two", [("        self.piece_count += 1", "        self.piece_count += 2")]),
    ("counter-before-slice", {"C04": "C04.5", "C16": "C16.3"}, "v2 counter advances before the slice", [("        start = self.count * SHA256\n        end = start + SHA256\n        piece = self.pieces[start:end]\n        self.count += 1", "        self.count += 1\n        start = self.count * SHA256\n        end = start + SHA256\n        piece = self.pieces[start:end]")]),
    ("v1-compares-sha256", {"C04": "C04.5", "C16": "C16.3"}, "v1 computed side uses sha256", [("        chunck = sha1(partial).digest()  # nosec", "        chunck = sha256(partial).digest()  # nosec")]),
    ("advance-size-swapped", {"C16": "C16.1"}, "v2 last piece counted with full piece length", [("            size = self.length\n            self.length -= self.length", "            size = self.piece_length\n            self.length -= self.length")]),
    ("advance-remaining-not-decreased", {"C16": "C16.1"}, "remaining length not decreased for full pieces", [("            self.length -= self.piece_length\n            size = self.piece_length", "            size = self.piece_length")]),
    ("find-root-parent-only", {"C05": "C05.1"}, "content path must be the parent directory", [("        if root.name == self.name:\n            self.log_msg(\"Content found: %s.\", str(root))\n            return root\n\n", "")], {"quick": True}),
    ("v1-padding-entries-skipped", {"C05": "C05.1"}, "padding entries are not mapped to paths", [("            for i, item in enumerate(self.info[\"files\"]):\n                self.total += item[\"length\"]", "            for i, item in enumerate(self.info[\"files\"]):\n                if item.get(\"attr\") == \"p\":\n                    continue\n                self.total += item[\"length\"]")]),
    ("hybrid-uses-v1-files", {"C05": "C05.1"}, "hybrid checked through info.files", [("        if self.meta_version == 1:\n            for i, item", "        if self.meta_version in (1, 3):\n            for i, item")]),
    ("tree-walk-drops-partials", {"C05": "C05.1"}, "nested directories lose their prefix", [("                self.walk_file_tree(val, partials + [key])", "                self.walk_file_tree(val, [key])")]),
    ("pieces-root-unguarded", {"C05": "C05.1"}, "pieces root read for empty files", [("                roothash = None if not length else val[\"\"][\"pieces root\"]", "                roothash = val[\"\"][\"pieces root\"]")]),
    ("layer-predicate-non-strict", {"C05": "C05.1"}, "length >= piece length looks up piece layers", [("            if self.length > self.piece_length:\n                self.pieces = self.piece_layers[self.root_hash]", "            if self.length >= self.piece_length:\n                self.pieces = self.piece_layers[self.root_hash]")]),
    ("G22-regress-single-file-by-length-only", {"C05": "C05.1"}, "defect G22 (repaired): single file decided by info.length alone",
     [("            if leaf is not None and os.path.isfile(self.root):\n                length = leaf[\"length\"]\n", "            if leaf is not None and os.path.isfile(self.root):\n                length = None\n"),
      ("        length = self.info.get(\"length\")\n        if length is None and self.meta_version > 1:", "        length = self.info.get(\"length\")\n        if False:")], {"quick": True}),
    ("G29-regress-directory-taken-for-single-file", {"C05": "C05.1"}, "defect G29 (repaired): a directory named like the torrent is returned for a single-file torrent",
     [("        if root.name == self.name and not single:", "        if root.name == self.name:")], {"quick": True}),
    ("find-root-accepts-any-directory", {"C05": "C05.1"}, "name comparison dropped", [("        if root.name == self.name and not single:", "        if not single:")]),
    ("benign-find-root-basename", {"C05": "C05"}, "os.path.basename instead of Path.name", [("        if root.name == self.name and not single:", "        if os.path.basename(root) == self.name and not single:")], {"expect": "clean"}),
    ("benign-while-rewritten", {"C04": "C04", "C16": "C16", "C05": "C05"}, "iterator loop with explicit flag",
     [(_NEXT_NEW, "        done = False\n        while not done:\n            try:\n                return self.process_current()\n            except StopIteration as itererr:\n                if not self.next_file():\n                    done = True\n                    raise StopIteration from itererr\n")], {"expect": "clean"}),
    ("benign-flush-len", {"C04": "C04", "C16": "C16", "C05": "C05"}, "flush guarded by len() > 0", [("        if partial:\n            yield partial\n", "        if len(partial) > 0:\n            yield partial\n")], {"expect": "clean"}),
    ("benign-result-reassociated", {"C04": "C04", "C16": "C16"}, "100 * matched / consumed", [("        self._result = (matched / consumed) * 100 if consumed > 0 else 0", "        self._result = 100 * (matched / consumed) if consumed > 0 else 0")], {"expect": "clean"}),
]

MUT_C04 = _set("C04", ITEMS)
MUT_C16 = _set("C16", ITEMS)
MUT_C05 = _set("C05", ITEMS)
