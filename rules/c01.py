"""C01 - the v1 piece string is the BEP 3 hashing of exactly the files on disk (structural clauses)."""
import ast

from tfsa.loader import own_nodes, AnalysisError
from tfsa.reach import ReachDefs
from tfsa.report import norm
from tfsa.resolve import const_str
from . import common as C
from .linear import Lin, lin_of, module_consts
from .hash_mutants import MUT_C01

PROP = "C01"
EXPLANATION = (
    "Partial. The SHA-1 of the stitched stream for every combination of file sizes is a run-time value and is not "
    "decided. Decided are the clauses that are def-use and shape facts: C01.1 one enumeration feeds both views - the "
    "iterable of every construction of info.files entries and the first argument of the Hasher call are the same single "
    "reaching definition (the list returned by filelist_total(content path)), with no filter, slice or re-sort in "
    "between; C01.2 the enumeration is complete and ordered - every directory entry contributes, recursion is "
    "unconditional, the result is sorted() with default ordering; C01.3 each entry's length is getsize of the very path "
    "whose relative path is recorded, the single-file length is the size of the content path; C01.4 every hasher in "
    "every creator is constructed with the one attribute that is also recorded as 'piece length'; C01.5 every value the "
    "v1 hasher returns is sha1(...).digest() and the piece string is the concatenation of everything it yields; "
    "C01.6 stitching facts of the v1 hasher as normal forms: the read buffer is piece_length bytes, a short read is "
    "continued with exactly the bytes read (buffer slice discipline: a buffer filled by readinto is consumed as buf[:n] "
    "unless the path implies n == len(buf)), the continuation requests piece_length - len(so far), the loop goes on "
    "while the piece is short and another file exists, the file index advances by exactly one and opens that file 'rb'.")
RULE_TEXT = "one obligation per def-use / shape fact; non-trivial = reaching definitions, must-pass-through, linear normal forms"


def _default_resort_of(e, given):
    """sorted(given) / sorted(str(p) for p in given) / sorted(map(str, given)) - default ordering of the same elements."""
    if not (isinstance(e, ast.Call) and isinstance(e.func, ast.Name) and e.func.id == "sorted" and len(e.args) == 1 and not e.keywords):
        return False
    a = e.args[0]
    if isinstance(a, ast.Name) and a.id == given:
        return True
    if isinstance(a, (ast.GeneratorExp, ast.ListComp)) and len(a.generators) == 1 and not a.generators[0].ifs and isinstance(a.generators[0].iter, ast.Name) \
            and a.generators[0].iter.id == given and isinstance(a.generators[0].target, ast.Name):
        v = a.generators[0].target.id
        return norm(a.elt) in (v, "str(%s)" % v, "os.fspath(%s)" % v)
    if isinstance(a, ast.Call) and isinstance(a.func, ast.Name) and a.func.id == "map" and len(a.args) == 2 and norm(a.args[0]) in ("str", "os.fspath") and norm(a.args[1]) == given:
        return True
    return False


def _only_about(expr, var, self_name):
    """The expression mentions the loop variable and, besides it, only self attributes / locals derived elsewhere - but no
    other element of the listing (no second loop variable, no index arithmetic on the list)."""
    names = {x.id for x in ast.walk(expr) if isinstance(x, ast.Name)}
    return var in names and not any(isinstance(x, (ast.ListComp, ast.GeneratorExp, ast.Lambda)) for x in ast.walk(expr))


def _speaks_of_a_copy(ctx, fn, tests, SZ):
    """The tests do not mention the count SZ itself but a local that copies it (`n2 = SZ`) or a field of a local record built
    by a call (`chunk.size`): they may well be about the count, in a spelling this rule does not follow."""
    if any(isinstance(x, ast.Name) and x.id == SZ for t in tests for x in ast.walk(t)):
        return False
    for t in tests:
        for x in ast.walk(t):
            if isinstance(x, ast.Name) and x.id != fn.self_name:
                vals = [p_ for w_, p_ in ctx.res.bindings(fn).get(x.id, []) if w_ == "value"]
                if vals and all(isinstance(v, ast.Name) and v.id == SZ for v in vals):
                    return True
            if isinstance(x, ast.Attribute) and isinstance(x.value, ast.Name) and x.value.id != fn.self_name:
                vals = [p_ for w_, p_ in ctx.res.bindings(fn).get(x.value.id, []) if w_ == "value"]
                if vals and all(isinstance(v, ast.Call) for v in vals):
                    return True
    return False


def handover_values(ctx, nx):
    """What next_file() returns when it DID open another file: a set of (none-ness, truthiness, text) with none-ness in
    none | not-none | ?, truthiness in truthy | falsy | size | ?.  `size` is a byte count of a file (os.path.getsize, a stat
    size, len of what was read): never None, zero exactly for an empty file."""
    nf = None
    for c_ in ([nx.cls] + ctx.prog.mro(nx.cls)) if nx.cls is not None else []:
        if "next_file" in c_.methods:
            nf = c_.methods["next_file"]
            break
    if nf is None:
        return {("?", "?", "next_file not found")}
    gnf = C.cfg_of(nf)
    opens = [C.stmt_node(ctx, nf, n) for n in own_nodes(nf.node) if isinstance(n, ast.Call) and (C.is_ext_call(ctx, n, nf, ("builtins.open",)) or norm(n.func).endswith("_open"))]
    opens = [o for o in opens if o is not None]
    out = set()
    rets = [n for n in own_nodes(nf.node) if isinstance(n, ast.Return)]

    def size_call(v):
        return isinstance(v, ast.Call) and (C.is_ext_call(ctx, v, nf, ("os.path.getsize", "builtins.len")) or norm(v.func) in ("os.path.getsize", "len"))

    def kind(v, depth=0):
        if v is None or (isinstance(v, ast.Constant) and v.value is None):
            return ("none", "falsy", "None")
        if isinstance(v, ast.Constant):
            return ("not-none", "truthy" if v.value else "falsy", repr(v.value))
        if size_call(v) or (isinstance(v, ast.Attribute) and v.attr == "st_size"):
            return ("not-none", "size", norm(v))
        if isinstance(v, ast.Name) and depth < 3:
            vals = [p_ for w_, p_ in ctx.res.bindings(nf).get(v.id, [])]
            ws = [w_ for w_, p_ in ctx.res.bindings(nf).get(v.id, [])]
            if len(vals) == 1 and ws == ["value"]:
                return kind(vals[0], depth + 1)
        if isinstance(v, ast.Subscript) and isinstance(v.value, ast.Attribute) and isinstance(v.value.value, ast.Name) and v.value.value.id == nf.self_name and nf.cls is not None:
            # an element of a list the class fills with byte counts:  self.sizes = [os.path.getsize(p) for p in self.paths]
            stores = [a for m in nf.cls.methods.values() for a in own_nodes(m.node) if isinstance(a, ast.Assign) and any(norm(t) == "%s.%s" % (m.self_name, v.value.attr) for t in a.targets)]
            other = [a for m in nf.cls.methods.values() for a in own_nodes(m.node) if isinstance(a, (ast.AugAssign, ast.Call)) and norm(a.target if isinstance(a, ast.AugAssign) else a.func).startswith("%s.%s" % (m.self_name, v.value.attr))]
            if stores and not other and all(isinstance(a.value, (ast.ListComp, ast.List)) and all(size_call(e) for e in ([a.value.elt] if isinstance(a.value, ast.ListComp) else a.value.elts)) for a in stores):
                return ("not-none", "size", norm(v))
        return ("?", "?", norm(v)[:40])
    for r in rets:
        rn = C.stmt_node(ctx, nf, r)
        if rn is None:
            continue
        if opens and not any(rn in gnf.reachable(o) for o in opens):
            continue        # a return no opened file leads to: the list was exhausted
        out.add(kind(r.value))
    return out or {("?", "?", "no return after an open")}


def end_of_iteration(ctx, rid, nx):
    """Every `raise StopIteration` of the v1 hasher is the exhaustion of the last file (empty read and no next file)."""
    # zero read -> next file or stop, inside a loop
    g = C.cfg_of(nx)
    def reads(call, depth=0):
        """x.readinto(buf), or a method of the class that returns the count of such a read"""
        if isinstance(call.func, ast.Attribute) and call.func.attr == "readinto":
            return True
        if depth < 2:
            for h in C.targets_of(ctx, nx, call):
                if h.cls is not None and nx.cls is not None and h is not nx:
                    rv = [r.value for r in own_nodes(h.node) if isinstance(r, ast.Return) and r.value is not None]
                    inner = [a for a in own_nodes(h.node) if isinstance(a, ast.Assign) and isinstance(a.value, ast.Call) and isinstance(a.value.func, ast.Attribute)
                             and a.value.func.attr == "readinto" and isinstance(a.targets[0], ast.Name)]
                    if len(inner) == 1 and rv and all(isinstance(v, ast.Name) and v.id == inner[0].targets[0].id for v in rv):
                        return True
        return False
    rds = [n for n in own_nodes(nx.node) if isinstance(n, ast.Assign) and isinstance(n.value, ast.Call) and isinstance(n.targets[0], ast.Name) and reads(n.value)]
    SZ = rds[0].targets[0].id if rds else "size"
    if not rds:
        # no statement `n = <file>.readinto(buf)` (or a helper returning that count) in __next__: the variable whose being zero
        # means "this file is exhausted" is not known, so the tests that lead to the end of the iteration cannot be read
        ctx.undecided(rid, nx, "the read whose byte count decides the end of a file was not identified in %s (the count may travel in a record); how the iteration ends is not decided" % nx.qualname, nx.node)
        return SZ
    raises = [n for n in own_nodes(nx.node) if isinstance(n, ast.Raise) and "StopIteration" in norm(n.exc)]
    ok = bool(raises)
    early = None
    unread = False
    rd_node = C.stmt_node(ctx, nx, rds[0]) if len(rds) == 1 else None

    def nonempty(x):
        """the read returned at least one byte"""
        if isinstance(x, ast.Name) and x.id == SZ:
            return True
        if isinstance(x, ast.Compare) and len(x.ops) == 1 and isinstance(x.left, ast.Name) and x.left.id == SZ and isinstance(x.comparators[0], ast.Constant) \
                and x.comparators[0].value in (0, 1):
            c, op = x.comparators[0].value, type(x.ops[0])
            if c == 0:
                return {ast.Eq: False, ast.NotEq: True, ast.Gt: True, ast.LtE: False, ast.GtE: True, ast.Lt: False}.get(op)
            return {ast.GtE: True, ast.Lt: False}.get(op)
        return None

    found_vals = handover_values(ctx, nx)
    world = {"unknown": None}

    def another_file(x):
        """next_file() found another file: the truth of a test of what it returns, evaluated over the values it returns when
        it did open a file (True in the pinned tree; a byte count - which is 0 for an empty file - or a record elsewhere)"""
        def is_call(e):
            return isinstance(e, ast.Call) and isinstance(e.func, ast.Attribute) and e.func.attr == "next_file"
        if is_call(x):
            ts = {k[1] for k in found_vals}
            if ts == {"truthy"}:
                return True
            if ts == {"falsy"}:
                return False
            if "?" in ts:
                world["unknown"] = "what next_file() returns when it opened a file (%s) is not a constant nor a byte count" % ", ".join(sorted(k[2] for k in found_vals if k[1] == "?"))
            return None         # a byte count: zero for an empty file, non-zero otherwise - both happen
        if isinstance(x, ast.Compare) and len(x.ops) == 1 and is_call(x.left) and isinstance(x.comparators[0], ast.Constant) and x.comparators[0].value is None \
                and isinstance(x.ops[0], (ast.Is, ast.IsNot, ast.Eq, ast.NotEq)):
            ns = {k[0] for k in found_vals}
            if ns == {"not-none"}:
                return isinstance(x.ops[0], (ast.IsNot, ast.NotEq))
            if ns == {"none"}:
                return isinstance(x.ops[0], (ast.Is, ast.Eq))
            world["unknown"] = "whether next_file() returns None when it opened a file is not established"
            return None
        return None
    # exhaustion signalled by a callee: a method of the class in which `next(it)` (no default) or `raise StopIteration` can
    # run outside a handler that catches it; the signal leaves __next__ from the call site
    cls_methods = list(nx.cls.methods.values()) if nx.cls is not None else []

    def unprotected(f_, node):
        p_ = ctx.prog.parent.get(node)
        child = node
        while p_ is not None and p_ is not f_.node:
            if isinstance(p_, ast.Try) and child in p_.body and any(h.type is None or any(k in norm(h.type) for k in ("StopIteration", "Exception", "BaseException")) for h in p_.handlers):
                return False
            child, p_ = p_, ctx.prog.parent.get(p_)
        return True
    stops = {}
    for m_ in cls_methods:
        for n_ in own_nodes(m_.node):
            if ((isinstance(n_, ast.Raise) and n_.exc is not None and "StopIteration" in norm(n_.exc)) or
                    (isinstance(n_, ast.Call) and isinstance(n_.func, ast.Name) and n_.func.id == "next" and len(n_.args) == 1 and not n_.keywords)) and unprotected(m_, n_):
                stops.setdefault(m_, n_)
    changed = True
    while changed:
        changed = False
        for m_ in cls_methods:
            if m_ in stops:
                continue
            for n_ in own_nodes(m_.node):
                if isinstance(n_, ast.Call) and unprotected(m_, n_) and any(t in stops for t in C.targets_of(ctx, m_, n_) if t is not m_):
                    stops[m_] = n_
                    changed = True
                    break
    implicit = [n_ for n_ in own_nodes(nx.node) if isinstance(n_, ast.Call) and unprotected(nx, n_) and any(t in stops and t is not nx for t in C.targets_of(ctx, nx, n_))]
    if not raises and implicit and rd_node is not None:
        bad = None
        for c_ in implicit:
            cn_ = C.stmt_node(ctx, nx, c_)
            if cn_ in C.reach_under(g, rd_node, nonempty, stop=[rd_node]):
                bad = bad or c_
        callee = [t for t in C.targets_of(ctx, nx, bad) if t in stops][0] if bad is not None else None
        ctx.decide(rid, nx, bad is None, "iteration ends with the StopIteration of %s, which __next__ lets through only after an empty read" % ", ".join(sorted({t.name for c_ in implicit for t in C.targets_of(ctx, nx, c_) if t in stops})),
                   "a StopIteration raised inside %s (`%s`) leaves __next__ through `%s`, which runs after bytes were read: the consumer takes it as the end of the stream and the piece that was being "
                   "completed - the final short piece of the payload - is dropped" % (callee.name if callee else "?", norm(stops[callee])[:40] if callee else "?", norm(bad)[:50] if bad is not None else "?"),
                   bad if bad is not None else implicit[0])
        return SZ
    for r in raises:
        rn = C.stmt_node(ctx, nx, r)
        if rd_node is not None and rn in g.reachable(rd_node):
            # within one pass after the read: the raise is out of reach when bytes were read, and when another file exists
            z = rn not in C.reach_under(g, rd_node, nonempty, stop=[rd_node])
            nfc = rn not in C.reach_under(g, rd_node, another_file, stop=[rd_node])
        else:
            deps = [(norm(C.test_expr(b)), lab) for b, lab in g.control_deps(rn) if C.test_expr(b) is not None]
            if _speaks_of_a_copy(ctx, nx, [C.test_expr(b) for b, _ in g.control_deps(rn) if C.test_expr(b) is not None], SZ):
                unread = True        # the tests that lead to this raise speak of a copy of the count (an alias, a field of a local record)
            z = any(t in ("%s == 0" % SZ, "not %s" % SZ) and lab == "true" for t, lab in deps)
            nfc = False
            for b_, lab_ in g.control_deps(rn):
                te_ = C.test_expr(b_)
                if te_ is not None and "next_file()" in norm(te_):
                    tv_ = C.eval3(te_, another_file)
                    if tv_ is not None and ("true" if tv_ else "false") != lab_:
                        nfc = True       # with another file opened this branch is not taken
        if not (z and nfc):
            # every way of ending the iteration must be the exhaustion of the last file, not a count computed elsewhere
            ok = False
            early = early or r
    if early is not None:
        raises = [early] + [r for r in raises if r is not early]
    whiles = [n for n in own_nodes(nx.node) if isinstance(n, ast.While)]
    if not ok and world["unknown"]:
        ctx.undecided(rid, nx, "%s; how the iteration ends is not decided" % world["unknown"], raises[0] if raises else nx.node)
        return SZ
    if not ok and unread:
        ctx.undecided(rid, nx, "the tests that lead to `raise StopIteration` do not mention the byte count %r of the read this rule follows (it may have been copied into another variable); how the iteration ends is not decided" % SZ,
                      raises[0] if raises else nx.node)
        return SZ
    n_reads = sum(1 for n_ in own_nodes(nx.node) if isinstance(n_, ast.Call) and isinstance(n_.func, ast.Attribute) and n_.func.attr in ("readinto", "read"))
    n_next = sum(1 for n_ in own_nodes(nx.node) if isinstance(n_, ast.Call) and norm(n_.func).endswith("next_file"))
    if not (ok and bool(whiles)) and (n_reads > 1 or n_next > 1):
        # several reads / hand-overs in one body (the continuation across files written into the iterator itself): this rule
        # follows one read and the hand-over behind it
        ctx.undecided(rid, nx, "%s holds %d reads and %d hand-overs to the next file; which of them ends the iteration was not separated" % (nx.qualname, n_reads, n_next),
                      raises[0] if raises else nx.node)
        return SZ
    ctx.decide(rid, nx, ok and bool(whiles), "iteration ends only when a read returns nothing and there is no next file; otherwise it reads on",
               "the end of iteration is not tied to (empty read and no further file): files can be cut off or skipped", raises[0] if raises else nx.node)
    return SZ


_depth = [0]


def _listing_part(ctx, fn, rd, d):
    """(the call filelist_total(self.path), index) if definition d binds element `index` of that call's result:
    a, b = call   |   x = call; b = x[1] / x.<second field of the NamedTuple the call returns>   else None."""
    if d is None:
        return None

    def is_listing(call):
        if not isinstance(call, ast.Call):
            return False
        if any(t.name in ("filelist_total", "_filelist_total") for t in C.targets_of(ctx, fn, call)) and call.args and norm(call.args[0]) == "self.path":
            return True
        # a method that hands out the listing (possibly one kept on the instance by the constructor): every value it can
        # return is filelist_total(<content path>)
        from tfsa.flow import Flow
        lf = [f_ for f_ in ctx.prog.functions.values() if f_.name in ("filelist_total",) and f_.module.name == "torrentfile.utils"]
        if not lf or not any(t.cls is not None for t in C.targets_of(ctx, fn, call)):
            return False
        fl = getattr(ctx, "_c01_flow", None)
        if fl is None:
            fl = ctx._c01_flow = Flow(ctx.prog, ctx.res, opaque_funcs=lf)
        terms = fl.term(call, fn)
        real = [t for t in terms if not (t[0] == "const" and t[1] is None)]

        def content_path(ts):
            return bool(ts) and all((x[0] == "param" and x[2] in ("path", "content")) or (x[0] == "selfattr" and x[2] == "path") or x[0] in ("ext", "sub", "op", "rec", "const") for x in ts)
        return bool(real) and all(t[0] == "pkgcall" and t[1] == lf[0].qual and t[2] and content_path(t[2][0][1]) for t in real)
    v = d.value
    if isinstance(v, tuple) and v[0] == "unpack":
        if is_listing(v[1]):
            return v[1], v[2]
        # a, b, c = self._scan(): a method that lists the content and hands the parts of the listing on in a tuple
        if isinstance(v[1], ast.Call) and _depth[0] < 2:
            tg = [t for t in C.targets_of(ctx, fn, v[1]) if t.cls is not None]
            if len(tg) == 1:
                M = tg[0]
                rets = [r for r in own_nodes(M.node) if isinstance(r, ast.Return) and r.value is not None]
                if len(rets) == 1 and isinstance(rets[0].value, ast.Tuple) and v[2] is not None and v[2] < len(rets[0].value.elts) and isinstance(rets[0].value.elts[v[2]], ast.Name):
                    gm = C.cfg_of(M)
                    rdm = ReachDefs(M, gm)
                    ds = rdm.reaching(rets[0].value.elts[v[2]].id, C.stmt_node(ctx, M, rets[0]))
                    if len(ds) == 1:
                        _depth[0] += 1
                        try:
                            inner = _listing_part(ctx, M, rdm, next(iter(ds)))
                        finally:
                            _depth[0] -= 1
                        if inner is not None:
                            # the listing call sits in the helper; one call of the helper = one listing
                            return v[1], inner[1]
        # a, b = x.f0, x.f1   handled by the reaching-definition machinery as plain assigns; nothing to do here
        return None
    if d.kind != "assign" or v is None or isinstance(v, tuple):
        return None
    base = idx = None
    if isinstance(v, ast.Subscript) and isinstance(v.slice, ast.Constant) and isinstance(v.slice.value, int):
        base, idx = v.value, v.slice.value
    elif isinstance(v, ast.Attribute):
        base = v.value
        # field position in the NamedTuple class the listing function returns
        for t in [x for n_ in ("filelist_total", "_filelist_total") for x in ctx.prog.functions.values() if x.name == n_]:
            ann = t.node.returns
            if isinstance(ann, ast.Name):
                for c in ctx.prog.classes.values():
                    if c.name == ann.id and any(norm(b).split(".")[-1] == "NamedTuple" for b in c.node.bases):
                        fields = [st.target.id for st in c.node.body if isinstance(st, ast.AnnAssign) and isinstance(st.target, ast.Name)]
                        if v.attr in fields:
                            idx = fields.index(v.attr)
    if base is None or idx is None or not isinstance(base, ast.Name):
        return None
    bd = rd.reaching(base.id, d.node)
    if len(bd) == 1:
        b0 = next(iter(bd))
        if b0.kind == "assign" and is_listing(b0.value):
            return b0.value, idx
    return None


def same_enumeration(ctx):
    cls = ctx.prog.cls("torrentfile.torrent:TorrentFile")
    fn = cls.methods["assemble"]
    g = C.cfg_of(fn)
    rd = ReachDefs(fn, g)
    hc = [n for n in own_nodes(fn.node) if isinstance(n, ast.Call) and any(k[0] == "class" and k[1].name == "Hasher" for k in ctx.res.kinds(n.func, fn))]
    if len(hc) == 1 and hc[0].args and not isinstance(hc[0].args[0], ast.Name):
        inner = [x.id for x in ast.walk(hc[0].args[0]) if isinstance(x, ast.Name)]
        listing = [n for n in inner if any(w == "unpack" and isinstance(p_[0], ast.Call) and "filelist_total" in norm(p_[0].func) for w, p_ in ctx.res.bindings(fn).get(n, []))]
        if listing:
            ctx.violated("C01.1", fn, "the hasher receives %s instead of the listing %r itself: the hashed stream is re-ordered / filtered / sliced relative to info.files" % (norm(hc[0].args[0]), listing[0]), hc[0])
            return None
    if len(hc) != 1 or not hc[0].args or not isinstance(hc[0].args[0], ast.Name):
        ctx.undecided("C01.1", fn, "Hasher construction with a plain list variable not found")
        return None
    A = hc[0].args[0].id
    hn = C.stmt_node(ctx, fn, hc[0])
    dA = rd.reaching(A, hn)
    ok_def = len(dA) == 1
    d = next(iter(dA)) if dA else None
    from_listing = False
    listing_call = None
    part = _listing_part(ctx, fn, rd, d)
    if part is not None:
        listing_call, idx = part
        from_listing = idx == 1
    if ok_def and from_listing:
        ctx.holds("C01.1", fn, "the hasher reads the list returned by filelist_total(self.path) (single reaching definition of %r)" % A, hc[0])
    elif ok_def and part is None and d is not None and d.kind == "assign" and not isinstance(d.value, tuple) and isinstance(d.value, (ast.Attribute, ast.Subscript, ast.Name)):
        ctx.undecided("C01.1", fn, "the list handed to the hasher is `%s`; whether that is the listing of the content path is not decided" % norm(d.value), hc[0])
    else:
        ctx.violated("C01.1", fn, "the list handed to the hasher is not (only) the listing of the content path: %s" % ([repr(x) for x in dA]), hc[0])
    # constructions of file entries
    users = []
    for n in own_nodes(fn.node):
        if isinstance(n, ast.ListComp) and isinstance(n.elt, ast.Dict) and any(const_str(k) == "path" for k in n.elt.keys):
            users.append(("comprehension", n, n.generators[0].iter, n.generators[0]))
        if isinstance(n, ast.For) and any(isinstance(x, ast.Dict) and any(const_str(k) == "path" for k in x.keys) and not any(const_str(k) == "attr" for k in x.keys) for st in n.body for x in ast.walk(st)):
            users.append(("loop", n, n.iter, n))
    if len(users) == 1 and not any(isinstance(x, ast.Attribute) and x.attr == "align" for b, lab in g.control_deps(C.stmt_node(ctx, fn, users[0][1]))
                                   if C.test_expr(b) is not None for x in ast.walk(C.test_expr(b))):
        pass        # one construction serves the plain and the aligned listing (the switch is consulted inside it)
    elif len(users) < 2:
        ctx.undecided("C01.1", fn, "expected the plain and the aligned construction of info.files, found %d" % len(users))
    def single_value(e):
        """A local with one definition stands for that definition."""
        seen_ = 0
        while isinstance(e, ast.Name) and seen_ < 4:
            bl = ctx.res.bindings(fn).get(e.id, [])
            if len(bl) == 1 and bl[0][0] == "value":
                e = bl[0][1]
                seen_ += 1
            else:
                break
        return e

    def sizes_of_listing(e):
        """e is (a local holding) [getsize(q) for q in A]: the sizes of the listing, position by position."""
        e = single_value(e)
        return isinstance(e, ast.ListComp) and len(e.generators) == 1 and not e.generators[0].ifs and isinstance(e.generators[0].target, ast.Name) \
            and isinstance(e.generators[0].iter, ast.Name) and e.generators[0].iter.id == A and isinstance(e.elt, ast.Call) \
            and C.is_ext_call(ctx, e.elt, fn, ("os.path.getsize",)) and len(e.elt.args) == 1 and norm(e.elt.args[0]) == e.generators[0].target.id

    for kind, node, it, gen in users:
        un = C.stmt_node(ctx, fn, node)
        var = gen.target.id if isinstance(gen.target, ast.Name) else "?"
        size_var = None
        if isinstance(it, ast.Call) and isinstance(it.func, ast.Name) and it.func.id == "zip" and len(it.args) == 2 and isinstance(gen.target, ast.Tuple) \
                and len(gen.target.elts) == 2 and all(isinstance(t, ast.Name) for t in gen.target.elts):
            # for p, size in zip(A, sizes): the listing walked together with the sizes of its own elements
            for i_ in (0, 1):
                if isinstance(it.args[i_], ast.Name) and it.args[i_].id == A and sizes_of_listing(it.args[1 - i_]):
                    var, size_var, it = gen.target.elts[i_].id, gen.target.elts[1 - i_].id, it.args[i_]
                    break
        same = isinstance(it, ast.Name) and it.id == A and rd.reaching(A, un) == dA
        filt = bool(getattr(gen, "ifs", None)) if kind == "comprehension" else False
        if kind == "loop":
            head = g.of[node]
            bs = C.succ_by_label(head, "iter")[0]
            def file_entry(a):
                """the appended value is the file's own entry: a display without 'attr', or a local bound once to one"""
                if isinstance(a, ast.Name):
                    vals_ = [p_ for w_, p_ in ctx.res.bindings(fn).get(a.id, []) if w_ == "value"]
                    a = vals_[0] if len(vals_) == 1 and len(ctx.res.bindings(fn).get(a.id, [])) == 1 else a
                return isinstance(a, ast.Dict) and not any(const_str(k) == "attr" for k in a.keys)
            apps = {C.stmt_node(ctx, fn, x) for st in node.body for x in ast.walk(st) if isinstance(x, ast.Call) and isinstance(x.func, ast.Attribute) and x.func.attr == "append"
                    and x.args and file_entry(x.args[0])}
            if not apps:
                ctx.undecided("C01.1", fn, "info.files (loop): no statement that appends the file's own entry was recognised in the loop over %s" % norm(it), it)
                continue
            # every iteration appends the file's entry (a `continue` after the append skips nothing of it)
            filt = not (apps and g.must_pass(bs, head, apps)) or any(isinstance(x, (ast.Break, ast.Return)) for st in node.body for x in ast.walk(st))
        ctx.decide("C01.1", fn, same and not filt, "info.files (%s) is built from the same list, every element, in order" % kind,
                   "info.files (%s) is built from %s%s: the file list and the hashed stream can differ" % (kind, norm(it), " with a filter / early exit" if filt else ""), it)
        # C01.3 per entry
        d_ = [x for x in ast.walk(node) if isinstance(x, ast.Dict) and any(const_str(k) == "path" for k in x.keys) and not any(const_str(k) == "attr" for k in x.keys)][0]
        ent = {const_str(k): v for k, v in zip(d_.keys, d_.values)}
        lv = ent.get("length")
        paired = isinstance(lv, ast.Name) and size_var is not None and lv.id == size_var
        if isinstance(lv, ast.Name):
            vals = [p for w, p in ctx.res.bindings(fn).get(lv.id, []) if w == "value"]
            lv = vals[0] if len(vals) == 1 else lv
        ok_len = paired or (isinstance(lv, ast.Call) and C.is_ext_call(ctx, lv, fn, ("os.path.getsize",)) and norm(lv.args[0]) == var)
        pv = single_value(ent.get("path"))
        ok_path = isinstance(pv, ast.Call) and isinstance(pv.func, ast.Attribute) and pv.func.attr == "split" and pv.args and norm(pv.args[0]) == "os.sep" \
            and isinstance(pv.func.value, ast.Call) and C.is_ext_call(ctx, pv.func.value, fn, ("os.path.relpath",)) and [norm(a) for a in pv.func.value.args] == [var, "self.path"]
        if ok_len and ok_path and set(ent) == {"length", "path"}:
            ctx.holds("C01.3", fn, "entry (%s): length = getsize(p), path = relpath(p, root) of the same p" % kind, d_)
        elif ok_len and set(ent) == {"length", "path"} and pv is not None and _only_about(pv, var, fn.self_name):
            # another way of cutting the root off the same path: equivalent or not depends on how the listing spells its entries
            ctx.undecided("C01.3", fn, "entry (%s): the relative path is computed as %s, which the extractor cannot compare with relpath(p, root)" % (kind, norm(pv)), d_)
        else:
            ctx.violated("C01.3", fn, "entry (%s) records length %s and path %s: not the exact size and relative path of one and the same file" % (kind, norm(ent.get("length")), norm(pv)), d_)
    # single file
    st = [n for n in own_nodes(fn.node) if isinstance(n, ast.Assign) and isinstance(n.targets[0], ast.Subscript) and const_str(n.targets[0].slice) == "length" and "info" in norm(n.targets[0].value)]
    for s in st:
        sn = C.stmt_node(ctx, fn, s)
        v = s.value
        ok = False
        if isinstance(v, ast.Name):
            ds = rd.reaching(v.id, sn)
            p0 = _listing_part(ctx, fn, rd, next(iter(ds))) if len(ds) == 1 else None
            ok = p0 is not None and p0[1] == 0 and listing_call is not None and p0[0] is listing_call
        elif isinstance(v, ast.Call):
            ok = C.is_ext_call(ctx, v, fn, ("os.path.getsize",)) and norm(v.args[0]) == "self.path"
        def is_file_atom(x):
            x = single_value(x)
            return True if isinstance(x, ast.Call) and C.is_ext_call(ctx, x, fn, ("os.path.isfile",)) and x.args and norm(x.args[0]) == "self.path" else None
        # reached only when the content path is a file: some controlling test goes the other way if it is not
        guarded = any(C.branch_when(b, lambda x: False if is_file_atom(x) else None) not in (None, lab) for b, lab in g.control_deps(sn) if C.test_expr(b) is not None)
        ctx.decide("C01.3", fn, ok and guarded, "single file: info['length'] is the size of the content path, stored only when it is a file",
                   "single file: info['length'] = %s is not the size of the content path (or not under the isfile test)" % norm(v), s)
    # C01.5 drain
    loops = [n for n in own_nodes(fn.node) if isinstance(n, ast.For) and isinstance(n.iter, ast.Name)]
    par = ctx.prog.parent.get(hc[0])
    feeder = par.targets[0].id if isinstance(par, ast.Assign) and isinstance(par.targets[0], ast.Name) else None
    dr = [l for l in loops if l.iter.id == feeder]
    if feeder is None:
        # for piece in Hasher(filelist, ...): the hasher is drained where it is made
        dr = [n for n in own_nodes(fn.node) if isinstance(n, ast.For) and n.iter is hc[0]]
    # info['pieces'] = <empty bytes>.join(feeder) (directly, or through one local): the same concatenation, by the library
    joins = []
    for n in own_nodes(fn.node):
        if isinstance(n, ast.Call) and isinstance(n.func, ast.Attribute) and n.func.attr == "join" and norm(n.func.value) in ("bytearray()", "b''", "bytes()") \
                and len(n.args) == 1 and isinstance(n.args[0], ast.Name) and n.args[0].id == feeder and feeder is not None:
            joins.append(n)
    if not dr and len(joins) == 1:
        j = joins[0]
        top = j
        par_j = ctx.prog.parent.get(j)
        if isinstance(par_j, ast.Call) and isinstance(par_j.func, ast.Name) and par_j.func.id in ("bytes", "bytearray") and par_j.args == [j]:
            top, par_j = par_j, ctx.prog.parent.get(par_j)
        stored = isinstance(par_j, ast.Assign) and par_j.value is top and len(par_j.targets) == 1 and (
            (isinstance(par_j.targets[0], ast.Subscript) and const_str(par_j.targets[0].slice) == "pieces")
            or (isinstance(par_j.targets[0], ast.Name) and len([1 for x in own_nodes(fn.node) if isinstance(x, ast.Name) and x.id == par_j.targets[0].id and isinstance(x.ctx, ast.Store)]) == 1
                and any(isinstance(n, ast.Assign) and isinstance(n.targets[0], ast.Subscript) and const_str(n.targets[0].slice) == "pieces" and norm(n.value) == par_j.targets[0].id for n in own_nodes(fn.node))))
        other_uses = [x for x in own_nodes(fn.node) if isinstance(x, ast.Name) and x.id == feeder and isinstance(x.ctx, ast.Load) and x is not j.args[0]]
        consumed_before = [x for x in other_uses if isinstance(ctx.prog.parent.get(x), (ast.For, ast.Call, ast.comprehension, ast.Starred))]
        if stored and consumed_before:
            ctx.undecided("C01.5", fn, "the hasher object is also handed to `%s`; whether that consumes hashes before the join is not decided" % norm(ctx.prog.parent.get(consumed_before[0]))[:60], j)
        else:
            ctx.decide("C01.5", fn, stored, "the piece string is the library concatenation (join), in order, of every hash the hasher yields",
                       "the piece string is not the plain concatenation of everything the hasher yields", j)
    elif len(dr) != 1:
        ctx.undecided("C01.5", fn, "loop draining the hasher not found")
    else:
        l = dr[0]
        exts = [x for st in l.body for x in ast.walk(st) if isinstance(x, ast.Call) and isinstance(x.func, ast.Attribute) and x.func.attr == "extend" and x.args
                and norm(x.args[0]) == norm(l.target)]
        skips = [x for st in l.body for x in ast.walk(st) if isinstance(x, (ast.Break, ast.Continue, ast.Return))]
        body_ok = False
        acc = "?"
        if len(exts) == 1 and not skips:
            head = g.of[l]
            bs = C.succ_by_label(head, "iter")[0]
            body_ok = g.must_pass(bs, head, {C.stmt_node(ctx, fn, exts[0])})
            acc = norm(exts[0].func.value)
        stored = any(isinstance(n, ast.Assign) and isinstance(n.targets[0], ast.Subscript) and const_str(n.targets[0].slice) == "pieces" and norm(n.value) == acc for n in own_nodes(fn.node))
        ctx.decide("C01.5", fn, body_ok and stored, "the piece string is the concatenation, in order, of every hash the hasher yields",
                   "the piece string is not the plain concatenation of everything the hasher yields", l)
    return A


def enumeration(ctx):
    fn = ctx.prog.func("torrentfile.utils:_filelist_total")
    g = C.cfg_of(fn)
    p = fn.params[0]
    loops = [n for n in own_nodes(fn.node) if isinstance(n, ast.For)]
    if len(loops) != 1:
        ctx.undecided("C01.2", fn, "directory loop not found")
        return
    l = loops[0]
    it_ok = isinstance(l.iter, ast.Call) and isinstance(l.iter.func, ast.Attribute) and l.iter.func.attr in ("iterdir",) and norm(l.iter.func.value) == p or \
        (isinstance(l.iter, ast.Call) and norm(l.iter.func) in ("os.listdir", "sorted"))
    head = g.of[l]
    bs = C.succ_by_label(head, "iter")[0]
    rec = [x for st in l.body for x in ast.walk(st) if isinstance(x, ast.Call) and any(t.name in ("filelist_total", "_filelist_total") for t in C.targets_of(ctx, fn, x))]
    ext = [x for st in l.body for x in ast.walk(st) if isinstance(x, ast.Call) and isinstance(x.func, ast.Attribute) and x.func.attr in ("extend", "append")]
    skip = [x for st in l.body for x in ast.walk(st) if isinstance(x, (ast.Continue, ast.Break, ast.If, ast.IfExp))]
    marks = {C.stmt_node(ctx, fn, x) for x in ext}
    ok = it_ok and rec and ext and not skip and g.must_pass(bs, head, marks) and isinstance(l.target, ast.Name) and all(x.args and norm(x.args[0]) == l.target.id for x in rec)
    if not (it_ok and rec):
        # not the shape this rule reads (a loop over the entries of the directory that calls the listing again for each): the walk
        # may live in a helper or a generator
        ctx.undecided("C01.2", fn, "the loop `for %s in %s` is not a walk over a directory listing that descends into every entry; where the tree is walked was not followed" % (norm(l.target), norm(l.iter)[:50]), l)
    else:
        ctx.decide("C01.2", fn, bool(ok), "every entry of the directory is descended into and contributes its files (no filter)",
                   "not every directory entry contributes to the file list (filter, early exit or conditional recursion): a file can be missing from the metafile", l)
    rets = [n for n in own_nodes(fn.node) if isinstance(n, ast.Return) and isinstance(n.value, ast.Tuple) and len(n.value.elts) == 2]
    lists = [r for r in rets if not isinstance(r.value.elts[1], ast.List)]
    single = [r for r in rets if isinstance(r.value.elts[1], ast.List)]
    for r in lists:
        v = r.value.elts[1]
        srt = isinstance(v, ast.Call) and C.is_ext_call(ctx, v, fn, ("builtins.sorted",)) and not v.keywords and len(v.args) == 1
        # for C01 any order does - both views read this one list (C01.1); which order it is matters to whoever re-orders a copy
        ctx.info.setdefault("listing_order", []).append("default" if srt else norm(v))
        ctx.holds("C01.2", fn, "the file list is returned %s; info.files and the hashed stream both follow it (that the order is reproducible is C08's subject)" % (
            "sorted() with default ordering" if srt else "as " + norm(v)), r)
    for r in single:
        sz, lst = r.value.elts
        if isinstance(sz, ast.Name):
            vals = [q for w, q in ctx.res.bindings(fn).get(sz.id, []) if w == "value"]
            sz = vals[0] if len(vals) == 1 else sz
        size_ok = (isinstance(sz, ast.Call) and C.is_ext_call(ctx, sz, fn, ("os.path.getsize",)) and norm(sz.args[0]) == p) or \
            norm(sz) in ("%s.stat().st_size" % p, "os.stat(%s).st_size" % p)        # what os.path.getsize returns, by definition
        ok = size_ok and len(lst.elts) == 1 and norm(lst.elts[0]) in ("str(%s)" % p, p)
        rn = C.stmt_node(ctx, fn, r)
        guarded = any(C.test_expr(b) is not None and norm(C.test_expr(b)) in ("%s.is_file()" % p, "os.path.isfile(%s)" % p) and lab == "true" for b, lab in g.control_deps(rn))
        if not size_ok and len(lst.elts) == 1 and norm(lst.elts[0]) in ("str(%s)" % p, p) and guarded and isinstance(sz, (ast.Call, ast.Attribute, ast.Name)) \
                and any(isinstance(x, ast.Name) and x.id == p for x in ast.walk(sz)):
            ctx.undecided("C01.2", fn, "the single-file case takes the size as `%s`, a way of asking for the size of %s this rule does not know" % (norm(sz), p), r)
            continue
        ctx.decide("C01.2", fn, ok and guarded, "a regular file yields exactly itself with its getsize", "the single-file case returns %s" % norm(r.value), r)
    ctx.floor("return shapes of _filelist_total", 2, len(rets))


def one_piece_length(ctx):
    n = 0
    for f in ctx.prog.functions.values():
        if f.module.name != "torrentfile.torrent":
            continue
        for call in own_nodes(f.node):
            if isinstance(call, ast.Call) and any(k[0] == "class" and k[1].module.name == "torrentfile.hasher" and "Hasher" in k[1].name for k in ctx.res.kinds(call.func, f)):
                n += 1
                a1 = call.args[1] if len(call.args) > 1 else next((kw.value for kw in call.keywords if kw.arg == "piece_length"), None)
                ctx.decide("C01.4", f, a1 is not None and norm(a1) == "self.piece_length", "hasher constructed with self.piece_length, the recorded attribute",
                           "hasher constructed with piece length %s, which is not the attribute recorded in info['piece length']" % norm(a1), call)
    ctx.floor("hasher constructions in the creators", 4, n)


def v1_hasher(ctx):
    cls = ctx.prog.cls("torrentfile.hasher:Hasher")
    consts = module_consts(cls.module)
    nx = cls.methods["__next__"]
    hp = cls.methods["_handle_partial"]
    nf = cls.methods["next_file"]
    PL = "self.piece_length"

    def nfm(e, fn):
        return lin_of(e, consts)
    # digest kind
    for fn in (nx, hp):
        for r in [n for n in own_nodes(fn.node) if isinstance(n, ast.Return) and n.value is not None]:
            v = r.value
            if isinstance(v, ast.Call) and any(t is hp for t in C.targets_of(ctx, fn, v)):
                continue
            ok = isinstance(v, ast.Call) and isinstance(v.func, ast.Attribute) and v.func.attr == "digest" and isinstance(v.func.value, ast.Call) \
                and C.is_ext_call(ctx, v.func.value, fn, ("hashlib.sha1",))
            if not ok and isinstance(v, ast.Call) and isinstance(v.func, ast.Attribute) and v.func.attr == "digest" and isinstance(v.func.value, ast.Name):
                # digest = sha1(...); digest.update(...); return digest.digest()
                vals = [p_ for w_, p_ in ctx.res.bindings(fn).get(v.func.value.id, []) if w_ == "value"]
                others = [1 for w_, p_ in ctx.res.bindings(fn).get(v.func.value.id, []) if w_ != "value"]
                if vals and not others and all(isinstance(x, ast.Call) and C.is_ext_call(ctx, x, fn, ("hashlib.sha1",)) for x in vals):
                    ctx.holds("C01.5", fn, "returns the digest of a local SHA-1 object (%s = sha1(...))" % v.func.value.id, r)
                    continue
            ctx.decide("C01.5", fn, ok, "returns sha1(...).digest()", "returns %s, not a SHA-1 digest" % norm(v), r)
    # buffers and slice discipline
    slice_discipline(ctx, "C01.6", [nx, hp], consts)
    # __next__ buffer = piece_length
    gx = C.cfg_of(nx)
    rdx = ReachDefs(nx, gx)
    reads = [n for n in own_nodes(nx.node) if isinstance(n, ast.Assign) and isinstance(n.value, ast.Call) and isinstance(n.value.func, ast.Attribute) and n.value.func.attr == "readinto"
             and n.value.args and isinstance(n.value.args[0], ast.Name)]
    if len(reads) != 1 and not (reads and len({norm(r_) for r_ in reads}) == 1):
        ctx.undecided("C01.6", nx, "expected one readinto in the v1 hasher's __next__, found %d" % len(reads))
    else:
        # (the same read written more than once - before and inside a `while size == 0` loop - is judged at each place)
        for rd_ in reads:
            cap, fresh = buffer_info(ctx, nx, gx, rdx, rd_.value.args[0].id, C.stmt_node(ctx, nx, rd_))
            if cap is None:
                ctx.undecided("C01.6", nx, "capacity of the read buffer could not be determined", rd_)
            else:
                ctx.decide("C01.6", nx, cap == PL, "read buffer is piece_length bytes", "read buffer is bytearray(%s), not piece_length" % cap, rd_)
    g = C.cfg_of(nx)
    SZ = end_of_iteration(ctx, "C01.6", nx)
    # partial hand-over: called for size < piece_length with piece[:size]
    calls = [n for n in own_nodes(nx.node) if isinstance(n, ast.Call) and any(t is hp for t in C.targets_of(ctx, nx, n))]
    for c in calls:
        cn = C.stmt_node(ctx, nx, c)
        conds = [(norm(C.test_expr(b)), lab) for b, lab in g.direct_control_deps(cn) if C.test_expr(b) is not None]

        def full_read(x):
            if isinstance(x, ast.Compare) and len(x.ops) == 1 and norm(x.left) == SZ and norm(x.comparators[0]) == PL:
                return {ast.Lt: False, ast.NotEq: False, ast.Eq: True, ast.GtE: True, ast.LtE: True, ast.Gt: False}.get(type(x.ops[0]))
            return None
        # the hand-over is reached only after a short read: some controlling test goes the other way for a full read
        ok = any(C.branch_when(b, full_read) not in (None, lab) for b, lab in g.control_deps(cn) if C.test_expr(b) is not None)
        if not ok and _speaks_of_a_copy(ctx, nx, [C.test_expr(b) for b, _ in g.control_deps(cn) if C.test_expr(b) is not None], SZ):
            ctx.undecided("C01.6", nx, "the cross-file continuation is entered under %s, tests that do not mention the byte count %r of the read this rule follows" % (conds, SZ), c)
            continue
        ctx.decide("C01.6", nx, ok, "a read shorter than the piece length is continued across files", "the cross-file continuation is entered under %s" % conds, c)
    # _handle_partial: stitching loop
    wl = [n for n in own_nodes(hp.node) if isinstance(n, ast.While)]
    arr = None
    if len(wl) == 1:
        for a in C.atoms_of(wl[0].test):
            if isinstance(a, ast.Compare) and len(a.ops) == 1 and isinstance(a.ops[0], ast.Lt) and isinstance(a.left, ast.Call) and norm(a.left.func) == "len" \
                    and len(a.left.args) == 1 and isinstance(a.left.args[0], ast.Name) and norm(a.comparators[0]) == PL:
                arr = a.left.args[0].id
    if len(wl) != 1:
        ctx.undecided("C01.6", hp, "stitching loop not found")
    elif arr is None:
        atoms_ = C.atoms_of(wl[0].test)
        bounded = [a for a in atoms_ if isinstance(a, ast.Compare) and len(a.ops) == 1 and isinstance(a.ops[0], (ast.Lt, ast.Gt, ast.LtE, ast.GtE, ast.NotEq)) and PL in (norm(a.left), norm(a.comparators[0]))]
        nf_at = [i for i, a in enumerate(atoms_) if norm(a).endswith("next_file()")]
        counted = [a for a in atoms_ if isinstance(a, ast.Compare) and len(a.ops) == 1 and isinstance(a.ops[0], (ast.Gt, ast.NotEq, ast.GtE, ast.Lt)) and isinstance(a.left, ast.Name)
                   and isinstance(a.comparators[0], ast.Constant) and a.comparators[0].value in (0, 1)] + [a for a in atoms_ if isinstance(a, ast.Name)]
        bounded = bounded or counted          # `missing > 0`: a count-down of what the piece still lacks
        if bounded and nf_at and isinstance(wl[0].test, ast.BoolOp) and isinstance(wl[0].test.op, ast.And) and atoms_.index(bounded[0]) < nf_at[0]:
            # another way of tracking how much of the piece is filled (a fill counter instead of len()): not modelled
            ctx.undecided("C01.6", hp, "stitching loop `%s` tracks the filled part of the piece in a way the extractor does not model" % norm(wl[0].test), wl[0].test)
        elif not nf_at:
            # the condition does not open the next file at all: the loop is left from its body (`while True: ... break`), a
            # form whose exits this rule does not read
            ctx.undecided("C01.6", hp, "the stitching loop `while %s` is left from inside its body; under which conditions the next file is opened is not decided for this form" % norm(wl[0].test), wl[0].test)
        else:
            ctx.violated("C01.6", hp, "stitching loop condition is `%s`: must be `len(piece) < piece_length and next_file()` in that order (else a file is opened and skipped when the piece is already full)" % norm(wl[0].test), wl[0].test)
    else:
        # the piece being stitched starts as exactly the bytes read: the parameter (handed buf[:n], judged by the slice
        # discipline at the call) or a local defined as p[:s] from the (buffer, count) parameters
        params = [p for p in hp.params if p != hp.self_name]
        if arr not in params:
            ds = [n for n in own_nodes(hp.node) if isinstance(n, ast.Assign) and len(n.targets) == 1 and isinstance(n.targets[0], ast.Name) and n.targets[0].id == arr]
            okd = len(ds) == 1 and isinstance(ds[0].value, ast.Subscript) and isinstance(ds[0].value.slice, ast.Slice) and ds[0].value.slice.lower is None \
                and isinstance(ds[0].value.value, ast.Name) and ds[0].value.value.id in params and isinstance(ds[0].value.slice.upper, ast.Name) and ds[0].value.slice.upper.id in params
            if not okd:
                ctx.undecided("C01.6", hp, "the piece being stitched (%r) is not the parameter nor a prefix slice of it" % arr, ds[0] if ds else hp.node)
        t = wl[0].test
        atoms = [norm(a) for a in C.atoms_of(t)]
        ok = isinstance(t, ast.BoolOp) and isinstance(t.op, ast.And) and "len(%s) < %s" % (arr, PL) in atoms and any(a.endswith("next_file()") for a in atoms) \
            and atoms.index("len(%s) < %s" % (arr, PL)) < [i for i, a in enumerate(atoms) if a.endswith("next_file()")][0]
        if not any(a.endswith("next_file()") for a in atoms) and "len(%s) < %s" % (arr, PL) in atoms:
            # the next file is opened in the body of the loop, not in its condition: another way of writing the hand-over
            # (what happens when the list is exhausted is judged with the end of the iteration)
            ctx.undecided("C01.6", hp, "the stitching loop `while %s` opens the next file in its body; that no file is opened once the piece is full is not decided for this form" % norm(t), t)
        else:
            ctx.decide("C01.6", hp, ok, "stitching continues while the piece is short and (then) another file can be opened",
                       "stitching loop condition is `%s`: must be `len(piece) < piece_length and next_file()` in that order (else a file is opened and skipped when the piece is already full)" % norm(t), t)
        # the buffer handed to readinto inside the stitching loop: allocated for piece_length - len(piece so far), and the piece
        # must not have grown between the allocation and the read (otherwise the request is stale and the next file is over-read)
        ghp = C.cfg_of(hp)
        rdf = ReachDefs(hp, ghp)
        want = Lin.atom(PL).sub(Lin.atom("len(%s)" % arr))
        for rd in [n for n in ast.walk(wl[0]) if isinstance(n, ast.Call) and isinstance(n.func, ast.Attribute) and n.func.attr == "readinto" and n.args and isinstance(n.args[0], ast.Name)]:
            B = rd.args[0].id
            rn = C.stmt_node(ctx, hp, rd)
            defs = rdf.reaching(B, rn)
            grows = [C.stmt_node(ctx, hp, x) for x in own_nodes(hp.node) if isinstance(x, ast.Call) and isinstance(x.func, ast.Attribute) and x.func.attr in ("extend", "append")
                     and norm(x.func.value) == arr]
            if not defs:
                ctx.undecided("C01.6", hp, "definition of the read buffer %r not found" % B, rd)
            for d in defs:
                v = d.value
                size_e = v.args[0] if isinstance(v, ast.Call) and norm(v.func) in ("bytearray", "bytes") and v.args else None
                if isinstance(size_e, ast.Name):
                    sd = rdf.reaching(size_e.id, d.node)
                    vals = [x.value for x in sd if x.kind == "assign"]
                    size_e = vals[0] if len(vals) == 1 and len(sd) == 1 else size_e
                szf = lin_of(size_e, consts) if size_e is not None else None
                stale = any(m is not None and m in ghp.reachable(d.node, avoiding={d.node}) and rn in ghp.reachable(m, avoiding={d.node}) and m is not d.node for m in grows)
                capped = isinstance(size_e, ast.Call) and isinstance(size_e.func, ast.Name) and size_e.func.id == "min" and not size_e.keywords \
                    and any(lin_of(a_, consts) == want for a_ in size_e.args)
                if capped:
                    # min(what is missing, something else): never more than what is missing; whether it can be LESS than what
                    # the file holds (bytes left behind when the next file is opened) depends on what the other bound is
                    ctx.undecided("C01.6", hp, "continuation buffer is allocated with `%s` bytes: what is missing, capped by another quantity; that the file never holds more than that cap was not established" % norm(size_e)[:80],
                                  d.stmt if d.stmt is not None else rd)
                elif szf != want:
                    ctx.violated("C01.6", hp, "continuation buffer is allocated with %s bytes; must be %s" % (szf, want), d.stmt if d.stmt is not None else rd)
                elif stale:
                    ctx.violated("C01.6", hp, "the continuation buffer is sized once (%s) but the piece grows before it is read into again: with three or more files in one piece the request is larger than what is missing and the piece is over-filled" % want,
                                 d.stmt if d.stmt is not None else rd)
                else:
                    ctx.holds("C01.6", hp, "continuation requests piece_length - len(piece so far) bytes, recomputed for every file", d.stmt if d.stmt is not None else rd)
        def _is_ext(n):
            return isinstance(n, ast.Call) and isinstance(n.func, ast.Attribute) and n.func.attr == "extend" and norm(n.func.value) == arr

        def _per_path(stmts):
            # (fewest, most) extends of the piece along one pass through the statements: the arms of an `if` exclude each other
            lo = hi = 0
            for st_ in stmts:
                if isinstance(st_, ast.If):
                    a, b = _per_path(st_.body), _per_path(st_.orelse)
                    lo, hi = lo + min(a[0], b[0]), hi + max(a[1], b[1])
                else:
                    k_ = sum(1 for n in ast.walk(st_) if _is_ext(n))
                    lo, hi = lo + k_, hi + k_
            return lo, hi
        exts = _per_path(wl[0].body)
        ctx.decide("C01.6", hp, exts == (1, 1), "the bytes read are appended to the piece once per file",
                   "expected one extend of the piece on every pass through the stitching loop, found between %d and %d" % exts, wl[0])
    # next_file
    incs = [n for n in own_nodes(nf.node) if isinstance(n, ast.AugAssign) and norm(n.target) == "self.index"]
    gnf = C.cfg_of(nf)
    ok = len(incs) == 1 and isinstance(incs[0].op, ast.Add) and norm(incs[0].value) == "1" and gnf.dominates(C.stmt_node(ctx, nf, incs[0]), gnf.exit)
    ctx.decide("C01.6", nf, ok, "the file index advances by exactly one per hand-over", "the file index does not advance by exactly one on every hand-over: a file is skipped or read twice", incs[0] if incs else nf.node)
    def opened_paths(fn):
        """[(path expression as written in fn, statement of fn that leads to the open)]: open(...) in fn itself, or in a
        method of the class that fn calls with the path as argument (an _open(path) helper shared by both call sites)."""
        out = []
        for n in own_nodes(fn.node):
            if isinstance(n, ast.Call) and C.is_ext_call(ctx, n, fn, ("builtins.open",)) and n.args:
                out.append((n.args[0], n))
            elif isinstance(n, ast.Call):
                for h in C.targets_of(ctx, fn, n):
                    if h is fn or h.cls is None or h.cls not in ctx.prog.mro(cls) + [cls]:
                        continue
                    bound = ctx.res.bind_args(h, n, not h.is_static)
                    for o_ in own_nodes(h.node):
                        if isinstance(o_, ast.Call) and C.is_ext_call(ctx, o_, h, ("builtins.open",)) and o_.args and isinstance(o_.args[0], ast.Name) \
                                and o_.args[0].id in bound and isinstance(bound[o_.args[0].id], ast.AST):
                            out.append((bound[o_.args[0].id], n))
        return out
    for a, o in opened_paths(nf):
        if isinstance(a, ast.Name):
            vals = [q for w, q in ctx.res.bindings(nf).get(a.id, []) if w == "value"]
            a = vals[0] if len(vals) == 1 else a
        ok = norm(a) == "self.paths[self.index]"
        on = C.stmt_node(ctx, nf, o)
        def past_the_end(x):
            """the file index has run past the list"""
            if isinstance(x, ast.Compare) and len(x.ops) == 1:
                l, r, op = norm(x.left), norm(x.comparators[0]), type(x.ops[0])
                if (l, r) == ("len(self.paths)", "self.index"):
                    l, r, op = r, l, {ast.Lt: ast.Gt, ast.Gt: ast.Lt, ast.LtE: ast.GtE, ast.GtE: ast.LtE}.get(op, op)
                if (l, r) == ("self.index", "len(self.paths)"):
                    return {ast.Lt: False, ast.GtE: True, ast.NotEq: False, ast.Eq: True, ast.Gt: None, ast.LtE: None}.get(op)
            return None
        # the open is out of reach once the index has run past the list (whichever way the bound test is written)
        guarded = on is not None and on not in C.reach_under(gnf, gnf.entry, past_the_end)
        listed = isinstance(a, ast.Subscript) and norm(a.value) == "self.paths"
        if not listed:
            # the next file is not taken from self.paths by index (an iterator over the list, a queue ...): which file is
            # opened next is not decided by this rule
            ctx.undecided("C01.6", nf, "the hand-over opens `%s`, not an indexed element of self.paths: that it is the next file of the list is not decided" % norm(a), o)
        else:
            ctx.decide("C01.6", nf, ok and guarded, "hand-over opens paths[index] when index < len(paths)", "hand-over opens %s under a different bound test" % norm(a), o)
    init = cls.methods["__init__"]
    o0 = opened_paths(init)
    i0 = [n for n in own_nodes(init.node) if isinstance(n, ast.Assign) and norm(n.targets[0]) == "self.index"]
    ok = len(o0) == 1 and norm(o0[0][0]) == "self.paths[0]" and len(i0) == 1 and norm(i0[0].value) == "0"
    if not o0:
        ctx.undecided("C01.6", init, "where the first file is opened could not be found (not in the constructor nor in a method it calls with the path)", init.node)
    elif not all(isinstance(a_, ast.Subscript) and norm(a_.value) == "self.paths" for a_, _ in o0):
        ctx.undecided("C01.6", init, "the first file is opened as `%s`, not as an indexed element of self.paths: that hashing starts with the first file is not decided" % norm(o0[0][0]), o0[0][1])
    else:
        ctx.decide("C01.6", init, ok, "hashing starts at paths[0] with index 0", "hashing does not start at paths[0] / index 0", o0[0][1])
    pa = [n for n in own_nodes(init.node) if isinstance(n, ast.Assign) and norm(n.targets[0]) == "self.paths"]
    given = init.params[1]
    if len(pa) == 1 and norm(pa[0].value) in (given, "list(%s)" % given, "%s[:]" % given):
        ctx.holds("C01.6", init, "the hasher keeps the list it was given, unchanged", pa[0])
    elif len(pa) == 1 and _default_resort_of(pa[0].value, given):
        # a default re-sort is the identity exactly when the list it is given is in default order already
        orders = ctx.info.get("listing_order", [])
        if orders and all(o == "default" for o in orders):
            ctx.holds("C01.6", init, "the hasher re-sorts the list it is given with the default ordering, which is the order the listing already has", pa[0])
        elif orders:
            ctx.violated("C01.6", init, "the hasher re-sorts its copy of the file list (%s) while info.files keeps the listing's own order (%s): whenever the two orders differ the pieces hash the files in "
                         "another order than the one listed" % (norm(pa[0].value), orders[0]), pa[0])
        else:
            ctx.undecided("C01.6", init, "the hasher re-sorts its copy of the file list; the order of the listing is not known", pa[0])
    else:
        ctx.violated("C01.6", init, "the hasher stores %s instead of the list it was given" % (norm(pa[0].value) if pa else "?"), pa[0] if pa else init.node)


def _attr_alloc(ctx, fn, attr):
    """(capacity text, where) of `self.attr = bytearray(E)` when that is the attribute's only definition in the class."""
    cls = fn.cls
    if cls is None:
        return None
    defs = []
    for c in ctx.prog.mro(cls):
        for m in c.methods.values():
            for n in own_nodes(m.node):
                if isinstance(n, ast.Assign):
                    for t in n.targets:
                        if isinstance(t, ast.Attribute) and t.attr == attr and isinstance(t.value, ast.Name) and t.value.id == m.self_name \
                                and not (isinstance(n.value, ast.Constant) and n.value.value is None):      # `self.buf = None` placeholder
                            defs.append((m, n))
    if len(defs) != 1:
        return None
    m, n = defs[0]
    v = n.value
    if not (isinstance(v, ast.Call) and norm(v.func) == "bytearray" and len(v.args) == 1):
        return None
    e = v.args[0]
    if isinstance(e, ast.Name) and e.id in m.params:
        # self.x = x stored in the same constructor: the parameter is the attribute
        for k in own_nodes(m.node):
            if isinstance(k, ast.Assign) and isinstance(k.value, ast.Name) and k.value.id == e.id:
                for t in k.targets:
                    if isinstance(t, ast.Attribute) and isinstance(t.value, ast.Name) and t.value.id == m.self_name:
                        return "%s.%s" % (fn.self_name, t.attr)
        return None
    return norm(e).replace(m.self_name + ".", fn.self_name + ".", 1) if m.self_name else norm(e)


def buffer_info(ctx, fn, g, rdf, buf, rn):
    """(capacity text | None, fresh) of the buffer `buf` at the read node: fresh = a new zero-filled bytearray is allocated
    for every execution of the read (so whatever lies beyond the bytes read is zero, not the previous piece)."""
    defs = rdf.reaching(buf, rn)
    caps = set()
    fresh = bool(defs)
    for d in defs:
        v = d.value if d.kind == "assign" else None
        if isinstance(v, ast.Call) and norm(v.func) == "bytearray" and len(v.args) == 1:
            caps.add(norm(v.args[0]))
            # re-allocated between two executions of the read?
            nxt = [s for s, _ in rn.succ]
            again = any(rn in g.reachable(s) for s in nxt)
            if again and not all(g.must_pass(s, rn, {d.node}) for s in nxt if rn in g.reachable(s)):
                fresh = False
        elif isinstance(v, ast.Attribute) and isinstance(v.value, ast.Name) and v.value.id == fn.self_name:
            cap = _attr_alloc(ctx, fn, v.attr)
            caps.add(cap)
            fresh = False
        else:
            caps.add(None)
            fresh = False
    cap = caps.pop() if len(caps) == 1 else None
    return cap, fresh


def slice_discipline(ctx, rid, fns, consts):
    """A buffer filled by n = f.readinto(buf) is consumed as buf[:n] unless the path implies n == len(buf).  A whole-buffer
    use elsewhere is the bytes read followed by whatever the buffer held before: zeros if it is allocated anew for every
    read (a zero-extension - legitimate only where padding to the piece length is the specification, i.e. under the align
    switch), the previous piece otherwise."""
    sites = 0
    for fn in fns:
        g = C.cfg_of(fn)
        rdf = ReachDefs(fn, g)
        for rd in [n for n in own_nodes(fn.node) if isinstance(n, ast.Assign) and isinstance(n.value, ast.Call) and isinstance(n.value.func, ast.Attribute)
                   and n.value.func.attr == "readinto" and n.value.args and isinstance(n.value.args[0], ast.Name) and isinstance(n.targets[0], ast.Name)]:
            buf, sz = rd.value.args[0].id, rd.targets[0].id
            rn = C.stmt_node(ctx, fn, rd)
            cap, fresh = buffer_info(ctx, fn, g, rdf, buf, rn)
            sites += _buffer_uses(ctx, rid, fn, g, buf, sz, rn, rd.value, cap, fresh, 0)
    return sites


def _buffer_uses(ctx, rid, fn, g, buf, sz, rn, skip, cap, fresh, depth):
    sites = 0
    reach = g.reachable(rn) if rn is not None else g.live_nodes()
    for use in own_nodes(fn.node):
        if not (isinstance(use, ast.Name) and use.id == buf and isinstance(use.ctx, ast.Load)):
            continue
        par = ctx.prog.parent.get(use)
        if par is skip:
            continue
        un = C.stmt_node(ctx, fn, use)
        if un is None or un not in reach or un is rn:
            continue
        if isinstance(par, ast.Call) and isinstance(par.func, ast.Name) and par.func.id == "len":
            continue
        if isinstance(par, ast.Call) and isinstance(par.func, ast.Name) and par.func.id == "memoryview":
            sites += 1
            ctx.undecided(rid, fn, "buffer %r is aliased through memoryview(); what is read from or written through the view is not tracked" % buf, par)
            continue
        if isinstance(par, ast.Assign) and par.value is use and len(par.targets) == 1 and isinstance(par.targets[0], ast.Name):
            # another name for the same buffer (`data = piece`): not a use; what is done through the other name is not followed
            sites += 1
            ctx.undecided(rid, fn, "buffer %r gets a second name (`%s`); what is read through that name is not tracked" % (buf, norm(par)[:40]), par)
            continue
        if isinstance(par, ast.Call) and isinstance(par.func, ast.Attribute) and par.func.attr == "readinto" and par.args and par.args[0] is use:
            continue        # another read into the same buffer: judged as a read of its own
        sites += 1
        if isinstance(par, ast.Subscript) and isinstance(par.slice, ast.Slice) and par.slice.lower is None and norm(par.slice.upper) == sz:
            ctx.holds(rid, fn, "buffer %r is consumed as %s[:%s]" % (buf, buf, sz), par)
            continue
        # handed on together with its fill count: judged inside the callee
        if isinstance(par, ast.Call) and depth < 2 and any(isinstance(a, ast.Name) and a.id == sz for a in par.args):
            tg = [t for t in C.targets_of(ctx, fn, par)]
            if tg:
                for t in tg:
                    ps = [x for x in t.params if x != t.self_name]
                    bi = [i for i, a in enumerate(par.args) if a is use]
                    si = [i for i, a in enumerate(par.args) if isinstance(a, ast.Name) and a.id == sz]
                    if bi and si and max(bi[0], si[0]) < len(ps):
                        sites += _buffer_uses(ctx, rid, t, C.cfg_of(t), ps[bi[0]], ps[si[0]], None, None, cap.replace(fn.self_name + ".", t.self_name + ".") if cap and fn.self_name and t.self_name else cap, fresh, depth + 1)
                    else:
                        ctx.undecided(rid, fn, "buffer %r is handed to %s in a way that is not understood" % (buf, t.name), par)
                continue
        # whole-buffer use: the path must imply sz == capacity, or (fresh buffer) the align switch
        deps = [(b, lab) for b, lab in g.control_deps(un) if C.test_expr(b) is not None]

        def reachable_when(short, align):
            """Can the use be reached when the read was short (resp. full) and the align switch has the given value?
            False only when some controlling test is decided the other way."""
            def atom(x):
                if isinstance(x, ast.Attribute) and x.attr == "align":
                    return align
                if isinstance(x, ast.Compare) and len(x.ops) == 1 and cap is not None:
                    l, r, op = norm(x.left), norm(x.comparators[0]), type(x.ops[0])
                    if l == cap and r == sz:
                        l, r, op = r, l, {ast.Lt: ast.Gt, ast.Gt: ast.Lt, ast.LtE: ast.GtE, ast.GtE: ast.LtE}.get(op, op)
                    if l == sz and r == cap:
                        return {ast.Lt: short, ast.NotEq: short, ast.Eq: not short, ast.GtE: not short, ast.LtE: True, ast.Gt: False}.get(op)
                    if l == sz and r == "0" and not short:
                        return {ast.Eq: False, ast.NotEq: True, ast.Gt: True, ast.LtE: False}.get(op)
                return None
            if rn is not None:
                return un in C.reach_under(g, rn, atom, stop=[rn])
            for b, lab in deps:
                forced = C.branch_when(b, atom)
                if forced is not None and forced != lab:
                    return False
            return True
        full = cap is not None and not reachable_when(True, True) and not reachable_when(True, False)
        aligned = cap is not None and not full and not reachable_when(True, False)
        if full:
            ctx.holds(rid, fn, "whole buffer %r is used only where %s == %s is implied" % (buf, sz, cap), par)
        elif cap is None:
            ctx.undecided(rid, fn, "buffer %r is used whole (%s); its capacity could not be determined" % (buf, norm(par)[:50]), par)
        elif fresh and aligned:
            ctx.holds(rid, fn, "under the align switch the freshly allocated buffer %r (%s zero bytes) is used whole: the bytes read followed by zeros up to the capacity" % (buf, cap), par)
        elif fresh:
            ctx.violated(rid, fn, "buffer %r is used whole (%s) after a short read outside the align arm: the piece is filled up with zeros where the next file's bytes belong" % (buf, norm(par)[:50]), par)
        else:
            ctx.violated(rid, fn, "buffer %r is used whole (%s) although only the first %s bytes were just read: stale bytes of the previous read are hashed" % (buf, norm(par)[:50], sz), par)
    return sites


def run(ctx):
    ctx.trust("the SHA-1 values themselves are NOT decided; hashlib.sha1")
    same_enumeration(ctx)
    enumeration(ctx)
    one_piece_length(ctx)
    v1_hasher(ctx)


MUTANTS = MUT_C01
QUICK_CANARIES = True
CLAIM = {
    "text": "Partial: decides that one sorted, complete enumeration feeds both the file list and the hasher, that lengths and relative paths are those of the same files, that one piece length is "
            "used and recorded, that only SHA-1 digests are produced and all of them concatenated, and the stitching facts of the v1 hasher that are visible as shapes and linear forms "
            "(buffer sizes, slice discipline, continuation request, loop guard, index hand-over). It does not decide the hash values for all file-size combinations. Also decided: every way the v1 hasher ends its iteration is the exhaustion of the last file; a re-sort of the hasher's copy of the list is accepted only when it reproduces the listing's own order; whole-buffer uses are judged with the buffer's capacity and freshness (re-allocated per read or reused).",
    "note": "Not decided: run-time behaviour of the read loops beyond the listed facts. Unrecognised shapes are undecided.",
    "technique": "reaching definitions (one enumeration), must-pass-through, shape facts and integer-linear normal forms of the stitching arithmetic",
    "design_ref": "DESIGN.md section 4, C01",
}
