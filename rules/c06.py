"""C06 - every metafile written is canonical, structurally valid bencoding."""
import ast

from tfsa.flow import Flow, walk_terms, walk_values, show, travels_in_container
from tfsa.loader import own_nodes, AnalysisError
from tfsa.pointsto import inplace_rekey, PointsTo, is_sorted_items_copy, sorted_copy_info, STAR, ELEM
from tfsa.reach import ReachDefs
from tfsa.report import norm
from tfsa.resolve import const_str
from . import common as C
from .pybenfacts import pyben_facts

PROP = "C06"
EXPLANATION = (
    "pyben emits dictionary keys in insertion order (re-validated from the installed pyben source on every run), so a "
    "written metafile is canonical iff every dictionary that is part of the dumped value has its keys inserted in "
    "ascending byte order. A field-sensitive points-to analysis (tfsa/pointsto.py) enumerates every dictionary object "
    "reachable from the argument of each dump site (pyben.dump, or pyben.dumps whose result is written to a file) "
    "together with its key path, and every statement that inserts into it. Each key path then needs one of: "
    "(C06.1) a re-keying dict(sorted(D.items())) with default ordering that is executed on every path to the dump "
    "after the last insertion (CFG dominance + reaching definitions, helper functions such as sort_meta inlined); "
    "(C06.2) a literal whose constant keys ascend and that is never inserted into; (C06.3) insertion only inside a loop "
    "over sorted(...) with the loop variable as key; or being an untouched part of a decoded, canonical input. "
    "C06.4 checks value kinds (bool/float/None/set cannot be bencoded canonically: pyben prints True as 'iTruee'), "
    "C06.5 the keys each version requires on every CFG path of each creator's assemble, C06.6 that 'pieces' only "
    "receives SHA-1 and piece layers / roots only SHA-256 values.")
RULE_TEXT = ("obligations: one per (dump site x key path with dictionaries) for C06.1/.2/.3, one per stored value for C06.4, "
             "one per CFG path of each assemble for C06.5, one per hash-bearing key for C06.6; non-trivial = needed points-to, "
             "dominance, reaching definitions or path enumeration")

BAD_KINDS = {("bool",), ("float",), ("none",), ("set",)}
CREATORS = {
    "torrentfile.torrent:TorrentFile": "v1",
    "torrentfile.torrent:TorrentFileV2": "v2",
    "torrentfile.torrent:TorrentFileHybrid": "hybrid",
    "torrentfile.torrent:TorrentAssembler": "v2|hybrid",
}


# ---------------------------------------------------------------------------------------------- helpers
def find_dump_sites(ctx):
    """[(fn, call node, object expr, how)] where a bencoded metafile leaves the process."""
    sites = []
    for fn in ctx.prog.functions.values():
        for n in own_nodes(fn.node):
            if not isinstance(n, ast.Call):
                continue
            exts = C.ext_name(ctx, n, fn)
            if "pyben.dump" in exts and n.args:
                sites.append((fn, n, n.args[0], "pyben.dump"))
            elif "pyben.dumps" in exts and n.args:
                parent = ctx.prog.parent.get(n)
                written = False
                if isinstance(parent, ast.Assign) and len(parent.targets) == 1 and isinstance(parent.targets[0], ast.Name):
                    var = parent.targets[0].id
                    for m in own_nodes(fn.node):
                        if isinstance(m, ast.Call) and isinstance(m.func, ast.Attribute) and m.func.attr in ("write", "writelines") \
                                and any(isinstance(a, ast.Name) and a.id == var for a in m.args):
                            if _is_writable_file(ctx, m.func.value, fn):
                                written = True
                elif isinstance(parent, ast.Call) and isinstance(parent.func, ast.Attribute) and parent.func.attr in ("write", "write_bytes"):
                    written = True
                elif isinstance(parent, ast.Return):
                    # returned encoding: followed one level to the callers' writes
                    for caller, call, _ in ctx.res.callsites_of(fn):
                        p2 = ctx.prog.parent.get(call)
                        if isinstance(p2, ast.Call) and isinstance(p2.func, ast.Attribute) and p2.func.attr in ("write", "write_bytes"):
                            written = True
                if written:
                    sites.append((fn, n, n.args[0], "pyben.dumps -> write"))
    return sites


def _is_writable_file(ctx, recv, fn):
    for k in ctx.res.kinds(recv, fn):
        if k[0] == "file" and (k[1] is None or set(k[1]) & set("wax+")):
            return True
        if k[0] in ("unknown", "umeth"):
            return True
    return False


def is_dictlike(ctx, pt, o):
    if o.kind in ("dict", "loaded", "loadedchild"):
        return True
    if o.kind == "copy":
        n = o.node
        if o.sorted:
            return True
        if isinstance(n, ast.Call):
            ks = ctx.res.kinds(n.func, o.fn, o.mod)
            if any(k in (("ext", "builtins.dict"), ("ext", "collections.OrderedDict")) for k in ks):
                return True
            if isinstance(n.func, ast.Attribute) and n.func.attr == "copy":
                return any(is_dictlike(ctx, pt, s) for s in pt._copy_sources(o))
        if isinstance(n, ast.BinOp) and isinstance(n.op, ast.BitOr):
            return True
    return False


def enclosing_sorted_loop(ctx, ins):
    """The insertion  T[k] = v  sits in  `for k in sorted(E)`  (default ordering): returns the For node."""
    if ins.how != "store" or not isinstance(ins.key, ast.Name):
        return None
    k = ins.key.id
    n = ins.node
    while n is not None and n is not ins.fn.node:
        n = ctx.prog.parent.get(n)
        if isinstance(n, ast.For) and isinstance(n.target, ast.Name) and n.target.id == k:
            it = n.iter
            if isinstance(it, ast.Call) and len(it.args) == 1 and not it.keywords and C.is_ext_call(ctx, it, ins.fn, ("builtins.sorted",)):
                return n
            sl = C.sorted_listing_generator(ctx, ins.fn, it)
            if sl is not None and sl[1] is None:
                return n
            return None
        if isinstance(n, ast.For) and isinstance(n.target, ast.Tuple) and any(isinstance(t, ast.Name) and t.id == k for t in n.target.elts):
            # for name, entry in <generator over a sorted listing>: the keys arrive in the order of the names
            sl = C.sorted_listing_generator(ctx, ins.fn, n.iter)
            pos = [i for i, t in enumerate(n.target.elts) if isinstance(t, ast.Name) and t.id == k][0]
            return n if sl is not None and sl[1] == pos else None
    return None


def ordered_by_construction(ctx, pt, ins, all_ins):
    """C06.3: dynamic-key insertion that produces ascending keys by construction."""
    asc = appended_in_key_order(ctx, pt, ins, all_ins)
    if asc:
        return True, asc
    loop = enclosing_sorted_loop(ctx, ins)
    if loop is None:
        return False, "key is not the loop variable of a `for k in sorted(...)` loop with default ordering"
    base = pt.pts(ins.base, ins.fn)
    for o in base:
        if not (o.kind == "dict" and o.fn is ins.fn and isinstance(o.node, ast.Dict) and not o.node.keys):
            if not (o.kind == "dict" and isinstance(o.node, ast.Call) and not o.node.args and not o.node.keywords):
                return False, "target dictionary is not created empty in the same function"
    for other, objs in all_ins:
        if other is not ins and (objs & base) and other.how not in ("del", "rekey"):
            return False, "the dictionary is also inserted into at line %s" % getattr(other.node, "lineno", "?")
    return True, "filled only in `for %s in %s`" % (ins.key.id, norm(loop.iter))


def appended_in_key_order(ctx, pt, ins, all_ins):
    """A constant key stored into a dictionary that the same function created as a display of constant keys, all of them
    smaller, and every other insertion into it is a constant-key store of this function that comes earlier with a smaller
    key or later with a larger one (program order along the function's statements): the keys appear in ascending order
    whichever of the stores are executed.  Returns a reason or None."""
    ck = const_str(ins.key) if ins.key is not None and ins.how == "store" else None
    if ck is None:
        return None
    base = pt.pts(ins.base, ins.fn)
    if not base:
        return None
    shown = []
    for o in base:
        # (the local may name one of several displays, e.g. one per arm of an if: each must qualify)
        if not (o.kind == "dict" and o.fn is ins.fn and isinstance(o.node, ast.Dict) and all(k is not None and const_str(k) is not None for k in o.node.keys)):
            return None
        shown_o = [const_str(k) for k in o.node.keys]
        if shown_o != sorted(shown_o) or (shown_o and not shown_o[-1] < ck):
            return None
        shown = shown_o
    g = C.cfg_of(ins.fn)
    me = C.stmt_node(ctx, ins.fn, ins.node)
    for other, objs in all_ins:
        if other is ins or not (objs & base) or other.how in ("del", "rekey"):
            continue
        ok_ = other.fn is ins.fn and other.how == "store" and other.key is not None and const_str(other.key) is not None
        if not ok_:
            return None
        on = C.stmt_node(ctx, ins.fn, other.node)
        k2 = const_str(other.key)
        before, after = me in g.reachable(on) and on is not me, on in g.reachable(me) and on is not me
        if before and after:
            return None          # in a loop together
        if (before and not k2 < ck) or (after and not ck < k2):
            return None          # (stores that cannot follow one another sit on different paths: no constraint)
    return "constant key %r is stored after the display {%s} of smaller keys, other stores in ascending order" % (ck, ", ".join(shown))


def key_certainly_present(ctx, pt, ins):
    """Constant-key store whose key is known to exist already (cannot change the key order)."""
    if ins.how != "store":
        return False
    ck = const_str(ins.key) if ins.key is not None else None
    if ck is None:
        return False
    fn = ins.fn
    g = C.cfg_of(fn)
    inode = C.stmt_node(ctx, fn, ins.node)
    base = pt.pts(ins.base, fn)
    # (a) guarded by   ck in T
    for (b, lab) in g.control_deps(inode):
        t = C.test_expr(b)
        if t is None:
            continue

        def atom(x):
            if isinstance(x, ast.Compare) and len(x.ops) == 1 and isinstance(x.ops[0], ast.In) and const_str(x.left) == ck:
                if pt.pts(x.comparators[0], fn) & base:
                    return True
            return None
        if C.branch_when(b, atom) == lab:
            return True
    # (b) an unguarded read  A[ck]  of an alias dominates (or is part of) the statement
    for n in own_nodes(fn.node):
        if isinstance(n, ast.Subscript) and isinstance(n.ctx, ast.Load) and const_str(n.slice) == ck:
            if pt.pts(n.value, fn) & base:
                rn = C.stmt_node(ctx, fn, n)
                if rn is not None and (rn is inode or g.dominates(rn, inode)):
                    return True
    return False


class SortEvent:
    def __init__(self, fn, stmt, target, src, deep=False, inplace=False, src_fn=None):
        self.fn, self.stmt, self.target, self.src, self.deep, self.inplace = fn, stmt, target, src, deep, inplace
        self.src_fn = src_fn        # function in which `src` is to be read (a callee whose return value is the sorted copy)


def sort_events(ctx, pt, fn):
    out = []
    for n in own_nodes(fn.node):
        if isinstance(n, ast.Assign) and len(n.targets) > 1:
            # a = b = dict(sorted(x.items())): one sorted copy known by every target
            info = sorted_copy_info(ctx.res, n.value, fn, fn.module)
            if info is not None:
                for t_ in n.targets:
                    out.append(SortEvent(fn, n, t_, info[0], info[1]))
        if isinstance(n, ast.Assign) and len(n.targets) == 1:
            info = sorted_copy_info(ctx.res, n.value, fn, fn.module)
            if info is not None:
                out.append(SortEvent(fn, n, n.targets[0], info[0], info[1]))
            elif isinstance(n.value, ast.Call):
                # T = h(...)  where every return of the package function h is a sorted copy of one and the same expression
                tg = [t[1] for t in ctx.res.call_targets(n.value, fn) if t[0] == "pkg"]
                if len(tg) == 1 and not tg[0].is_generator:
                    h = tg[0]
                    rets = [r for r in own_nodes(h.node) if isinstance(r, ast.Return) and r.value is not None]
                    infos = [sorted_copy_info(ctx.res, r.value, h, h.module) for r in rets]
                    if rets and all(i is not None for i in infos) and len({norm(i[0]) for i in infos}) == 1:
                        out.append(SortEvent(fn, n, n.targets[0], infos[0][0], any(i[1] for i in infos), src_fn=h))
        elif isinstance(n, ast.For):
            d = inplace_rekey(n)
            if d is not None:
                out.append(SortEvent(fn, n, None, d, False, inplace=True))
    return out


def _within_stmt(ctx, node, outer):
    p = node
    while p is not None:
        if p is outer:
            return True
        p = ctx.prog.parent.get(p)
    return False


def same_attribute_alias(ctx, pt, ev, path, objs, all_ins):
    """In-place re-keying of `self.attr` (or a local bound to it) orders the object at `path` iff, for every instance, that
    object IS the value of the attribute: every object at the path was put there by `X[key] = self.attr` in the same class
    family and the attribute is bound exactly once per class.  Returns True / None (not established)."""
    d = ev.src
    if isinstance(d, ast.Name):
        vals = [p_ for w, p_ in ctx.res.bindings(ev.fn).get(d.id, []) if w == "value"]
        if len(vals) != 1:
            return None
        d = vals[0]
    if not (isinstance(d, ast.Attribute) and isinstance(d.value, ast.Name) and d.value.id == ev.fn.self_name):
        return None
    attr = d.attr
    src_objs = pt.pts(d, ev.fn)
    if not objs or not (set(objs) <= set(src_objs)):
        return None
    # how did each object get to the path?
    last_key = path[-1]
    stores = [i for (i, o) in all_ins if i.how == "store" and (const_str(i.key) if i.key is not None else None) == last_key and (pt.pts(i.value, i.fn) & set(objs))]
    if not stores:
        return None
    for i in stores:
        v = i.value
        if not (isinstance(v, ast.Attribute) and isinstance(v.value, ast.Name) and i.fn.self_name and v.value.id == i.fn.self_name and v.attr == attr):
            return None
    # one binding of the attribute per class
    for c in ctx.prog.classes.values():
        n_st = 0
        for m in c.methods.values():
            for x in own_nodes(m.node):
                if isinstance(x, ast.Assign):
                    n_st += sum(1 for t in x.targets if isinstance(t, ast.Attribute) and t.attr == attr and isinstance(t.value, ast.Name) and t.value.id == m.self_name)
        if n_st > 1:
            return None
    return True


def is_sorted_value(ctx, pt, expr, fn, at_node, depth=0):
    """The value of expr at CFG node at_node is a freshly re-keyed dictionary on every path."""
    if depth > 5:
        return False
    if isinstance(expr, (ast.Call, ast.DictComp)):
        if is_sorted_items_copy(ctx.res, expr, fn, fn.module) is not None:
            return True
    if isinstance(expr, ast.Call):
        tg = ctx.res.call_targets(expr, fn)
        pk = [t[1] for t in tg if t[0] == "pkg"]
        if pk and len(pk) == len([t for t in tg if t[0] != "umeth"]):
            for h in pk:
                rets = [n for n in own_nodes(h.node) if isinstance(n, ast.Return)]
                if not rets:
                    return False
                for r in rets:
                    if r.value is None or not is_sorted_value(ctx, pt, r.value, h, C.stmt_node(ctx, h, r), depth + 1):
                        return False
            return True
        return False
    g = C.cfg_of(fn)
    if isinstance(expr, ast.Name):
        rd = ReachDefs(fn, g)
        defs = rd.reaching(expr.id, at_node)
        if not defs:
            return False
        for d in defs:
            if d.kind != "assign" or d.value is None or isinstance(d.value, tuple):
                return False
            if not is_sorted_value(ctx, pt, d.value, fn, d.node, depth + 1):
                return False
        return True
    if isinstance(expr, ast.Attribute) and isinstance(expr.value, ast.Name) and expr.value.id == fn.self_name:
        stores = []
        for n in own_nodes(fn.node):
            if isinstance(n, ast.Assign):
                for t in n.targets:
                    if isinstance(t, ast.Attribute) and isinstance(t.value, ast.Name) and t.value.id == fn.self_name and t.attr == expr.attr:
                        stores.append(n)
        doms = [s for s in stores if g.dominates(C.stmt_node(ctx, fn, s), at_node) and C.stmt_node(ctx, fn, s) is not at_node]
        if not doms:
            return False
        last = doms[0]
        for s in doms[1:]:
            if g.dominates(C.stmt_node(ctx, fn, last), C.stmt_node(ctx, fn, s)):
                last = s
        ln = C.stmt_node(ctx, fn, last)
        for s in stores:
            sn = C.stmt_node(ctx, fn, s)
            if s is not last and sn in g.reachable(ln) and at_node in g.reachable(sn) and sn is not ln:
                return False
        return is_sorted_value(ctx, pt, last.value, fn, ln, depth + 1)
    return False


# ---------------------------------------------------------------------------------------------- C06.1-3
def canonical_order(ctx, pt, site):
    fn, call, obj, how = site
    g = C.cfg_of(fn)
    dnode = C.stmt_node(ctx, fn, call)
    roots = pt.pts(obj, fn)
    if not roots:
        ctx.undecided("C06.1", fn, "cannot tell which dictionaries reach the dump", call)
        return 0
    kp = pt.key_paths(roots)
    dicts = {o: ps for o, ps in kp.items() if is_dictlike(ctx, pt, o)}
    all_ins = pt.insertions_into(dicts.keys())
    # group by key path
    paths = {}
    for o, ps in dicts.items():
        for p in ps:
            paths.setdefault(p, set()).add(o)
    # helper functions called directly from the dump function (inlined one level)
    helpers = {}
    for s in ctx.cg.sites.get(fn, []):
        if isinstance(s.node, ast.Call):
            for t in s.targets:
                if t[0] == "pkg" and t[1] not in s.approx and t[1] is not fn:
                    helpers.setdefault(t[1], []).append(s.node)
    events = sort_events(ctx, pt, fn)
    for h in helpers:
        events += sort_events(ctx, pt, h)
    nob = 0
    for p in sorted(paths, key=lambda x: (len(x), x)):
        objs = paths[p]
        ins_here = [(i, o) for (i, o) in all_ins if (o & objs) and i.how not in ("del", "rekey")]
        unordered = []
        for i, o in ins_here:
            ok, why = ordered_by_construction(ctx, pt, i, all_ins)
            if not ok:
                unordered.append((i, why))
        label = "/".join(p) if p else "<top level>"
        if not unordered:
            # C06.2 / C06.3 per object; the order of something that is only the source of a sorted copy does not matter
            shadowed = {so for o in objs if o.kind == "copy" and getattr(o, "sorted", False) for so in pt._copy_sources(o)}
            for o in sorted(objs - shadowed, key=lambda x: x.where()):
                nob += literal_order(ctx, pt, o, label, ins_here, site)
            continue
        # ---- C06.1: the path needs a re-keying before the dump
        nob += 1
        cands = []
        for ev in events:
            src_objs = pt.pts(ev.src, ev.src_fn or ev.fn)
            if src_objs and (src_objs & objs):
                cands.append(ev)
            elif ev.deep and src_objs:
                # a recursive sort of an enclosing dictionary also orders this one
                for pre in range(len(p)):
                    if src_objs & paths.get(p[:pre], set()):
                        cands.append(ev)
                        break
        verdict = None
        reasons = []
        open_q = []
        for ev in cands:
            if ev.inplace:
                touched = pt.pts(ev.src, ev.src_fn or ev.fn)
                unordered_objs = set()
                for i, why in unordered:
                    if _within_stmt(ctx, i.node, ev.stmt):
                        continue
                    unordered_objs |= (pt.pts(i.base, i.fn) & objs)
                if unordered_objs - touched:
                    reasons.append("%s: orders %s in place, which is not (always) the dictionary that is dumped" % (norm(ev.stmt).split("\n")[0][:60], norm(ev.src)))
                    continue
            evp = p
            if ev.deep and not (pt.pts(ev.src, ev.src_fn or ev.fn) & objs):
                evp = next((p[:pre] for pre in range(len(p)) if pt.pts(ev.src, ev.src_fn or ev.fn) & paths.get(p[:pre], set())), p)
            ok, why = check_sort_event(ctx, pt, site, ev, evp, objs | paths.get(evp, set()), all_ins, helpers, kp) if evp == p else \
                check_sort_event(ctx, pt, site, ev, evp, paths.get(evp, set()), all_ins, helpers, kp, nested=objs)
            if ok:
                verdict = (ev, why)
                break
            if ok is None:
                open_q.append(why)
            reasons.append("%s: %s" % (norm(ev.stmt).split("\n")[0][:70], why))
        example = ([u for u in unordered if not any(e.inplace and _within_stmt(ctx, u[0].node, e.stmt) for e in events)] or unordered)[0][0]
        # an in-place re-keying orders only the objects it is applied to: any other dictionary that can sit at this path
        # needs its own reason to be in key order
        inpl = [e for e in cands if e.inplace]
        if inpl:
            touched = set()
            for e in inpl:
                touched |= pt.pts(e.src, e.src_fn or e.fn)
            for o in sorted(objs - touched, key=lambda x: x.where()):
                nob += literal_order(ctx, pt, o, label, ins_here, site)
        if not verdict and open_q:
            ctx.undecided("C06.1", fn, "dump via %s: dictionary '%s': %s" % (how, label, open_q[0]), norm(call) + " :: " + label)
            continue
        if verdict:
            ctx.holds("C06.1", fn, "dump via %s: dictionary '%s' (%d insertion site(s), e.g. %s at %s line %s) is re-keyed by %s after its last insertion on every path to the dump" % (
                how, label, len(unordered), norm(example.node)[:60], example.fn.qualname, example.node.lineno, norm(verdict[0].stmt)[:80]),
                norm(call) + " :: " + label)
        else:
            # a re-keying somewhere in this module whose source dictionary the points-to analysis could not identify (the field
            # of a record, the result of a call): it may be the one that orders this dictionary
            blind = []
            for f2 in [x for x in ctx.prog.functions.values() if x.module is fn.module]:
                for ev2 in sort_events(ctx, pt, f2):
                    if not ev2.inplace and not pt.pts(ev2.src, ev2.src_fn or ev2.fn):
                        blind.append(ev2)
            # the dump sits in a helper: a caller may re-key before it calls the helper (two functions, not followed here)
            up = [c_ for c_ in ctx.prog.functions.values() if c_ is not fn and any(any(t_[0] == "pkg" and t_[1] is fn for t_ in s_.targets) for s_ in ctx.cg.sites.get(c_, []))
                  and sort_events(ctx, pt, c_)]
            if up and not blind:
                ctx.undecided("C06.1", fn, "dump via %s: dictionary '%s' is filled in insertion order and not re-keyed in %s itself; its caller %s re-keys a dictionary before the call - whether that is this one was not followed" % (
                    how, label, fn.qualname, up[0].qualname), norm(call) + " :: " + label)
                continue
            if blind:
                ctx.undecided("C06.1", fn, "dump via %s: dictionary '%s' is filled in insertion order; a re-keying exists (`%s` in %s) but which dictionary it copies could not be identified" % (
                    how, label, norm(blind[0].stmt)[:70], (blind[0].src_fn or blind[0].fn).qualname), norm(call) + " :: " + label)
                continue
            # a re-keying whose source is selected by a variable key (`for k in ("info", ...): meta[k] = dict(sorted(meta[k].items()))`):
            # which of the dictionaries it orders depends on the values the variable takes, which is not evaluated here
            varkey = [e for e in events if not e.inplace and any(isinstance(x, ast.Subscript) and isinstance(x.slice, ast.Name) for x in ast.walk(e.src))]
            if varkey:
                ctx.undecided("C06.1", fn, "dump via %s: dictionary '%s' is filled in insertion order; a re-keying under a variable key exists (`%s`) and the keys it is applied to were not evaluated" % (
                    how, label, norm(varkey[0].stmt)[:80]), norm(call) + " :: " + label)
                continue
            stacked = [(u[0], C.in_worklist_loop(ctx, u[0].fn, u[0].node)) for u in unordered if u[0].fn is not None]
            stacked = [(i_, w_) for i_, w_ in stacked if w_ is not None]
            if stacked:
                # an iterative walk: which listing the key comes from travels on the stack with the dictionary it goes into
                ctx.undecided("C06.1", fn, "dump via %s: dictionary '%s' is filled (%s in %s) inside a loop that keeps its own stack of open directories (`%s`): "
                              "whether the keys arrive in sorted order there is not read" % (how, label, norm(stacked[0][0].node)[:60], stacked[0][0].fn.qual, stacked[0][1]),
                              norm(call) + " :: " + label)
                continue
            detail = "dump via %s: dictionary '%s' is filled in insertion order (e.g. %s in %s) and is not re-keyed with dict(sorted(...items())) on every path to the dump after its last insertion" % (
                how, label, norm(example.node)[:70], example.fn.qual)
            if reasons:
                detail += " [candidate re-keyings rejected: " + "; ".join(reasons)[:400] + "]"
            ctx.violated("C06.1", fn, detail, norm(call) + " :: " + label)
    return nob


def check_sort_event(ctx, pt, site, ev, path, objs, all_ins, helpers, kp, nested=None):
    fn, call, obj, how = site
    if nested:
        objs = set(objs) | set(nested)
    g = C.cfg_of(fn)
    dnode = C.stmt_node(ctx, fn, call)
    last_key = path[-1] if path else None

    def unordered_insertion(i):
        if i.how in ("del", "rekey"):
            return False
        if i.node is ev.stmt:
            return False
        if key_certainly_present(ctx, pt, i):
            return False
        ok, _ = ordered_by_construction(ctx, pt, i, all_ins)
        return not ok

    ins_p = [i for (i, o) in all_ins if (o & objs)]
    if ev.inplace:
        ins_p = [i for i in ins_p if not _within_stmt(ctx, i.node, ev.stmt)]
        if not path:
            return None, "in-place re-keying of the top-level dictionary is not modelled"
        al = same_attribute_alias(ctx, pt, ev, path, objs, all_ins)
        if not al:
            return None, "in-place re-keying of `%s`: that it is the object stored under '%s' for every instance is not established" % (norm(ev.src), "/".join(path))
    # the re-keyed value must be stored back where the dump will find it
    if path and not ev.inplace and isinstance(ev.target, ast.Name) and isinstance(ev.stmt, ast.Assign):
        # sorted_x = dict(sorted(x.items())) ... {"key": sorted_x}: the copy itself sits at the path, and whatever else can sit
        # there is only the (unsorted) source it was copied from
        cobj = pt.objs.get(id(ev.stmt.value))
        here = set(objs) - set(nested or ())
        if cobj is not None and cobj in here and (here - {cobj}) <= set(pt._copy_sources(cobj)):
            pass
        else:
            return False, "result is bound to the local %r, which is not (only) what the dumped structure holds under '%s'" % (ev.target.id, "/".join(path))
    elif path and not ev.inplace:
        t = ev.target
        if not (isinstance(t, ast.Subscript) and const_str(t.slice) == last_key):
            return False, "result is not stored back under key %r" % last_key
        parent_objs = pt.pts(t.value, ev.fn)
        ok_parent = any(path[:-1] in kp.get(o, ()) for o in parent_objs)
        if not ok_parent:
            return False, "result is stored into a dictionary that is not the parent of '%s'" % "/".join(path)
    # --- anchor in the dump function
    if ev.fn is fn:
        anchors = [C.stmt_node(ctx, fn, ev.stmt)]
        hg = None
    else:
        anchors = [C.stmt_node(ctx, fn, c) for c in helpers.get(ev.fn, [])]
        hg = C.cfg_of(ev.fn)
        en = C.stmt_node(ctx, ev.fn, ev.stmt)
        if not hg.dominates(en, hg.exit):
            if not (path and _only_membership_guard(ctx, pt, ev.fn, en, last_key)):
                return False, "not executed on every run of %s" % ev.fn.qualname
        for i in ins_p:
            if i.fn is ev.fn and unordered_insertion(i):
                n = C.stmt_node(ctx, ev.fn, i.node)
                if n is not en and n in hg.reachable(en):
                    return False, "insertion %s follows the re-keying inside %s" % (norm(i.node)[:50], ev.fn.qualname)
    good_anchor = None
    for a in anchors:
        if a is None:
            continue
        if g.dominates(a, dnode) and a is not dnode or (a is dnode and ev.fn is not fn):
            good_anchor = a
        elif ev.fn is fn and path and _only_membership_guard(ctx, pt, fn, a, last_key) and dnode in g.reachable(a):
            good_anchor = a
        if good_anchor:
            break
    if good_anchor is None:
        return False, "does not dominate the dump"
    a = good_anchor
    # --- nothing inserts between the anchor and the dump
    between = {n for n in g.reachable(a) if n is not a and dnode in g.reachable(n)}
    if a is dnode:
        between = set()
    ins_funcs = {i.fn for i in ins_p if unordered_insertion(i)}
    for i in ins_p:
        if i.fn is fn and unordered_insertion(i):
            n = C.stmt_node(ctx, fn, i.node)
            if n in between and n is not dnode:
                return False, "insertion %s lies between the re-keying and the dump" % norm(i.node)[:60]
    if ins_funcs:
        for s in ctx.cg.sites.get(fn, []):
            n = C.stmt_node(ctx, fn, s.node) if isinstance(s.node, ast.AST) else None
            if n is None or n not in between or n is dnode:
                continue
            for t in s.targets:
                if t[0] == "pkg" and t[1] not in s.approx:
                    reach = C.reach(ctx, [t[1]], allow_approx=False)
                    hit = [f for f in reach if f in ins_funcs and f is not fn]
                    if hit and t[1] is not ev.fn:
                        return False, "call %s between the re-keying and the dump can insert (through %s)" % (norm(s.node)[:50], hit[0].qualname)
    # --- top level: the dumped expression must be the re-keyed value
    if not path:
        if not is_sorted_value(ctx, pt, obj, fn, dnode):
            return False, "the dumped expression is not (on every path) the re-keyed dictionary"
    return True, "ok"


def _only_membership_guard(ctx, pt, fn, node, key):
    g = C.cfg_of(fn)
    deps = {(b, lab) for (b, lab) in g.control_deps(node) if b is not node}      # a loop head depends on itself
    if not deps:
        return False
    for (b, lab) in deps:
        t = C.test_expr(b)
        if t is None:
            return False
        if not (isinstance(t, ast.Compare) and len(t.ops) == 1 and isinstance(t.ops[0], ast.In) and const_str(t.left) == key and lab == "true"):
            return False
    return True


def literal_order(ctx, pt, o, label, ins_here, site):
    """C06.2 / C06.3 for one dictionary object that is not re-keyed."""
    fn = o.fn
    mine = [i for (i, objs) in ins_here if o in objs]
    if o.kind in ("loaded", "loadedchild"):
        ctx.holds("C06.2", site[0], "dictionary '%s' comes from the decoded input and is not inserted into: its order is the input's (canonical by the pyben round-trip identity)" % label,
                  "decoded '%s' at %s" % (label, o.where()), nontrivial=False)
        return 1
    if o.kind == "copy":
        if o.sorted:
            return 0
        ctx.holds("C06.2", fn, "copy '%s' keeps the order of its sources (checked separately)" % label, o.node, nontrivial=False)
        return 1
    n = o.node
    if isinstance(n, ast.Dict):
        keys = [const_str(k) if k is not None else None for k in n.keys]
        if mine:
            # inserted only by C06.3-conformant statements
            all_ins_ = [(i, objs) for (i, objs) in ins_here]
            if n.keys and all(appended_in_key_order(ctx, pt, i, all_ins_) for i in mine):
                ctx.holds("C06.3", fn, "dictionary '%s' starts with the display {%s} and is only extended by constant keys in ascending order" % (label, ", ".join(str(k) for k in keys)), n)
            elif n.keys:
                ctx.violated("C06.3", fn, "dictionary '%s' starts with literal keys and is then inserted into: ascending order is not guaranteed" % label, n)
            else:
                i = mine[0]
                ok, why = ordered_by_construction(ctx, pt, i, ins_here)
                ctx.decide("C06.3", fn, ok, "dictionary '%s' %s: keys ascend by construction" % (label, why),
                           "dictionary '%s' is %s" % (label, why), i.node)
            return 1
        if any(k is None for k in keys):
            if len(keys) <= 1:
                ctx.holds("C06.2", fn, "single-entry literal for '%s'" % label, n, nontrivial=False)
            else:
                ctx.undecided("C06.2", fn, "literal for '%s' has several non-constant keys" % label, n)
            return 1
        enc = [k.encode("utf-8") for k in keys]
        asc = all(enc[i] < enc[i + 1] for i in range(len(enc) - 1))
        ctx.decide("C06.2", fn, asc, "literal for '%s' lists its keys %s in ascending byte order and is never inserted into" % (label, keys),
                   "literal for '%s' lists its keys %s out of ascending byte order (or twice) and nothing sorts it before the dump" % (label, keys), n)
        return 1
    if isinstance(n, ast.DictComp):
        gen = n.generators[0]
        it = gen.iter
        ok = isinstance(it, ast.Call) and not it.keywords and len(it.args) == 1 and C.is_ext_call(ctx, it, fn, ("builtins.sorted",)) \
            and isinstance(gen.target, ast.Name) and isinstance(n.key, ast.Name) and n.key.id == gen.target.id and len(n.generators) == 1
        srt = isinstance(it, ast.Call) and not it.keywords and len(it.args) == 1 and C.is_ext_call(ctx, it, fn, ("builtins.sorted",)) and len(n.generators) == 1
        # {k: v for k, v in sorted(D.items())}: pairs of a dictionary sort by their (distinct) keys; a filter keeps the order
        pairs = srt and isinstance(gen.target, (ast.Tuple, ast.List)) and len(gen.target.elts) == 2 and isinstance(gen.target.elts[0], ast.Name) \
            and isinstance(n.key, ast.Name) and n.key.id == gen.target.elts[0].id \
            and isinstance(it.args[0], ast.Call) and isinstance(it.args[0].func, ast.Attribute) and it.args[0].func.attr == "items" and not it.args[0].args
        plain_walk = isinstance(it, ast.Name) or (isinstance(it, ast.Call) and isinstance(it.func, ast.Attribute) and it.func.attr in ("items", "keys") and not it.args)
        if ok:
            ctx.holds("C06.3", fn, "comprehension for '%s' iterates sorted(...) with the loop variable as key" % label, n)
        elif pairs:
            ctx.holds("C06.3", fn, "comprehension for '%s' iterates sorted(<dictionary>.items()) and keys each entry by the pair's key" % label, n)
        elif plain_walk and isinstance(n.key, ast.Name):
            ctx.violated("C06.3", fn, "comprehension for '%s' does not take its keys from sorted(...) in order" % label, n)
        else:
            # the names come out of a package generator / helper: one that enumerates a directory without sorting hands them
            # out in the operating system's order
            raw = None
            if isinstance(it, ast.Call) and C.sorted_listing_generator(ctx, fn, it) is None:
                from tfsa import effects as E_
                for T_ in C.targets_of(ctx, fn, it):
                    for x in own_nodes(T_.node):
                        if isinstance(x, ast.Call) and (C.is_ext_call(ctx, x, T_, tuple(E_.ENUM_SOURCES)) or (isinstance(x.func, ast.Attribute) and x.func.attr in E_.ENUM_METHODS)):
                            par_ = ctx.prog.parent.get(x)
                            if not (isinstance(par_, ast.Call) and C.is_ext_call(ctx, par_, T_, ("builtins.sorted",))) and \
                                    not any(isinstance(y, ast.Call) and (C.is_ext_call(ctx, y, T_, ("builtins.sorted",)) or (isinstance(y.func, ast.Attribute) and y.func.attr == "sort"))
                                            for y in own_nodes(T_.node)):
                                raw = (T_, x)
            if raw is not None and isinstance(n.key, ast.Name):
                ctx.violated("C06.3", fn, "comprehension for '%s' takes its keys from %s, which hands out `%s` as the operating system enumerates it (nothing there sorts): the keys are not in sorted order" % (
                    label, raw[0].qualname, norm(raw[1])[:50]), n)
            else:
                ctx.undecided("C06.3", fn, "comprehension for '%s' iterates `%s` and keys by `%s`: whether the keys arrive in sorted order is not read for this form" % (label, norm(it)[:60], norm(n.key)[:30]), n)
        return 1
    if isinstance(n, ast.Call):
        if n.keywords and not n.args:
            keys = [kw.arg for kw in n.keywords]
            asc = all(k is not None for k in keys) and all(keys[i].encode() < keys[i + 1].encode() for i in range(len(keys) - 1))
            ctx.decide("C06.2", fn, asc, "dict(...) keywords ascend", "dict(...) keyword keys %s do not ascend" % keys, n)
            return 1
        if not n.args and not n.keywords and not mine:
            ctx.holds("C06.2", fn, "empty dictionary for '%s', never inserted into" % label, n, nontrivial=False)
            return 1
    ctx.undecided("C06.2", fn, "dictionary '%s' created in a way the rule does not understand" % label, n)
    return 1


# ---------------------------------------------------------------------------------------------- C06.4
def definitely_unencodable(ctx, expr, fn):
    if isinstance(expr, ast.Constant):
        v = expr.value
        if isinstance(v, bool) or isinstance(v, float) or v is None:
            return "constant %r" % (v,)
        return None
    if isinstance(expr, ast.Compare) or (isinstance(expr, ast.UnaryOp) and isinstance(expr.op, ast.Not)):
        return "a boolean expression"
    if isinstance(expr, ast.BinOp) and isinstance(expr.op, ast.Div):
        return "a true division (float)"
    if isinstance(expr, (ast.Set, ast.SetComp)):
        return "a set"
    if isinstance(expr, ast.Call):
        for d in C.ext_name(ctx, expr, fn):
            if d in ("builtins.bool", "builtins.float", "builtins.set", "builtins.frozenset", "time.time", "builtins.round") and \
                    not (d == "builtins.round" and len(expr.args) < 2):
                return "%s(...)" % d
        return None
    if isinstance(expr, (ast.Name, ast.Attribute)):
        ks = ctx.res.kinds(expr, fn)
        if ks and ks <= BAD_KINDS:
            return "a value that can only be %s" % "/".join(sorted(k[0] for k in ks))
    return None


def value_kinds(ctx, pt, sites):
    seen = set()
    n = 0
    for site in sites:
        fn, call, obj, how = site
        roots = pt.pts(obj, fn)
        kp = pt.key_paths(roots)
        for o, ps in kp.items():
            label = "/".join(sorted(ps)[0]) or "<top level>"
            node = o.node
            vals = []
            if o.kind == "dict" and isinstance(node, ast.Dict):
                vals += [(v, o.fn) for v in node.values]
                vals += [(k, o.fn) for k in node.keys if k is not None]
            elif o.kind == "list" and isinstance(node, (ast.List, ast.Tuple)):
                vals += [(v, o.fn) for v in node.elts]
            for v, f in vals:
                if id(v) in seen or f is None:
                    continue
                seen.add(id(v))
                bad = definitely_unencodable(ctx, v, f)
                n += 1
                if bad:
                    ctx.violated("C06.4", f, "value stored in '%s' is %s: bencoding has only integers, byte strings, lists and dictionaries (pyben would print a bool as 'iTruee')" % (label, bad), v)
        for ins, objs in pt.insertions_into(kp.keys()):
            if ins.value is None or id(ins.node) in seen or ins.how in ("del", "extend", "aug", "update"):
                continue
            seen.add(id(ins.node))
            label = "/".join(sorted(kp[next(iter(objs))])[0]) or "<top level>"
            n += 1
            bad = definitely_unencodable(ctx, ins.value, ins.fn)
            if bad and _never_executed(ctx, ins):
                bad = None          # the tests that lead here contradict each other (`if n == 0:` ... `if n:`): dead code
            if bad and bad.startswith("a value that can only be") and _guarded_against_none(ctx, ins):
                bad = None          # `if x: ....append(x)` / `if x is not None:`: the statement does not run for the None the resolver sees
            if bad and bad.startswith("a value that can only be") and isinstance(ins.value, ast.Attribute) and isinstance(ins.value.value, ast.Name) and ins.value.value.id != ins.fn.self_name:
                # a field of a local record: the resolver knows its declared default, not what the constructor call put there
                ctx.undecided("C06.4", ins.fn, "value stored in '%s' is `%s`, a field of a local object whose possible values are not known" % (label, norm(ins.value)), ins.node)
                bad = None
            if bad:
                ctx.violated("C06.4", ins.fn, "value stored in '%s' is %s: it cannot be bencoded canonically (pyben prints a bool as 'iTruee')" % (label, bad), ins.node)
            elif ins.key is not None and definitely_unencodable(ctx, ins.key, ins.fn):
                ctx.violated("C06.4", ins.fn, "key used in '%s' is not a string" % label, ins.node)
    ctx.holds("C06.4", None, "%d stored values / literal entries inspected: none is definitely a bool, float, None or set" % n,
              "value kinds of everything stored into a dumped structure", nontrivial=False) if not any(
        o.rule == "C06.4" and o.status == "VIOLATED" for o in ctx.obs) else None
    ctx.floor("values stored into dumped structures", 40, n)


def _guarded_against_none(ctx, ins):
    """The statement runs only when the stored expression is truthy / not None."""
    fn = ins.fn
    g = C.cfg_of(fn)
    node = C.stmt_node(ctx, fn, ins.node)
    want = norm(ins.value)

    def atom(x):
        if norm(x) == want:
            return False                                   # the value is None: falsy
        if isinstance(x, ast.Compare) and len(x.ops) == 1 and norm(x.left) == want and isinstance(x.comparators[0], ast.Constant) and x.comparators[0].value is None:
            return isinstance(x.ops[0], (ast.Is, ast.Eq))
        return None
    return any(C.branch_when(b, atom) not in (None, lab) for b, lab in g.control_deps(node) if C.test_expr(b) is not None)


def _never_executed(ctx, ins):
    """The statement is controlled by tests on one integer-like local that cannot hold together: whether that local is zero
    or not, one of the tests goes the other way."""
    fn = ins.fn
    g = C.cfg_of(fn)
    node = C.stmt_node(ctx, fn, ins.node)
    deps = [(b, lab) for b, lab in g.control_deps(node) if C.test_expr(b) is not None]
    names = {x.id for b, _ in deps for x in ast.walk(C.test_expr(b)) if isinstance(x, ast.Name)}
    for nm in names:
        # the local is not reassigned between the tests (one definition in the function)
        if len([1 for x in own_nodes(fn.node) if isinstance(x, ast.Name) and x.id == nm and isinstance(x.ctx, ast.Store)]) + (1 if nm in fn.params else 0) != 1:
            continue
        dead_in_all = True
        for zero in (True, False):
            def atom(x, nm=nm, zero=zero):
                if isinstance(x, ast.Name) and x.id == nm:
                    return not zero
                if isinstance(x, ast.Compare) and len(x.ops) == 1 and isinstance(x.left, ast.Name) and x.left.id == nm and isinstance(x.comparators[0], ast.Constant) and x.comparators[0].value == 0:
                    op = x.ops[0]
                    if isinstance(op, ast.Eq):
                        return zero
                    if isinstance(op, ast.NotEq):
                        return not zero
                    if isinstance(op, ast.Gt) and zero:
                        return False
                    if isinstance(op, ast.LtE) and zero:
                        return True
                return None
            if not any(C.branch_when(b, atom) not in (None, lab) for b, lab in deps):
                dead_in_all = False
        if dead_in_all:
            return True
    return False


# ---------------------------------------------------------------------------------------------- C06.7
def sole_content(ctx, sites):
    """Nothing precedes or follows the top-level dictionary: the encoding is the only thing written to a file that starts empty."""
    for fn, call, obj, how in sites:
        if how == "pyben.dump":
            ctx.holds("C06.7", fn, "pyben.dump opens its target 'wb' and writes the encoding once (fact C06.P)", call, nontrivial=False)
            continue
        # pyben.dumps(...) -> fd.write(encoded)
        parent = ctx.prog.parent.get(call)
        var = parent.targets[0].id if isinstance(parent, ast.Assign) and isinstance(parent.targets[0], ast.Name) else None
        writes = [m for m in own_nodes(fn.node) if isinstance(m, ast.Call) and isinstance(m.func, ast.Attribute) and m.func.attr in ("write", "writelines")
                  and (any(isinstance(a, ast.Name) and a.id == var for a in m.args) or any(a is call for a in m.args))]
        for w in writes:
            modes = {k[1] for k in ctx.res.kinds(w.func.value, fn) if k[0] == "file"}
            if not modes:
                ctx.undecided("C06.7", fn, "cannot tell how the file receiving the encoding was opened", w)
                continue
            for mode in sorted(modes, key=str):
                if mode is None:
                    ctx.undecided("C06.7", fn, "the file receiving the encoding is opened with a non-constant mode", w)
                elif ("w" in mode or "x" in mode) and "b" in mode:
                    ctx.holds("C06.7", fn, "the encoding is written to a file opened %r: it starts empty, so nothing precedes or follows the top-level dictionary" % mode, w)
                else:
                    ctx.violated("C06.7", fn, "the encoding is written to a file opened %r, which does not start empty (no truncation): when the new encoding is shorter than what the file held, stale bytes follow the top-level dictionary" % mode
                                 if "b" in mode else "the encoding is written to a file opened in text mode %r" % mode, w)
            # exactly one write of the encoding and nothing else written to that file object
            recv = norm(w.func.value)
            others = [m for m in own_nodes(fn.node) if isinstance(m, ast.Call) and isinstance(m.func, ast.Attribute) and m.func.attr in ("write", "writelines", "seek", "truncate")
                      and norm(m.func.value) == recv and m is not w]
            ctx.decide("C06.7", fn, not others and not C.in_loop(ctx, fn, w), "the encoding is the only thing written to that file",
                       "other data is written to the file that receives the encoding (%s)" % (norm(others[0]) if others else "the write is repeated"), norm(w) + " :: only write")


# ---------------------------------------------------------------------------------------------- C06.5
def required_keys(ctx, pt):
    init = ctx.prog.func("torrentfile.torrent:MetaFile.__init__")
    gi = C.cfg_of(init)
    base_keys = set()
    for ins in pt.insertions:
        if ins.fn is init and ins.how == "store" and const_str(ins.key):
            n = C.stmt_node(ctx, init, ins.node)
            if gi.dominates(n, gi.exit) and isinstance(ins.base, ast.Subscript) and const_str(ins.base.slice) == "info":
                base_keys.add(const_str(ins.key))
    # a constructor split into steps: stores made on every path of a method that only the constructor calls, on every path
    for h, site in C.constructor_helpers(ctx, init):
        if not gi.dominates(C.stmt_node(ctx, init, site), gi.exit):
            continue
        gh = C.cfg_of(h)
        for ins in pt.insertions:
            if ins.fn is h and ins.how == "store" and const_str(ins.key) and gh.dominates(C.stmt_node(ctx, h, ins.node), gh.exit):
                base = ins.base
                if isinstance(base, ast.Name):
                    bl = ctx.res.bindings(h).get(base.id, [])
                    base = bl[0][1] if len(bl) == 1 and bl[0][0] == "value" else base
                if isinstance(base, ast.Subscript) and const_str(base.slice) == "info":
                    base_keys.add(const_str(ins.key))
    ok = {"name", "piece length"} <= base_keys
    ctx.decide("C06.5", init, ok, "MetaFile.__init__ stores info['name'] and info['piece length'] on every normal path",
               "MetaFile.__init__ does not store %s on every normal path" % sorted({"name", "piece length"} - base_keys),
               "required keys name / piece length")
    for cq, version in CREATORS.items():
        cls = ctx.prog.cls(cq)
        asm = cls.methods.get("assemble")
        if asm is None:
            raise AnalysisError("anchor vanished: %s.assemble" % cq)
        g = C.cfg_of(asm)
        paths, complete = g.paths(goals={g.exit})
        if not complete:
            ctx.undecided("C06.5", asm, "too many paths through assemble")
            continue
        # stores by CFG node
        by_node = {}
        for ins in pt.insertions:
            if ins.fn is asm and ins.how == "store" and const_str(ins.key):
                n = C.stmt_node(ctx, asm, ins.node)
                top = any(() in ps for ps in [pt.key_paths(pt.pts(ins.base, asm)).get(o, set()) for o in pt.pts(ins.base, asm)]) if False else None
                by_node.setdefault(n, []).append(ins)
        feasible = 0
        for path in paths:
            decisions = {}
            bad = False
            keys_info, keys_top = {}, set()
            hybrid_flag = None
            for node, lab in path:
                if node.kind == "test" and lab in ("true", "false"):
                    txt = norm(C.test_expr(node))
                    neg = False
                    if txt.startswith("not "):
                        txt, neg = txt[4:], True
                    val = (lab == "true") != neg
                    if txt in decisions and decisions[txt] != val:
                        bad = True
                        break
                    decisions[txt] = val
                for ins in by_node.get(node, []):
                    k = const_str(ins.key)
                    if _is_info_base(ctx, pt, ins.base, asm):
                        keys_info[k] = ins
                    else:
                        keys_top.add(k)
            if bad:
                continue
            feasible += 1
            cond = ", ".join("%s=%s" % kv for kv in sorted(decisions.items())) or "unconditional"
            problems = []
            has_v2 = "meta version" in keys_info
            has_v1 = "pieces" in keys_info
            if has_v2:
                mv = keys_info["meta version"].value
                if not (isinstance(mv, ast.Constant) and mv.value == 2 and not isinstance(mv.value, bool)):
                    problems.append("info['meta version'] is not the integer 2")
                if "file tree" not in keys_info:
                    problems.append("v2 content without info['file tree']")
                if "piece layers" not in keys_top:
                    problems.append("v2 content without top-level 'piece layers'")
            if has_v1:
                n_len = ("length" in keys_info) + ("files" in keys_info)
                if n_len == 0:
                    problems.append("v1 piece string without info['length'] or info['files']")
                if n_len == 2:
                    problems.append("both info['length'] and info['files'] stored")
            want = version
            if version == "v2|hybrid":
                hv = [v for k, v in decisions.items() if "hybrid" in k]
                want = "hybrid" if hv and all(hv) else "v2"
                if hv and not all(hv) and any(hv):
                    continue
            if want == "v1" and not has_v1:
                problems.append("v1 creator path without info['pieces']")
            if want == "v1" and has_v2:
                problems.append("v1 creator path stores 'meta version'")
            if want == "v2" and not has_v2:
                problems.append("v2 creator path without 'meta version'")
            if want == "v2" and has_v1:
                problems.append("v2-only path stores a v1 piece string")
            if want == "hybrid" and not (has_v1 and has_v2):
                problems.append("hybrid path lacks %s" % ("info['pieces']" if not has_v1 else "'meta version'"))
            ctx.decide("C06.5", asm, not problems,
                       "path [%s] stores info%s + top%s: complete for %s" % (cond, sorted(keys_info), sorted(keys_top), want),
                       "path [%s]: %s (stores info%s, top%s)" % (cond, "; ".join(problems), sorted(keys_info), sorted(keys_top)),
                       "%s.assemble path [%s]" % (cls.name, cond))
        ctx.floor("feasible CFG paths of %s.assemble" % cls.name, 2, feasible)


def _is_info_base(ctx, pt, base, fn):
    """The base expression denotes the info dictionary (value under key 'info' of the top-level dictionary)."""
    if isinstance(base, ast.Subscript) and const_str(base.slice) == "info":
        return True
    if isinstance(base, ast.Name):
        for what, payload in ctx.res.bindings(fn).get(base.id, []):
            if what == "value" and isinstance(payload, ast.Subscript) and const_str(payload.slice) == "info":
                return True
    return False


# ---------------------------------------------------------------------------------------------- C06.6
def _digest_values(terms):
    """walk_values, except that the digest of a hashlib object is a value of that object's kind whatever was fed to it: the
    data (and the path of the file it was read from) are not digests that arrive here."""
    from tfsa.flow import _subsets
    seen = set()
    stack = list(terms)
    while stack:
        t = stack.pop()
        if not isinstance(t, tuple) or id(t) in seen:
            continue
        seen.add(id(t))
        if t[0] == "meth" and t[1] in ("digest", "hexdigest") and len(t) > 2 and isinstance(t[2], frozenset):
            kinds = [x for x in t[2] if isinstance(x, tuple) and x[0] == "ext" and isinstance(x[1], str) and x[1].startswith("hashlib.")]
            if kinds:
                for k in kinds:
                    yield k
                continue
        yield t
        if t[0] == "ext" and t[1] in ("builtins.open", "io.open"):
            continue        # what is read from a file is not made of the pieces of its path
        for part in (t[1:2] if t[0] == "inloop" else t[1:]):
            stack.extend(_subsets(part))


def hash_kinds(ctx, pt):
    init = ctx.prog.func("torrentfile.torrent:MetaFile.__init__")
    flow = Flow(ctx.prog, ctx.res, stop_funcs=[init])
    want = {"pieces": ("hashlib.sha1", 20), "pieces root": ("hashlib.sha256", 32), "piece layers": ("hashlib.sha256", 32)}
    n = 0
    for ins in pt.insertions:
        if ins.fn is None or ins.fn.module.name != "torrentfile.torrent":
            continue
        if ins.how != "store":
            continue
        k = const_str(ins.key) if ins.key is not None else None
        targets = []
        if k in ("pieces",) and _is_info_base(ctx, pt, ins.base, ins.fn):
            targets.append(("pieces", ins.value))
        # piece layer values: stores into a dictionary that ends up under 'piece layers'
        if k is None and isinstance(ins.base, ast.Attribute) and ins.base.attr == "piece_layers":
            targets.append(("piece layers", ins.value))
            targets.append(("pieces root", ins.key))
        for name, expr in targets:
            t = flow.term(expr, ins.fn)
            hs = {x[1] for x in _digest_values(t) if x[0] == "ext" and x[1].startswith("hashlib.")}
            cut = any(x[0] == "unknown" and x[1] in ("depth", "wide") for x in walk_terms(t))
            exp = want[name][0]
            n += 1
            if hs == {exp}:
                ctx.holds("C06.6", ins.fn, "'%s' receives only %s digests" % (name, exp), norm(ins.node) + " :: " + name)
            elif hs - {exp} and travels_in_container(t, lambda y: y[0] == "ext" and y[1].startswith("hashlib.")):
                # digests of both kinds travel side by side through one container (a record, a tuple that is unpacked later):
                # which of them arrives here is not separated by the origin terms
                ctx.undecided("C06.6", ins.fn, "'%s': %s and %s digests travel through a container together and could not be told apart" % (name, exp, ", ".join(sorted(hs - {exp}))),
                              norm(ins.node) + " :: " + name)
            elif hs - {exp}:
                ctx.violated("C06.6", ins.fn, "'%s' can receive %s values (must be %s, %d-byte hashes)" % (name, sorted(hs - {exp}), exp, want[name][1]),
                             norm(ins.node) + " :: " + name)
            elif cut:
                ctx.undecided("C06.6", ins.fn, "origin of '%s' too deep to follow" % name, norm(ins.node) + " :: " + name)
            elif any(x[0] in ("unknown", "selfattr", "attr", "meth") for x in walk_terms(t)):
                # the value comes out of something the origin terms do not follow (a call through a factory attribute, an
                # attribute of an object of unknown class): no hash function is visible, but none is excluded either
                ctx.undecided("C06.6", ins.fn, "origin of '%s' not understood: %s" % (name, show(t, maxdepth=2)[:80]), norm(ins.node) + " :: " + name)
            else:
                ctx.violated("C06.6", ins.fn, "'%s' does not derive from %s" % (name, exp), norm(ins.node) + " :: " + name)
    # leaf 'pieces root' literals
    for fnq in ("torrentfile.torrent:TorrentFileV2._traverse", "torrentfile.torrent:TorrentFileHybrid._traverse", "torrentfile.torrent:TorrentAssembler._traverse"):
        f = ctx.prog.func(fnq)
        for d in own_nodes(f.node):
            if isinstance(d, ast.Dict):
                for k, v in zip(d.keys, d.values):
                    if const_str(k) == "pieces root":
                        t = flow.term(v, f)
                        hs = {x[1] for x in _digest_values(t) if x[0] == "ext" and x[1].startswith("hashlib.")}
                        n += 1
                        if hs == {"hashlib.sha256"}:
                            ctx.holds("C06.6", f, "'pieces root' receives only hashlib.sha256 digests", v)
                        elif hs - {"hashlib.sha256"} and travels_in_container(t, lambda y: y[0] == "ext" and y[1].startswith("hashlib.")):
                            ctx.undecided("C06.6", f, "'pieces root': digests of several kinds travel through a container together and could not be told apart", v)
                        elif hs - {"hashlib.sha256"}:
                            ctx.violated("C06.6", f, "'pieces root' can receive %s values" % sorted(hs - {"hashlib.sha256"}), v)
                        else:
                            ctx.undecided("C06.6", f, "origin of 'pieces root' not understood", v)
    ctx.floor("hash-bearing stores inspected", 3, n)


def run(ctx):
    ctx.trust("sorted() of str keys orders by code point, which equals UTF-8 byte order; decode->encode with pyben is the identity on canonical input")
    ctx.trust("everything outside the function that dumps happened before it runs (creators call assemble in their constructor, write() afterwards)")
    facts = pyben_facts(ctx, "C06.P")
    pt = PointsTo(ctx.prog, ctx.res, ctx.cg)
    sites = find_dump_sites(ctx)
    ctx.floor("metafile dump sites", 2, len(sites))
    ctx.info["dump_sites"] = ["%s: %s" % (fn.qual, norm(call)) for fn, call, _, _ in sites]
    ctx.info["points_to"] = {"objects": len(pt.objs), "insertion_statements": len(pt.insertions)}
    nob = 0
    for site in sites:
        nob += canonical_order(ctx, pt, site)
    ctx.floor("dictionary obligations (C06.1-3)", 20, nob)
    # each group of rules on its own: an anchor that one of them misses leaves that group undecided, not the others
    for rid_, part in (("C06.4", lambda: value_kinds(ctx, pt, sites)), ("C06.7", lambda: sole_content(ctx, sites)),
                       ("C06.5", lambda: required_keys(ctx, pt)), ("C06.6", lambda: hash_kinds(ctx, pt))):
        try:
            part()
        except AnalysisError as exc:
            ctx.undecided(rid_, None, "this group of rules could not be completed: %s" % exc)
    from .dynscan import dynamic_features
    dynamic_features(ctx, "C06.0")


_PL_SORT = """        if "piece layers" in meta:
            layers = meta["piece layers"]
            meta["piece layers"] = dict(sorted(list(layers.items())))
"""
MUTANTS = [
    {"name": "G2-regress-piece-layers-unsorted", "file": "torrentfile/torrent.py", "expect": "violated", "rule": "C06.1", "canary": True, "quick": True,
     "what": "pinned-tree defect G2: piece layers never re-keyed", "edits": [(_PL_SORT, "")]},
    {"name": "G3-regress-edit-unsorted", "file": "torrentfile/edit.py", "expect": "violated", "rule": "C06.1", "canary": True, "quick": True,
     "what": "pinned-tree defect G3: edit appends keys and dumps in insertion order",
     "edits": [("    meta[\"info\"] = dict(sorted(info.items()))\n    meta = dict(sorted(meta.items()))\n", "    meta[\"info\"] = info\n")]},
    {"name": "edit-top-level-unsorted", "file": "torrentfile/edit.py", "expect": "violated", "rule": "C06.1", "canary": True,
     "what": "edit sorts info but not the top level", "edits": [("    meta = dict(sorted(meta.items()))\n", "")]},
    {"name": "edit-info-unsorted", "file": "torrentfile/edit.py", "expect": "violated", "rule": "C06.1", "canary": True,
     "what": "edit sorts the top level but not info", "edits": [("    meta[\"info\"] = dict(sorted(info.items()))\n", "    meta[\"info\"] = info\n")]},
    {"name": "edit-insert-after-sort", "file": "torrentfile/edit.py", "expect": "violated", "rule": "C06.1", "canary": True,
     "what": "a key added after the re-keying", "edits": [("    meta = dict(sorted(meta.items()))\n", "    meta = dict(sorted(meta.items()))\n    meta[\"edited by\"] = \"torrentfile\"\n")]},
    {"name": "create-info-unsorted", "file": "torrentfile/torrent.py", "expect": "violated", "rule": "C06.1", "canary": True,
     "what": "sort_meta no longer sorts info", "edits": [("        meta[\"info\"] = dict(sorted(list(meta[\"info\"].items())))\n", "")]},
    {"name": "create-sort-reversed", "file": "torrentfile/torrent.py", "expect": "violated", "rule": "C06.1", "canary": True,
     "what": "sorted(..., reverse=True)", "edits": [("        meta = dict(sorted(list(meta.items())))", "        meta = dict(sorted(list(meta.items()), reverse=True))")]},
    {"name": "create-sorted-result-dropped", "file": "torrentfile/torrent.py", "expect": "violated", "rule": "C06.1", "canary": True,
     "what": "write() ignores the sorted dictionary", "edits": [("        self.meta = self.sort_meta()\n", "        self.sort_meta()\n")]},
    {"name": "create-insert-after-sort", "file": "torrentfile/torrent.py", "expect": "violated", "rule": "C06.1", "canary": True,
     "what": "write() stamps a key after sorting", "edits": [("        self.meta = self.sort_meta()\n", "        self.meta = self.sort_meta()\n        self.meta[\"encoding\"] = \"UTF-8\"\n")]},
    {"name": "padding-literal-unsorted", "file": "torrentfile/hasher.py", "expect": "violated", "rule": "C06.2", "canary": True,
     "what": "padding entry literal with keys out of order (FileHasher)",
     "edits": [("""                self.padding_file = {
                    "attr": "p",
                    "length": plength,
                    "path": [".pad", str(plength)],
                }
                piece.update(bytes(plength))
            piece = piece.digest()""", """                self.padding_file = {
                    "length": plength,
                    "attr": "p",
                    "path": [".pad", str(plength)],
                }
                piece.update(bytes(plength))
            piece = piece.digest()""")]},
    {"name": "file-entry-literal-unsorted", "file": "torrentfile/torrent.py", "expect": "violated", "rule": "C06.2", "canary": True,
     "what": "v1 file entry lists path before length",
     "edits": [("""            info["files"] = [{
                "length":
                os.path.getsize(path),
                "path":
                os.path.relpath(path, self.path).split(os.sep),
            } for path in filelist]""", """            info["files"] = [{
                "path":
                os.path.relpath(path, self.path).split(os.sep),
                "length":
                os.path.getsize(path),
            } for path in filelist]""")]},
    {"name": "leaf-literal-unsorted", "file": "torrentfile/torrent.py", "expect": "violated", "rule": "C06.2", "canary": True,
     "what": "file-tree leaf lists pieces root before length (TorrentAssembler)",
     "edits": [('            return {"": {"length": file_size, "pieces root": hasher.root}}', '            return {"": {"pieces root": hasher.root, "length": file_size}}')]},
    {"name": "tree-listing-unsorted", "file": "torrentfile/torrent.py", "expect": "violated", "rule": "C06", "canary": True,
     "what": "file tree filled in os.listdir order (TorrentAssembler)",
     "edits": [("""        if os.path.isdir(path):
            for name in sorted(os.listdir(path)):
                tree[name] = self._traverse(os.path.join(path, name))
        return tree""", """        if os.path.isdir(path):
            for name in os.listdir(path):
                tree[name] = self._traverse(os.path.join(path, name))
        return tree""", 2)]},
    {"name": "tree-listing-sorted-by-lower", "file": "torrentfile/torrent.py", "expect": "violated", "rule": "C06", "canary": True,
     "what": "file tree sorted case-insensitively (not byte order)",
     "edits": [("            for name in sorted(os.listdir(path)):\n                file_tree[name]", "            for name in sorted(os.listdir(path), key=str.lower):\n                file_tree[name]")]},
    {"name": "private-true", "file": "torrentfile/torrent.py", "expect": "violated", "rule": "C06.4", "canary": True, "quick": True,
     "what": "private stored as True (pyben emits iTruee)", "edits": [('            self.meta["info"]["private"] = 1', '            self.meta["info"]["private"] = True')]},
    {"name": "edit-private-bool", "file": "torrentfile/edit.py", "expect": "violated", "rule": "C06.4", "canary": True,
     "what": "edit stores a comparison result", "edits": [('        info["private"] = 1', '        info["private"] = args["private"] == 1')]},
    {"name": "creation-date-float", "file": "torrentfile/torrent.py", "expect": "violated", "rule": "C06.4",
     "what": "creation date as float", "edits": [('"creation date": int(datetime.timestamp(datetime.now())),', '"creation date": datetime.timestamp(datetime.now()) / 1,')]},
    {"name": "v2-missing-piece-layers", "file": "torrentfile/torrent.py", "expect": "violated", "rule": "C06.5", "canary": True,
     "what": "TorrentFileV2 forgets top-level piece layers", "edits": [('        info["meta version"] = 2\n        self.meta["piece layers"] = self.piece_layers\n', '        info["meta version"] = 2\n')]},
    {"name": "v2-piece-layers-only-if-nonempty", "file": "torrentfile/torrent.py", "expect": "violated", "rule": "C06.5", "canary": True,
     "what": "piece layers omitted when empty (BEP 52 requires the key)",
     "edits": [('        if self.hybrid:\n            info["pieces"] = self.pieces\n        self.meta["piece layers"] = self.piece_layers\n', '        if self.hybrid:\n            info["pieces"] = self.pieces\n        if self.piece_layers:\n            self.meta["piece layers"] = self.piece_layers\n')]},
    {"name": "hybrid-single-file-no-length", "file": "torrentfile/torrent.py", "expect": "violated", "rule": "C06.5", "canary": True,
     "what": "hybrid single file path stores neither length nor files",
     "edits": [('            info["file tree"] = {self.name: self._traverse(self.path)}\n            info["length"] = os.path.getsize(self.path)\n\n        else:\n            info["file tree"] = self._traverse(self.path)\n            info["files"] = self.files\n', '            info["file tree"] = {self.name: self._traverse(self.path)}\n\n        else:\n            info["file tree"] = self._traverse(self.path)\n            info["files"] = self.files\n')]},
    {"name": "meta-version-string", "file": "torrentfile/torrent.py", "expect": "violated", "rule": "C06.5",
     "what": "meta version stored as the string '2'", "edits": [('        info["meta version"] = 2\n        self.meta["piece layers"] = self.piece_layers\n', '        info["meta version"] = "2"\n        self.meta["piece layers"] = self.piece_layers\n')]},
    {"name": "v1-pieces-sha256", "file": "torrentfile/hasher.py", "expect": "violated", "rule": "C06.6", "canary": True,
     "what": "v1 hasher returns sha256 for full pieces", "edits": [("                return sha1(piece).digest()  # nosec", "                return sha256(piece).digest()  # nosec")]},
    {"name": "hybrid-pieces-sha256", "file": "torrentfile/hasher.py", "expect": "violated", "rule": "C06.6", "canary": True,
     "what": "FileHasher v1 piece hashed with sha256", "edits": [("        plength = self.piece_length\n        blocks = []\n        piece = sha1()  # nosec\n        total = 0\n        block = bytearray(BLOCK_SIZE)\n        for _ in range(self.amount):\n            size = self.current.readinto(block)", "        plength = self.piece_length\n        blocks = []\n        piece = sha256()  # nosec\n        total = 0\n        block = bytearray(BLOCK_SIZE)\n        for _ in range(self.amount):\n            size = self.current.readinto(block)")]},
    # benign
    {"name": "benign-edit-sort-order-swapped", "file": "torrentfile/edit.py", "expect": "clean",
     "what": "top level re-keyed first, then info (key exists already)",
     "edits": [("    meta[\"info\"] = dict(sorted(info.items()))\n    meta = dict(sorted(meta.items()))\n", "    meta = dict(sorted(meta.items()))\n    meta[\"info\"] = dict(sorted(info.items()))\n")]},
    {"name": "benign-sort-twice", "file": "torrentfile/torrent.py", "expect": "clean",
     "what": "sorting twice", "edits": [("        self.meta = self.sort_meta()\n", "        self.meta = self.sort_meta()\n        self.meta = self.sort_meta()\n")]},
    {"name": "benign-logging-in-write", "file": "torrentfile/torrent.py", "expect": "clean",
     "what": "logging between sort and dump", "edits": [("        self.meta = self.sort_meta()\n", "        self.meta = self.sort_meta()\n        logger.debug('writing %s', self.outfile)\n")]},
    {"name": "benign-sort-inlined", "file": "torrentfile/torrent.py", "expect": "clean",
     "what": "sort_meta inlined into write()",
     "edits": [("        self.meta = self.sort_meta()\n", "        meta = self.meta\n        meta[\"info\"] = dict(sorted(meta[\"info\"].items()))\n        if \"piece layers\" in meta:\n            meta[\"piece layers\"] = dict(sorted(meta[\"piece layers\"].items()))\n        self.meta = dict(sorted(meta.items()))\n")]},
    {"name": "benign-leaf-literal-via-variable", "file": "torrentfile/torrent.py", "expect": "clean",
     "what": "leaf built in a local first",
     "edits": [('            return {"": {"length": file_size, "pieces root": hasher.root}}', '            leaf = {"length": file_size, "pieces root": hasher.root}\n            return {"": leaf}')]},
]
QUICK_CANARIES = True

CLAIM = {
    "text": "Decided for all inputs and edit histories, given the re-validated pyben facts: every dictionary that can be part of a dumped value is enumerated by points-to analysis "
            "and shown to have ascending keys at the dump (re-keyed after its last insertion on every CFG path, an ascending literal, or filled in a sorted loop); "
            "value kinds, required keys per version on every path of every creator, and hash kinds of pieces / piece layers are decided as well. "
            "Integers and lengths are printed by str() in pyben, and nothing follows the top-level dictionary because dump writes the single encoding once.",
    "note": "Trusted: pyben encodes dictionaries in insertion order and numbers with str() (checked from its source each run); sorted() on str keys equals raw-byte order; "
            "input metafiles of edit are canonical (created here or by a conformant encoder), so untouched nested dictionaries keep a canonical order; "
            "the construction protocol (assemble in the constructor, write afterwards). Uniqueness of keys is Python dict semantics. 20/32-byte hash *lengths* follow from the hash function, "
            "not from a computed value.",
    "technique": "field-sensitive points-to over dictionary creation sites + CFG dominance / reaching definitions (sort-before-dump must-pass-through), literal key order, CFG path enumeration",
    "design_ref": "DESIGN.md section 4, C06",
}
