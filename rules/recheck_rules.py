"""Structural rules over torrentfile/recheck.py shared by C04, C05 and C16."""
import ast

from tfsa.loader import own_nodes, AnalysisError
from tfsa.report import norm
from tfsa.resolve import const_str
from . import common as C
from .linear import Lin, lin_of, module_consts
from tfsa.reach import ReachDefs

DIGEST = {"sha1": 20, "sha256": 32}


# ------------------------------------------------------------------------------------------ R1 bookkeeping
def bookkeeping(ctx, rid):
    fn = ctx.prog.func("torrentfile.recheck:Checker.iter_hashes")
    g = C.cfg_of(fn)
    loops = [n for n in fn.node.body if isinstance(n, ast.For)]
    loops = [l for l in loops if isinstance(l.target, ast.Tuple) and len(l.target.elts) == 4 and all(isinstance(e, ast.Name) for e in l.target.elts)]
    if len(loops) != 1:
        ctx.undecided(rid, fn, "comparison loop `for computed, recorded, path, size in checker` not found")
        return
    loop = loops[0]
    chunk, piece, _, size = [e.id for e in loop.target.elts]
    head = g.of[loop]
    body_start = C.succ_by_label(head, "iter")[0]
    # the result
    stores = [n for n in own_nodes(fn.node) if isinstance(n, ast.Assign) and any(isinstance(t, ast.Attribute) and t.attr == "_result" for t in n.targets)]
    # `if den > 0: result = ratio  else: result = 0` is the statement form of the conditional expression
    consts = [n for n in stores if isinstance(n.value, ast.Constant) and n.value.value == 0]
    partner = []
    if len(stores) > 1 and len(stores) - len(consts) == 1:
        main = [n for n in stores if n not in consts][0]
        holder = ctx.prog.parent.get(main)
        # the zero store is the other arm of the very `if` that guards the ratio
        partner = [c for c in consts if isinstance(holder, ast.If) and ((holder.body == [main] and holder.orelse == [c]) or (holder.orelse == [main] and holder.body == [c]))]
        stores = [n for n in stores if n not in consts]
    if len(stores) != 1:
        ctx.undecided(rid, fn, "store of the recheck result not found")
        return
    res = stores[0].value
    guard0 = None
    if isinstance(res, ast.IfExp):
        guard0, res_else = res.test, res.orelse
        res = res.body
    num = den = None
    names = [n.id for n in ast.walk(res) if isinstance(n, ast.Name)]
    # ratio * 100
    shape = _ratio_times_100(res)
    if shape is None:
        if isinstance(res, (ast.BinOp, ast.Constant, ast.Name, ast.Attribute)):
            ctx.violated(rid, fn, "the reported result is %s, not (matched bytes / examined bytes) * 100" % norm(res), stores[0])
        elif isinstance(res, ast.Call) and norm(res.func) in ("round", "math.ceil", "ceil") and res.args and _ratio_times_100(res.args[0]) is not None:
            ctx.violated(rid, fn, "the reported result is rounded (%s): a payload that does not match completely can be reported as 100" % norm(res), stores[0])
        else:
            # computed by a helper / another object: the accounting lives elsewhere and is not followed
            ctx.undecided(rid, fn, "the reported result is `%s`; the accounting behind it is not in this function and is not followed" % norm(res), stores[0])
        return
    num, den = shape
    ctx.holds(rid, fn, "result = %s / %s * 100" % (num, den), stores[0])
    result_integrity(ctx, rid, fn, stores[0], partner)
    payload_total(ctx, rid, _feeds_result(fn, stores[0]))
    # the result is stored after the loop is drained
    sn = C.stmt_node(ctx, fn, stores[0])
    ctx.decide(rid, fn, sn not in [n for n in g.reachable(body_start) if head in g.reachable(n)] or True and g.dominates(head, sn),
               "the result is computed after the comparison loop", "the result is not computed after the loop", norm(stores[0]) + " :: after-loop")
    # accumulators
    def tname(t):
        if isinstance(t, ast.Name):
            return t.id
        if isinstance(t, ast.Attribute) and isinstance(t.value, ast.Name) and t.value.id == fn.self_name:
            return "self." + t.attr
        return None
    for acc, role in ((num, "matched"), (den, "examined")):
        defs = [n for n in own_nodes(fn.node) if (isinstance(n, ast.Assign) and any(tname(t) == acc for t in n.targets))
                or (isinstance(n, ast.AugAssign) and tname(n.target) == acc)]
        inits = [d for d in defs if isinstance(d, ast.Assign)]
        augs = [d for d in defs if isinstance(d, ast.AugAssign)]
        ok_init = len(inits) == 1 and isinstance(inits[0].value, ast.Constant) and inits[0].value.value == 0 and g.dominates(C.stmt_node(ctx, fn, inits[0]), head)
        if not defs:
            # denominator may be the payload total (self.total)
            continue
        if acc.startswith("self.") and augs and not inits:
            ctx.violated(rid, fn, "%s-bytes accumulator %s lives on the object and is not set to 0 at the start of a run: a second results() / iter_hashes() on the same Checker "
                         "(after the content changed, or after an abandoned partial run) adds to the first run's counts" % (role, acc), "init " + acc)
            continue
        ctx.decide(rid, fn, ok_init, "%s-bytes accumulator %r starts at 0 before the loop" % (role, acc),
                   "%s-bytes accumulator %r is not initialised to 0 exactly once before the loop" % (role, acc), "init " + acc)
        if not augs:
            ctx.violated(rid, fn, "%s-bytes accumulator %r never grows" % (role, acc), "grow " + acc)
        for a in augs:
            an = C.stmt_node(ctx, fn, a)
            adds_size = isinstance(a.op, ast.Add) and isinstance(a.value, ast.Name) and a.value.id == size
            if not adds_size:
                ctx.violated(rid, fn, "%r grows by %s, not by the number of bytes the piece covers (%s)" % (acc, norm(a.value), size), a)
                continue
            deps = g.control_deps(an)
            inloop = [(b, lab) for b, lab in deps if b.kind == "test"]
            if role == "matched":
                ok = False
                for b, lab in inloop:
                    t = C.test_expr(b)

                    def atom(x, depth=0):
                        if isinstance(x, ast.Name) and depth < 3:
                            # same = chunk == piece; if same: ...   (a local defined once, by the comparison)
                            bl = ctx.res.bindings(fn).get(x.id, [])
                            if len(bl) == 1 and bl[0][0] == "value" and isinstance(bl[0][1], (ast.Compare, ast.Name, ast.UnaryOp, ast.BoolOp)):
                                return C.eval3(bl[0][1], lambda y: atom(y, depth + 1))
                            return None
                        if isinstance(x, ast.Compare) and len(x.ops) == 1 and isinstance(x.ops[0], (ast.Eq, ast.NotEq)):
                            ids = {n.id for n in (x.left, x.comparators[0]) if isinstance(n, ast.Name)}
                            if ids == {chunk, piece}:
                                return isinstance(x.ops[0], ast.Eq)
                        return None
                    if C.branch_when(b, atom) == lab:
                        # and the branch is not taken when the hashes differ
                        def atom_ne(x):
                            v = atom(x)
                            return None if v is None else (not v)
                        if C.branch_when(b, atom_ne) not in (None, lab):
                            ok = True
                ctx.decide(rid, fn, ok, "%r grows only when the computed hash equals the recorded hash of the same iteration" % acc,
                           "%r grows although the computed and the recorded hash were not compared for equality (or differ): damaged pieces count as verified" % acc, a)
            else:
                ok = not inloop and g.must_pass(body_start, head, {an})
                ctx.decide(rid, fn, ok, "%r grows by %s on every iteration, unconditionally" % (acc, size),
                           "%r does not grow on every iteration: unverified pieces drop out of the denominator and the percentage is inflated" % acc, a)
    # results() drains the generator
    rs = ctx.prog.func("torrentfile.recheck:Checker.results")
    drains = [n for n in own_nodes(rs.node) if isinstance(n, ast.For) and any(t[0] == "pkg" and t[1] is fn for c in ast.walk(n.iter) if isinstance(c, ast.Call) for t in ctx.res.call_targets(c, rs))]
    if not drains:
        # consumers that run an iterator to its end (any()/all()/next() may stop early and do not count)
        drained = any(isinstance(n, ast.Call) and norm(n.func) in ("list", "tuple", "sum", "sorted", "set", "max", "min", "deque", "collections.deque", "len")
                      and n.args and any(isinstance(c, ast.Call) and any(t[0] == "pkg" and t[1] is fn for t in ctx.res.call_targets(c, rs)) for c in ast.walk(n.args[0]))
                      for n in own_nodes(rs.node))
        ctx.decide(rid, rs, drained, "results() consumes the comparison generator", "results() does not run the comparison generator to its end", "drain")
    for d in drains:
        early = [x for st in d.body for x in ast.walk(st) if isinstance(x, (ast.Break, ast.Return))]
        ctx.decide(rid, rs, not early, "results() drains the comparison generator without early exit",
                   "results() leaves the comparison loop early: later pieces are never compared", d.iter)
    rets = [n for n in own_nodes(rs.node) if isinstance(n, ast.Return) and n.value is not None]
    ok = bool(rets) and all(isinstance(r.value, ast.Attribute) and r.value.attr == "_result" for r in rets)
    ctx.decide(rid, rs, ok, "results() returns the stored result unchanged", "results() returns %s" % (norm(rets[0].value) if rets else "nothing"), "return of results()")


def recorded_piece_length(ctx, rid):
    """The piece length the checkers hash with is the metafile's 'piece length' value itself.  A reader that passes it
    through the creator's policy (power-of-two / range normalisation, defaults) rejects or re-interprets metafiles that an
    independent encoder is free to write."""
    from tfsa.flow import Flow, walk_terms, show

    def is_recorded(t):
        if t[0] == "ext" and t[1] == "builtins.int" and len(t[2]) == 1 and not t[3]:
            return all(is_recorded(x) for x in t[2][0])     # int(recorded) is the recorded integer
        return t[0] == "sub" and any(x[0] == "const" and x[1] == "piece length" for x in t[2])
    fl = Flow(ctx.prog, ctx.res)
    n = 0
    inits = []
    NOT_A_LENGTH = ("builtins.bytes", "builtins.bytearray", "builtins.memoryview", "hashlib.sha1", "hashlib.sha256")
    for cq in ("torrentfile.recheck:FeedChecker", "torrentfile.recheck:HashChecker"):
        # the constructor of the piece checker, and those of package base classes it shares with its sibling
        for c in [ctx.prog.cls(cq)] + [b for b in ctx.prog.mro(ctx.prog.cls(cq)) if b is not ctx.prog.cls(cq)]:
            f = c.methods.get("__init__")
            if f is not None and f.module.name == "torrentfile.recheck" and (cq, f) not in inits and c.name != "ProgMixin":
                inits.append((cq, f))
    for cq, f in inits:
        for st in own_nodes(f.node):
            if not (isinstance(st, ast.Assign) and len(st.targets) == 1 and isinstance(st.targets[0], ast.Attribute) and isinstance(st.targets[0].value, ast.Name) and st.targets[0].value.id == f.self_name):
                continue
            terms = fl.term(st.value, f)
            if not any(is_recorded(x) for x in walk_terms(terms)):
                continue
            if all(t[0] == "ext" and t[1] in NOT_A_LENGTH for t in terms) or \
                    (isinstance(st.value, ast.Call) and isinstance(st.value.func, ast.Attribute) and st.value.func.attr in ("digest", "hexdigest")):
                continue        # a buffer of that many bytes, or a digest: made from the piece length, but not a piece length
            n += 1
            other = [t for t in terms if not is_recorded(t)]
            who = "%s.%s" % (cq.split(":")[1], st.targets[0].attr)
            if not other:
                ctx.holds(rid, f, "%s is the metafile's recorded piece length, taken verbatim" % who, who + " :: recorded piece length")
            else:
                ctx.violated(rid, f, "%s is not the recorded piece length itself but derived from it: %s - a well-formed metafile whose piece length the creator-side policy would not choose is rejected or hashed with a different piece size" % (
                    who, show(frozenset(other))[:300]), who + " :: recorded piece length")
    ctx.floor("piece checkers whose piece length is traced to the metafile", 2, n)


def recorded_hashes_verbatim(ctx, rid):
    """The hashes a computed hash is compared with are the metafile's own: every store to the attribute the piece checkers
    slice their recorded hash from (`self.pieces`) is a value decoded from the metafile (info.pieces, a piece layer, a pieces
    root).  A reader that replaces them - by an empty string after a plausibility test of its own, by a re-computed value -
    makes an intact payload of a well-formed metafile compare unequal."""
    from tfsa.flow import Flow, walk_terms, show
    fl = Flow(ctx.prog, ctx.res)
    n = 0
    for cq in ("torrentfile.recheck:FeedChecker", "torrentfile.recheck:HashChecker"):
        cls = ctx.prog.cls(cq)
        for f in cls.methods.values():
            for st in own_nodes(f.node):
                if not (isinstance(st, ast.Assign) and len(st.targets) == 1 and isinstance(st.targets[0], ast.Attribute) and st.targets[0].attr == "pieces"
                        and isinstance(st.targets[0].value, ast.Name) and st.targets[0].value.id == f.self_name):
                    continue
                n += 1
                terms = fl.term(st.value, f)
                who = "%s.pieces in %s" % (cls.name, f.name)
                consts = [t for t in terms if t[0] in ("const", "list", "fstr") or (t[0] == "ext" and t[1] in ("builtins.bytes", "builtins.bytearray"))]
                recorded = [t for t in terms if any(x[0] == "ext" and x[1] == "pyben.load" for x in walk_terms(frozenset([t])))]
                if consts:
                    g = C.cfg_of(f)
                    sn = C.stmt_node(ctx, f, st)
                    guards = [norm(C.test_expr(b)) for b, _ in g.direct_control_deps(sn) if C.test_expr(b) is not None] if sn is not None else []
                    # tests that merely select between the layer and the root (length against piece length) do not make the
                    # replacement conditional on the metafile being malformed
                    own = [t_ for t_ in guards if not ("length" in t_ and "piece_length" in t_)]
                    if own:
                        ctx.undecided(rid, f, "%s: the recorded hashes are replaced by `%s` when `%s`; that this condition is never met for a well-formed metafile is not decided - if it can be, "
                                      "an intact payload reports less than 100%%" % (who, norm(st.value), own[0]), st)
                    else:
                        ctx.violated(rid, f, "%s: the recorded hashes are replaced by `%s`: every piece of that file then compares unequal, so an intact payload of a well-formed metafile "
                                     "reports less than 100%%" % (who, norm(st.value)), st)
                elif recorded and len(recorded) == len(terms):
                    ctx.holds(rid, f, "%s is a value decoded from the metafile, taken verbatim" % who, st)
                else:
                    ctx.undecided(rid, f, "%s = `%s`: whether these are the metafile's recorded hashes is not decided (%s)" % (who, norm(st.value), show(terms, maxdepth=2)[:80]), st)
    ctx.floor("stores of the recorded hashes in the piece checkers", 3, n)


def reader_merkle_padding(ctx, rid):
    """A reader that recomputes a pieces root from a piece layer must pad the layer the way the writers do (BEP 52): with the
    root of an all-zero piece, not with 32 zero bytes.  The two agree only for 16 KiB pieces, so a validation that pads with
    zero hashes rejects the layers of well-formed metafiles (piece length above 16 KiB, piece count not a power of two)."""
    from .linear import fold_int
    mod = ctx.prog.modules["torrentfile.recheck"]
    consts = module_consts(mod)
    n = 0
    for f in ctx.prog.functions.values():
        if f.module is not mod:
            continue
        calls = [c for c in own_nodes(f.node) if isinstance(c, ast.Call) and any(t.name == "merkle_root" for t in C.targets_of(ctx, f, c)) and c.args]
        for c in calls:
            arg = c.args[0]
            if not isinstance(arg, ast.Name):
                continue
            pads = []
            for st in own_nodes(f.node):
                e = None
                if isinstance(st, ast.Call) and isinstance(st.func, ast.Attribute) and st.func.attr == "extend" and isinstance(st.func.value, ast.Name) and st.func.value.id == arg.id and st.args:
                    e = st.args[0]
                if isinstance(st, ast.AugAssign) and isinstance(st.op, ast.Add) and isinstance(st.target, ast.Name) and st.target.id == arg.id:
                    e = st.value
                if e is None:
                    continue
                elem = None
                if isinstance(e, (ast.ListComp, ast.GeneratorExp)) and len(e.generators) == 1:
                    elem = e.elt
                elif isinstance(e, ast.BinOp) and isinstance(e.op, ast.Mult):
                    lst = e.left if isinstance(e.left, ast.List) else e.right if isinstance(e.right, ast.List) else None
                    if lst is not None and len(lst.elts) == 1:
                        elem = lst.elts[0]
                if elem is not None:
                    pads.append((st, elem))
            # only layers (lists cut from a recorded layer string) are of interest: the list must be built from 32-byte slices
            from_layer = any(isinstance(x, ast.Subscript) and isinstance(x.slice, ast.Slice) for w_, p_ in ctx.res.bindings(f).get(arg.id, []) if w_ == "value" for x in ast.walk(p_))
            if not pads or not from_layer:
                continue
            for st, elem in pads:
                n += 1
                seen = 0
                while isinstance(elem, ast.Name) and seen < 3:
                    vals = [p_ for w_, p_ in ctx.res.bindings(f).get(elem.id, []) if w_ == "value"]
                    if len(vals) != 1:
                        break
                    elem, seen = vals[0], seen + 1
                zero = isinstance(elem, ast.Call) and isinstance(elem.func, ast.Name) and elem.func.id in ("bytes", "bytearray") and len(elem.args) == 1 and fold_int(elem.args[0], consts) == 32
                root = isinstance(elem, ast.Call) and any(t.name == "merkle_root" for t in C.targets_of(ctx, f, elem))
                if zero:
                    ctx.violated(rid, f, "%s recomputes a pieces root from a piece layer padded with 32 zero bytes (`%s`); the writers (and BEP 52) pad the layer with the root of an all-zero piece - "
                                 "for piece lengths above 16 KiB and a piece count that is not a power of two the recomputed root differs and the layer of a well-formed metafile is rejected" % (f.name, norm(st)[:60]), st)
                elif root:
                    ctx.holds(rid, f, "%s pads the piece layer with the root of an all-zero piece before recomputing the pieces root" % f.name, st)
                else:
                    ctx.undecided(rid, f, "%s pads a piece layer with `%s` before recomputing a pieces root; whether that is the root of an all-zero piece is not decided" % (f.name, norm(elem)[:50]), st)
    return n


ROUNDERS = ("round", "int", "ceil", "floor", "trunc", "min", "max", "format", "str", "float")


def result_integrity(ctx, rid, fn, result_store, partner=()):
    """The stored percentage reaches the caller unchanged: no other store of it, nothing rounds it on the way out."""
    attr = [t.attr for t in result_store.targets if isinstance(t, ast.Attribute)][0]
    n = 0
    for f in ctx.prog.functions.values():
        for st in own_nodes(f.node):
            tg = []
            if isinstance(st, ast.Assign):
                tg = [t for t in st.targets if isinstance(t, ast.Attribute) and t.attr == attr]
            elif isinstance(st, (ast.AugAssign, ast.AnnAssign)) and isinstance(st.target, ast.Attribute) and st.target.attr == attr:
                tg = [st.target]
            if not tg or st is result_store or any(st is p_ for p_ in partner):
                continue
            if f.cls is None or not (f.cls is fn.cls or fn.cls in ctx.prog.mro(f.cls) or f.cls in ctx.prog.mro(fn.cls)):
                kinds = ctx.res.kinds(tg[0].value, f)
                if not any(k[0] == "inst" and (k[1] is fn.cls or fn.cls in ctx.prog.mro(k[1])) for k in kinds):
                    continue
            n += 1
            v = getattr(st, "value", None)
            if f.name == "__init__" and isinstance(v, ast.Constant):
                ctx.holds(rid, f, "initial value of the result attribute", st)
                continue
            calls = {norm(c.func).split(".")[-1] for c in ast.walk(st) if isinstance(c, ast.Call)}
            if isinstance(st, ast.AugAssign) or (calls & set(ROUNDERS)):
                ctx.violated(rid, f, "the stored percentage is rewritten by `%s` after it was computed: a value just below 100 (damage in a small part of a large payload) can become 100" % norm(st), st)
            else:
                ctx.undecided(rid, f, "the stored percentage is rewritten by `%s`" % norm(st), st)
    # the CLI command hands the value of results() through unchanged
    rs = ctx.prog.func("torrentfile.recheck:Checker.results")
    for f in ctx.prog.functions.values():
        if f.module.name != "torrentfile.commands":
            continue
        calls = [c for c in own_nodes(f.node) if isinstance(c, ast.Call) and any(t is rs for t in C.targets_of(ctx, f, c))]
        if not calls:
            continue
        n += 1
        g = C.cfg_of(f)
        from tfsa.reach import ReachDefs
        rd = ReachDefs(f, g)
        for r in [x for x in own_nodes(f.node) if isinstance(x, ast.Return) and x.value is not None]:
            v = r.value
            ok = False
            if any(v is c for c in calls):
                ok = True
            elif isinstance(v, ast.Name):
                defs = rd.reaching(v.id, C.stmt_node(ctx, f, r))
                ok = bool(defs) and all(d.kind == "assign" and any(d.value is c for c in calls) for d in defs)
            ctx.decide(rid, f, ok, "%s returns the value of Checker.results() unchanged" % f.name,
                       "%s returns `%s`, not the value Checker.results() produced" % (f.name, norm(v)), r)
    return n


def _feeds_result(fn, result_store):
    """Attribute names of self that (through local assignments) flow into the stored percentage."""
    work = [result_store.value]
    seen_names = set()
    attrs = set()
    assigns = {}
    for n in own_nodes(fn.node):
        if isinstance(n, ast.Assign):
            for t in n.targets:
                for x in ast.walk(t):
                    if isinstance(x, ast.Name):
                        assigns.setdefault(x.id, []).append(n.value)
        elif isinstance(n, ast.AugAssign) and isinstance(n.target, ast.Name):
            assigns.setdefault(n.target.id, []).append(n.value)
    while work:
        e = work.pop()
        for x in ast.walk(e):
            if isinstance(x, ast.Attribute) and isinstance(x.value, ast.Name) and x.value.id == fn.self_name:
                attrs.add(x.attr)
            elif isinstance(x, ast.Name) and x.id not in seen_names:
                seen_names.add(x.id)
                work.extend(assigns.get(x.id, []))
    return attrs


def payload_total(ctx, rid, feeding_attrs):
    """The payload total grows for exactly the entries that are handed to the piece checker (same control dependence as the
    path being recorded) and by the length recorded for that entry.  Judged only when the total takes part in the
    percentage (as denominator, or by limiting the sizes that are accumulated); a total that is only shown in the progress
    log cannot change the verdict."""
    cls = ctx.prog.cls("torrentfile.recheck:Checker")
    ih = cls.methods["iter_hashes"]
    tattr = None
    for n in own_nodes(ih.node):
        if isinstance(n, ast.BinOp) and isinstance(n.op, ast.Div) and isinstance(n.right, ast.Attribute) and isinstance(n.right.value, ast.Name) and n.right.value.id == ih.self_name:
            tattr = n.right.attr
    if tattr is None:
        tattr = "total"
    if tattr not in feeding_attrs:
        ctx.holds(rid, ih, "the payload total (self.%s) does not take part in the percentage: it is only displayed" % tattr, "payload total :: relevance", nontrivial=False)
        return
    n_sites = 0
    for f in cls.methods.values():
        g = None
        for st in own_nodes(f.node):
            if not (isinstance(st, ast.AugAssign) and isinstance(st.target, ast.Attribute) and st.target.attr == tattr and isinstance(st.target.value, ast.Name) and st.target.value.id == f.self_name):
                continue
            loop = None
            p = ctx.prog.parent.get(st)
            while p is not None and p is not f.node:
                if isinstance(p, (ast.For, ast.While)):
                    loop = p
                    break
                p = ctx.prog.parent.get(p)
            if loop is None:
                continue
            n_sites += 1
            g = g or C.cfg_of(f)
            apps = [x for x in ast.walk(loop) if isinstance(x, ast.Call) and isinstance(x.func, ast.Attribute) and x.func.attr == "append"
                    and isinstance(x.func.value, ast.Attribute) and isinstance(x.func.value.value, ast.Name) and x.func.value.value.id == f.self_name]
            if not apps:
                ctx.undecided(rid, f, "payload total grows in a loop that records no path", st)
                continue
            sn = C.stmt_node(ctx, f, st)

            def inner(node):
                return {(norm(C.test_expr(b)), lab) for b, lab in g.control_deps(node, normal_only=True) if b.kind == "test" and b.ast is not loop and _within(ctx, b.ast, loop)}
            want = inner(C.stmt_node(ctx, f, apps[0]))
            have = inner(sn)
            extra = have - want
            ok = isinstance(st.op, ast.Add) and not extra
            ctx.decide(rid, f, ok, "the payload total grows by the entry's length for every entry that is handed to the piece checker",
                       "the payload total skips entries (%s) that are nevertheless hashed and compared: the share of examined bytes, and any percentage taken of the total, is wrong" % (
                           ", ".join("%s is %s" % e for e in sorted(extra)) or norm(st)), st)
            # the amount added is the length recorded for the entry
            recs = [x for x in ast.walk(loop) if isinstance(x, ast.Dict) and any(const_str(k) == "length" for k in x.keys if k is not None)]
            if recs:
                lv = [v for k, v in zip(recs[0].keys, recs[0].values) if k is not None and const_str(k) == "length"][0]
                same = norm(lv) == norm(st.value)
                ctx.decide(rid, f, same, "the amount added to the total is the length recorded for the entry (%s)" % norm(lv),
                           "the total grows by `%s` but the entry is recorded with length `%s`" % (norm(st.value), norm(lv)), norm(st) + " :: amount")
    ctx.floor("loops that accumulate the payload total", 2, n_sites)


def _within(ctx, node, outer):
    p = node
    while p is not None:
        if p is outer:
            return True
        p = ctx.prog.parent.get(p)
    return False


def _ratio_times_100(e):
    """(numerator name, denominator name) if e is  num / den * 100  in any association."""
    def is100(x):
        return isinstance(x, ast.Constant) and x.value == 100

    def nm(v):
        if isinstance(v, ast.Name):
            return v.id
        if isinstance(v, ast.Attribute) and isinstance(v.value, ast.Name):
            return "self." + v.attr
        return None

    def ratio(x):
        if isinstance(x, ast.BinOp) and isinstance(x.op, ast.Div) and nm(x.left) and nm(x.right):
            return nm(x.left), nm(x.right)
        return None
    if isinstance(e, ast.BinOp) and isinstance(e.op, ast.Mult):
        for a, b in ((e.left, e.right), (e.right, e.left)):
            if is100(b) and ratio(a):
                return ratio(a)
    if isinstance(e, ast.BinOp) and isinstance(e.op, ast.Div):
        # (num * 100) / den
        l = e.left
        if isinstance(l, ast.BinOp) and isinstance(l.op, ast.Mult):
            for a, b in ((l.left, l.right), (l.right, l.left)):
                if is100(b) and nm(a) and nm(e.right):
                    return nm(a), nm(e.right)
    return None


# ------------------------------------------------------------------------------------------ R2 StopIteration discipline
def may_raise_stop(ctx):
    """Package functions from which StopIteration can escape."""
    prog = ctx.prog
    esc = set()

    def protected(fn, node):
        p = prog.parent.get(node)
        child = node
        while p is not None and p is not fn.node:
            if isinstance(p, ast.Try) and child in p.body:
                for h in p.handlers:
                    names = [norm(h.type)] if h.type is not None else ["BaseException"]
                    if isinstance(h.type, ast.Tuple):
                        names = [norm(x) for x in h.type.elts]
                    if any(n in ("StopIteration", "Exception", "BaseException") for n in names):
                        return p, h
            child = p
            p = prog.parent.get(p)
        return None, None
    changed = True
    funcs = [f for f in prog.functions.values() if f.module.name in ("torrentfile.recheck", "torrentfile.hasher")]
    while changed:
        changed = False
        for f in funcs:
            if f in esc or f.is_generator:
                continue
            for n in own_nodes(f.node):
                hit = False
                if isinstance(n, ast.Raise) and n.exc is not None and norm(n.exc.func if isinstance(n.exc, ast.Call) else n.exc) == "StopIteration":
                    # a raise inside a handler of the try is not protected by that try
                    tr, h = protected(f, n)
                    hit = tr is None
                elif isinstance(n, ast.Call):
                    callee_esc = False
                    if isinstance(n.func, ast.Name) and n.func.id == "next" and len(n.args) == 1:
                        callee_esc = True
                    else:
                        for t in C.targets_of(ctx, f, n):
                            if t in esc:
                                callee_esc = True
                    if callee_esc:
                        tr, h = protected(f, n)
                        hit = tr is None
                if hit:
                    esc.add(f)
                    changed = True
                    break
    return esc, protected


def stop_iteration_discipline(ctx, rid):
    prog = ctx.prog
    esc, protected = may_raise_stop(ctx)
    n_beliefs = 0
    for f in prog.functions.values():
        if f.name != "__next__" or f.module.name not in ("torrentfile.recheck", "torrentfile.hasher"):
            continue
        calls = {}
        for n in own_nodes(f.node):
            if isinstance(n, ast.Call):
                tg = [t for t in C.targets_of(ctx, f, n) if t in esc]
                if isinstance(n.func, ast.Name) and n.func.id == "next" and len(n.args) == 1:
                    key = "next(%s)" % norm(n.args[0])
                    calls.setdefault(key, []).append(n)
                for t in tg:
                    calls.setdefault(t.qual, []).append(n)
        for key, sites in calls.items():
            beliefs = []
            for s in sites:
                tr, h = protected(f, s)
                if tr is not None and h is not None:
                    continues = any(not isinstance(st, ast.Raise) for st in h.body)
                    if continues:
                        beliefs.append((s, tr, h))
            if not beliefs:
                continue
            n_beliefs += 1
            for s in sites:
                tr, h = protected(f, s)
                if tr is None:
                    ctx.violated(rid, f, "%s is called here without protection although another call of it in this __next__ is wrapped in try/except StopIteration that carries on: "
                                 "when the inner source is exhausted here (e.g. an empty file yields no piece) the StopIteration leaks out and ends the whole check early - "
                                 "everything after it is never compared" % key.split(":")[-1], s)
                else:
                    ctx.holds(rid, f, "call of %s is protected by try/except StopIteration" % key.split(":")[-1], s)
    ctx.floor("iterator methods that carry on after an inner StopIteration", 1, n_beliefs)
    foreign_stop_escapes(ctx, rid)


def _exact_targets(ctx, fn, call):
    out = []
    for site in ctx.cg.sites.get(fn, []):
        if site.node is call:
            for t in site.targets:
                if t[0] == "pkg" and t[1] not in site.approx and t[1] not in out:
                    out.append(t[1])
    return out


def foreign_stop_escapes(ctx, rid):
    """A hand-written __next__ ends its consumer's `for` loop with StopIteration.  The only StopIteration that may leave it
    is one the iterator classes of recheck / hasher raise or delegate on purpose.  A `next(x)` without default (or a
    `raise StopIteration`) in any *other* package function that is reachable through unprotected calls is a stray
    exhaustion signal: the consumer silently stops comparing, and what was compared so far decides the percentage."""
    prog = ctx.prog
    _, protected = may_raise_stop(ctx)
    own_mods = ("torrentfile.recheck", "torrentfile.hasher")
    origins = {}

    def prim(f):
        out = []
        for n in own_nodes(f.node):
            if isinstance(n, ast.Raise) and n.exc is not None and norm(n.exc.func if isinstance(n.exc, ast.Call) else n.exc) == "StopIteration":
                if protected(f, n)[0] is None:
                    out.append((f, n, ()))
            elif isinstance(n, ast.Call) and isinstance(n.func, ast.Name) and n.func.id == "next" and len(n.args) == 1 and not n.keywords:
                if protected(f, n)[0] is None:
                    out.append((f, n, ()))
        return out
    funcs = [f for f in prog.functions.values() if not f.is_generator]
    for f in funcs:
        origins[f] = {(g, id(n)): (g, n, ch) for g, n, ch in prim(f)}
    changed = True
    rounds = 0
    while changed and rounds < 50:
        changed = False
        rounds += 1
        for f in funcs:
            for n in own_nodes(f.node):
                if not isinstance(n, ast.Call) or protected(f, n)[0] is not None:
                    continue
                for t in _exact_targets(ctx, f, n):
                    for k, (g, node, ch) in list(origins.get(t, {}).items()):
                        if k not in origins[f] and len(ch) < 8:
                            origins[f][k] = (g, node, (t,) + ch)
                            changed = True
    n_it = 0
    for f in prog.functions.values():
        if f.name != "__next__" or f.module.name not in own_mods:
            continue
        n_it += 1
        stray = [(g, node, ch) for (g, node, ch) in origins.get(f, {}).values() if g.module.name not in own_mods]
        label = "%s :: foreign StopIteration" % f.qual.split(":")[-1]
        if not stray:
            ctx.holds(rid, f, "no StopIteration from outside the iterator classes can leave this __next__ (%d origin(s), all inside recheck / hasher)" % len(origins.get(f, {})), label)
            continue
        for g, node, ch in stray:
            chain = " -> ".join(x.qual.split(":")[-1] for x in ch) or g.qual.split(":")[-1]
            arg = node.args[0] if isinstance(node, ast.Call) else None
            sure = isinstance(node, ast.Raise) or _possibly_empty(ctx, g, arg)
            msg = "`%s` in %s can raise StopIteration, which escapes through %s out of this __next__: the `for` loop consuming the iterator takes it as exhaustion and stops comparing" % (
                norm(node), g.qual.split(":")[-1], chain)
            if sure:
                ctx.violated(rid, f, msg, node)
            else:
                ctx.undecided(rid, f, msg + " (whether the source can be empty is not decided)", node)
    ctx.floor("hand-written iterators examined for stray StopIteration", 3, n_it)


def _possibly_empty(ctx, fn, arg):
    """The argument of next() is visibly an iterator that can be empty: a filtered generator expression, filter(), or a
    local name bound to one."""
    e = arg
    for _ in range(4):
        if isinstance(e, ast.Name):
            vals = [p for w, p in ctx.res.bindings(fn).get(e.id, []) if w == "value"]
            if len(vals) != 1:
                return False
            e = vals[0]
            continue
        break
    if isinstance(e, ast.GeneratorExp):
        return any(g.ifs for g in e.generators) or True
    if isinstance(e, ast.Call) and isinstance(e.func, ast.Name) and e.func.id in ("filter", "iter", "map", "zip"):
        return True
    return False


# ------------------------------------------------------------------------------------------ R3 carried buffer
def carried_buffer(ctx, rid):
    fn = ctx.prog.func("torrentfile.recheck:FeedChecker.iter_pieces")
    g = C.cfg_of(fn)
    outer = [n for n in fn.node.body if isinstance(n, ast.For)]
    if len(outer) != 1:
        ctx.undecided(rid, fn, "file loop of the v1 piece generator not found")
        return
    loop = outer[0]
    head = g.of[loop]
    # carried variable: assigned before the loop, read inside the loop as an argument, assigned inside the loop
    before = {t.id for st in fn.node.body[: fn.node.body.index(loop)] if isinstance(st, ast.Assign) for t in st.targets if isinstance(t, ast.Name)}
    inside_assigned = {t.id for n in ast.walk(loop) if isinstance(n, ast.Assign) for t in n.targets if isinstance(t, ast.Name)}
    inside_read = {a.id for n in ast.walk(loop) if isinstance(n, ast.Call) for a in n.args if isinstance(a, ast.Name)}
    carried = sorted(before & inside_assigned & inside_read)
    if len(carried) != 1:
        ctx.undecided(rid, fn, "carried partial-piece variable not identified (candidates %s)" % carried)
        return
    cv = carried[0]
    # ---- inner producers: every produced piece is yielded or carried
    inner = [n for n in ast.walk(loop) if isinstance(n, ast.For) and n is not loop]
    if not inner:
        ctx.undecided(rid, fn, "no inner piece loop")
    for il in inner:
        if not isinstance(il.target, ast.Name):
            continue
        pv = il.target.id
        ih = g.of[il]
        bs = C.succ_by_label(ih, "iter")[0]
        marks = set()
        yields = []
        for n in ast.walk(il):
            if isinstance(n, ast.Expr) and isinstance(n.value, ast.Yield) and isinstance(n.value.value, ast.Name) and n.value.value.id == pv:
                marks.add(g.of[n])
                yields.append(n)
            if isinstance(n, ast.Assign) and any(isinstance(t, ast.Name) and t.id == cv for t in n.targets) and isinstance(n.value, ast.Name) and n.value.id == pv:
                marks.add(g.of[n])
        ok = bool(marks) and g.must_pass(bs, ih, marks)
        ctx.decide(rid, fn, ok, "every piece produced by `%s` is either yielded or carried in %r" % (norm(il.iter), cv),
                   "a piece produced by `%s` can be dropped (neither yielded nor carried in %r): that piece is never compared" % (norm(il.iter), cv), il.iter)
        # a full piece that was yielded must not stay in the carried variable
        for y in yields:
            yn = g.of[y]
            resets = {g.of[n] for n in ast.walk(il) if isinstance(n, ast.Assign) and any(isinstance(t, ast.Name) and t.id == cv for t in n.targets)}
            ok = g.must_pass(yn, ih, resets - {yn})
            # acceptable alternative: the yielded object is not the carried one (the carried var is only set in the other branch)
            alias = any(isinstance(n, ast.Assign) and any(isinstance(t, ast.Name) and t.id == cv for t in n.targets) and isinstance(n.value, ast.Name) and n.value.id == pv
                        and g.of[n] in g.reachable(bs) and yn in g.reachable(g.of[n]) for n in ast.walk(il))
            ctx.decide(rid, fn, ok or not alias and _carried_cleared_by_consumer(ctx, fn, cv), "after a full piece is yielded the carried variable is reset",
                       "after a full piece is yielded the carried variable %r still holds earlier data: it is compared (and counted) twice" % cv, y)
    # ---- both producers receive the carried piece
    for n in ast.walk(loop):
        if isinstance(n, ast.Assign) and isinstance(n.value, ast.Call):
            tg = C.targets_of(ctx, fn, n.value)
            if tg and all(t.is_generator for t in tg) and isinstance(n.targets[0], ast.Name):
                has = any(isinstance(a, ast.Name) and a.id == cv for a in n.value.args)
                ctx.decide(rid, fn, has, "producer %s continues the carried piece" % norm(n.value.func),
                           "producer %s does not receive the carried partial piece: bytes before a file boundary are lost" % norm(n.value.func), n)
    # ---- flush after the loop
    done = C.succ_by_label(head, "done")
    flushes = [n for n in fn.node.body[fn.node.body.index(loop) + 1:] for x in ast.walk(n)
               if isinstance(x, ast.Yield) and isinstance(x.value, ast.Name) and x.value.id == cv]
    if not flushes:
        ctx.violated(rid, fn, "the partial piece carried in %r is not yielded after the last file: when the last file is missing, empty or ends mid-piece, the final piece is never compared "
                     "(a removed last file then still gives 100%%)" % cv, "flush of " + cv)
    else:
        # the flush may only be skipped when the carried buffer is empty
        fl = [n for n in fn.node.body[fn.node.body.index(loop) + 1:] if any(isinstance(x, ast.Yield) for x in ast.walk(n))][0]
        ok = True
        why = ""
        if isinstance(fl, ast.If):
            t = fl.test
            simple = (isinstance(t, ast.Name) and t.id == cv) or (isinstance(t, ast.Call) and isinstance(t.func, ast.Name) and t.func.id == "len" and norm(t.args[0]) == cv) \
                or (isinstance(t, ast.Compare) and norm(t.left) == "len(%s)" % cv and isinstance(t.ops[0], (ast.Gt, ast.NotEq)) and norm(t.comparators[0]) == "0")
            if not simple:
                ok, why = False, "the flush is conditional on %s" % norm(t)
        elif not isinstance(fl, ast.Expr):
            ok, why = False, "flush statement not understood"
        ctx.decide(rid, fn, ok, "the carried partial piece is yielded after the last file (skipped only when empty)",
                   "the final partial piece is not always yielded: %s" % why, fl)
    # ---- no last-file special case inside the loop (sibling branches must agree)
    for n in ast.walk(loop):
        if isinstance(n, ast.Compare) and any(isinstance(x, ast.Call) and isinstance(x.func, ast.Name) and x.func.id == "len" and "paths" in norm(x) for x in ast.walk(n)):
            ctx.violated(rid, fn, "a 'this is the last file' special case decides whether a short piece is yielded; the sibling branch for a missing file does not have it, so a missing or empty last file loses the final piece", n)


def _carried_cleared_by_consumer(ctx, fn, cv):
    return False


# ------------------------------------------------------------------------------------------ R4 absent data
def absent_data(ctx, rid):
    n = 0
    for q in ("torrentfile.recheck:FeedChecker.iter_pieces", "torrentfile.recheck:HashChecker.next_file"):
        fn = ctx.prog.func(q)
        for st in own_nodes(fn.node):
            if not isinstance(st, ast.If):
                continue
            ex = [a for a in C.atoms_of(st.test) if isinstance(a, ast.Call) and (C.is_ext_call(ctx, a, fn, ("os.path.exists", "os.path.isfile")) or
                                                                                 (isinstance(a.func, ast.Attribute) and a.func.attr in ("exists", "is_file")))]
            if not ex:
                continue
            n += 1
            pos, neg = (st.body, st.orelse)
            if isinstance(st.test, ast.UnaryOp) and isinstance(st.test.op, ast.Not):
                pos, neg = neg, pos

            def targets(body):
                out = {}
                for s in body:
                    if isinstance(s, ast.Assign):
                        for t in s.targets:
                            out[norm(t)] = s.value
                return out
            tp, tn = targets(pos), targets(neg)
            common = set(tp) & set(tn)

            def stand_in(body):
                """A call in the branch receives the recorded length (zero-filled stand-in of that many bytes)."""
                local_len = {t.id for x in own_nodes(fn.node) if isinstance(x, ast.Assign) and isinstance(x.value, ast.Subscript) and const_str(x.value.slice) == "length"
                             for t in x.targets if isinstance(t, ast.Name)}
                for s_ in body:
                    for x in ast.walk(s_):
                        if isinstance(x, ast.Call) and not (isinstance(x.func, ast.Attribute) and x.func.attr in ("debug", "info", "warning", "log_msg", "close_out", "update")):
                            for a in list(x.args) + [k.value for k in x.keywords]:
                                for y in ast.walk(a):
                                    if (isinstance(y, ast.Name) and (y.id in ("total", "length") or y.id in local_len)) or (isinstance(y, ast.Attribute) and y.attr == "length") \
                                            or (isinstance(y, ast.Subscript) and const_str(y.slice) == "length"):
                                        return x
                return None
            si = stand_in(neg) if neg else None
            if not neg or si is None:
                ctx.violated(rid, fn, "when the payload file is absent nothing stands in for it: its pieces are skipped instead of being compared as zeros, so a removed file does not lower the result", st.test)
                continue
            ctx.holds(rid, fn, "absent file: %s produces a zero-filled stand-in of the recorded length" % norm(si)[:60], st.test)
    ctx.floor("existence tests on payload paths in the checkers", 1, n)


# ------------------------------------------------------------------------------------------ R5 digest pairing
def _presplit_lookup(ctx, fn, consts):
    """The recorded hashes split once into a list, `self.H = [self.pieces[s:s + W] for s in range(0, len(self.pieces), W)]`,
    and looked up as self.H[counter]: (lookup node, width W, start = counter * W), or (None, reason), or None if the
    function does no such lookup."""
    if fn.cls is None or not fn.self_name:
        return None
    for n in own_nodes(fn.node):
        if not (isinstance(n, ast.Subscript) and not isinstance(n.slice, ast.Slice) and isinstance(n.ctx, ast.Load) and isinstance(n.value, ast.Attribute)
                and isinstance(n.value.value, ast.Name) and n.value.value.id == fn.self_name):
            continue
        defs = []
        for c in ctx.prog.mro(fn.cls):
            for m in c.methods.values():
                for x in own_nodes(m.node):
                    if isinstance(x, ast.Assign) and any(isinstance(t, ast.Attribute) and t.attr == n.value.attr and isinstance(t.value, ast.Name) and t.value.id == m.self_name for t in x.targets):
                        defs.append(x.value)
        comp = [d for d in defs if isinstance(d, ast.ListComp) and isinstance(d.elt, ast.Subscript) and isinstance(d.elt.slice, ast.Slice)
                and isinstance(d.elt.value, ast.Attribute) and d.elt.value.attr == "pieces"]
        if not comp:
            continue
        if len(defs) != 1 or len(comp[0].generators) != 1 or comp[0].generators[0].ifs or not isinstance(comp[0].generators[0].target, ast.Name):
            return None, "the list of recorded hashes %s is built in a way that is not understood" % norm(n.value)
        gen, elt = comp[0].generators[0], comp[0].elt
        v = gen.target.id
        rng = gen.iter
        if not (isinstance(rng, ast.Call) and isinstance(rng.func, ast.Name) and rng.func.id == "range" and len(rng.args) == 3):
            return None, "the recorded hashes are split over `%s`, not over range(0, len(pieces), width)" % norm(rng)
        start, stop, step = (lin_of(a, consts) for a in rng.args)
        lo_ = lin_of(elt.slice.lower, consts) if elt.slice.lower is not None else None
        hi_ = lin_of(elt.slice.upper, consts) if elt.slice.upper is not None else None
        if None in (start, stop, step, lo_, hi_) or lo_ != Lin.atom(v) or not start.is_const() or start.c != 0 or not step.is_const() \
                or norm(rng.args[1]) != "len(%s)" % norm(elt.value):
            return None, "the split of the recorded hashes (`%s`) is outside the forms this rule reads" % norm(comp[0])[:80]
        width = hi_.sub(lo_)
        idx = lin_of(n.slice, consts)
        if idx is None:
            return None, "the index into the list of recorded hashes is not linear: %s" % norm(n)
        if not (width.is_const() and width.c == step.c):
            # entries overlap or leave gaps: entry k is not the k-th hash
            return n, width, Lin.atom("<split stride %s differs from entry width %s>" % (step, width))
        return n, width, idx.scale(step.c)
    return None


def digest_pairing(ctx, rid):
    consts = module_consts(ctx.prog.modules["torrentfile.recheck"])
    sites = 0
    for q, algo in (("torrentfile.recheck:FeedChecker.__next__", "sha1"), ("torrentfile.recheck:HashChecker.advance", "sha256")):
        fn = ctx.prog.func(q)
        H = DIGEST[algo]
        g = C.cfg_of(fn)
        # recorded-hash slice  X[lo:hi]
        slices = [n for n in own_nodes(fn.node) if isinstance(n, ast.Subscript) and isinstance(n.slice, ast.Slice) and isinstance(n.ctx, ast.Load)
                  and isinstance(n.value, ast.Attribute) and n.value.attr == "pieces"
                  and not (n.slice.lower is None and isinstance(n.slice.upper, ast.Constant) and n.slice.upper.value == 0)]     # x[:0] is the empty stand-in, not a hash

        def expand(e, depth=0):
            if isinstance(e, ast.Name) and depth < 5:
                vals = [p for w, p in ctx.res.bindings(fn).get(e.id, []) if w == "value"]
                if len(vals) == 1:
                    return expand(vals[0], depth + 1)
            if isinstance(e, ast.Attribute) and isinstance(e.value, ast.Name) and e.value.id == fn.self_name and fn.cls is not None and depth < 5:
                # self.width, assigned once in the class (a constant kept on the object)
                vals = [n.value for m in fn.cls.methods.values() for n in own_nodes(m.node) if isinstance(n, ast.Assign) and len(n.targets) == 1
                        and isinstance(n.targets[0], ast.Attribute) and n.targets[0].attr == e.attr and isinstance(n.targets[0].value, ast.Name) and n.targets[0].value.id == m.self_name]
                # anything else that writes the attribute (a counter that is advanced, a deletion) makes it a variable, not a constant
                writes = [n for c_ in [fn.cls] + list(ctx.prog.mro(fn.cls)) for m in c_.methods.values() for n in own_nodes(m.node)
                          if isinstance(n, ast.Attribute) and n.attr == e.attr and isinstance(n.ctx, (ast.Store, ast.Del))]
                if len(writes) > len(vals) or len(vals) > 1:
                    return e
                if not vals:
                    # a class-level constant, looked up the way Python does: the first class of the MRO that defines it
                    for c_ in [fn.cls] + [b for b in ctx.prog.mro(fn.cls) if b is not fn.cls]:
                        if e.attr in c_.class_assigns:
                            vals = list(c_.class_assigns[e.attr])
                            break
                    # (no subclass of this class may override it: the method analysed is the one of fn.cls itself)
                if len(vals) == 1:
                    return expand(vals[0], depth + 1)
            return e
        presplit = _presplit_lookup(ctx, fn, consts) if not slices else None
        if presplit is not None and presplit[0] is None:
            ctx.undecided(rid, fn, presplit[1])
            continue
        if presplit is not None:
            sl, width, lo = presplit
            sites += 1
        elif len(slices) != 1:
            ctx.undecided(rid, fn, "recorded-hash slice not found")
            continue
        else:
            sl = slices[0]
            sites += 1
            lo = lin_of(sl.slice.lower, consts, lambda e: expand(e)) if sl.slice.lower is not None else Lin.const(0)
            hi = lin_of(sl.slice.upper, consts, lambda e: expand(e)) if sl.slice.upper is not None else None
            if lo is None or hi is None:
                ctx.undecided(rid, fn, "slice bounds not linear: %s" % norm(sl), sl)
                continue
            width = hi.sub(lo)
        if not width.is_const():
            ctx.undecided(rid, fn, "the width of the recorded hash slice, `%s`, could not be reduced to a number" % (width,), sl)
            continue
        ok_w = width.is_const() and width.c == H
        ctx.decide(rid, fn, ok_w, "recorded hash slice is %d bytes wide = digest size of %s" % (H, algo),
                   "recorded hash slice is %s bytes wide; the computed side is %s (%d bytes): computed and recorded hashes can never be equal / are misaligned" % (width, algo, H), sl)
        # lower bound = counter * H
        counters = [k for k in lo.terms if len(k) == 1]
        ok_lo = lo.c == 0 and len(lo.terms) == 1 and list(lo.terms.values())[0] == H
        ctx.decide(rid, fn, ok_lo, "slice starts at counter * %d" % H, "slice start %s is not (piece counter) * %d" % (lo, H), norm(sl) + " :: start")
        if ok_lo:
            cname = list(lo.terms.keys())[0][0]
            incs = [n for n in own_nodes(fn.node) if isinstance(n, ast.AugAssign) and norm(n.target) == cname]
            ok_inc = len(incs) == 1 and isinstance(incs[0].op, ast.Add) and isinstance(incs[0].value, ast.Constant) and incs[0].value.value == 1 \
                and g.dominates(C.stmt_node(ctx, fn, incs[0]), g.exit) and not C.in_loop(ctx, fn, incs[0])
            ctx.decide(rid, fn, ok_inc, "%s advances by exactly one per produced piece" % cname,
                       "%s does not advance by exactly one on every path through %s: the n-th computed hash is no longer paired with the n-th recorded hash" % (cname, fn.qualname), norm(sl) + " :: counter")
            # slice is taken before the increment
            if incs:
                sn, inn = C.stmt_node(ctx, fn, sl), C.stmt_node(ctx, fn, incs[0])
                # what matters is where the counter is *read*: `start = n * W` computed before `n += 1` may be sliced with later
                low = sl.slice.lower if isinstance(sl.slice, ast.Slice) else sl.slice
                if isinstance(low, ast.Name) and not any(isinstance(x, (ast.Name, ast.Attribute)) and norm(x) == cname for x in ast.walk(low)):
                    defs = [n_ for n_ in own_nodes(fn.node) if isinstance(n_, ast.Assign) and len(n_.targets) == 1 and isinstance(n_.targets[0], ast.Name) and n_.targets[0].id == low.id]
                    if len(defs) == 1 and any(norm(x) == cname for x in ast.walk(defs[0].value) if isinstance(x, (ast.Name, ast.Attribute))):
                        sn = C.stmt_node(ctx, fn, defs[0])
                ctx.decide(rid, fn, sn is not inn and sn not in g.reachable(inn), "the slice is taken before the counter advances",
                           "the counter advances before the slice is taken: every comparison is shifted by one piece", norm(sl) + " :: order")
        # computed side uses the matching hash function
        if algo == "sha1":
            hs = [n for n in own_nodes(fn.node) if isinstance(n, ast.Call) and C.is_ext_call(ctx, n, fn, ("hashlib.sha1", "hashlib.sha256", "hashlib.md5"))]
            names = {d for n in hs for d in C.ext_name(ctx, n, fn)}
            ctx.decide(rid, fn, names == {"hashlib.sha1"}, "computed side is sha1", "computed side uses %s with 20-byte recorded hashes" % sorted(names), "computed hash of " + fn.qualname)
            _computed_from_piece(ctx, rid, fn, g)
    # v2 computed side: the hasher handed to process_current is FileHasher (sha256 layer hashes) or the zero Padder (sha256)
    hc = ctx.prog.cls("torrentfile.recheck:HashChecker")
    nf = hc.methods.get("next_file") or next(iter(hc.methods.values()))
    ak = ctx.res.class_attr_kinds(hc, "hasher", instance=True)
    kinds = {k[1].name for k in ak if k[0] == "inst"}
    other = {k for k in ak if k[0] not in ("inst", "none") }
    if not kinds:
        ctx.undecided(rid, nf, "what the per-file hasher of the v2 checker is bound to could not be resolved", "v2 hasher kinds")
    else:
        ctx.decide(rid, nf, kinds <= {"FileHasher", "Padder"} and "FileHasher" in kinds, "v2 computed side comes from FileHasher / the zero Padder (sha256)",
                   "v2 computed side comes from %s" % sorted(kinds), "v2 hasher kinds")
    pd = ctx.prog.classes.get("torrentfile.recheck:HashChecker.Padder")
    if pd is not None:
        for m in pd.methods.values():
            for n in own_nodes(m.node):
                if isinstance(n, ast.Call) and C.is_ext_call(ctx, n, m, ("hashlib.sha1", "hashlib.md5")):
                    ctx.violated(rid, m, "the zero Padder hashes with %s; v2 piece hashes are sha256" % C.ext_name(ctx, n, m), n)
    ctx.floor("recorded-hash slice sites", 2, sites)


def _computed_from_piece(ctx, rid, fn, g):
    """v1: the hash handed out for a piece is, on every path, the digest of the bytes of THAT piece (what the stream iterator
    produced in this call).  A value taken from elsewhere (a cached digest) is accepted only under a test that establishes
    what the piece holds: identity or equality with the buffer the cached digest was made from."""
    rets = [n for n in own_nodes(fn.node) if isinstance(n, ast.Return) and isinstance(n.value, ast.Tuple) and len(n.value.elts) == 4]
    pieces = [n for n in own_nodes(fn.node) if isinstance(n, ast.Assign) and len(n.targets) == 1 and isinstance(n.targets[0], ast.Name) and isinstance(n.value, ast.Call)
              and norm(n.value.func) == "next"]
    label = "computed hash is of the piece read :: " + fn.qualname
    if len(rets) != 1 or len(pieces) != 1 or not isinstance(rets[0].value.elts[0], ast.Name):
        ctx.undecided(rid, fn, "the result tuple, or the statement that takes the next piece of the stream, was not identified in %s" % fn.qualname, label)
        return
    P = pieces[0].targets[0].id
    H = rets[0].value.elts[0].id
    rdf = ReachDefs(fn, g)
    defs = rdf.reaching(H, C.stmt_node(ctx, fn, rets[0]))
    if not defs:
        ctx.undecided(rid, fn, "no definition of the computed hash %r reaches the result" % H, label)
        return
    cls = fn.cls

    def single_store(attr):
        st = [a for m in cls.methods.values() for a in own_nodes(m.node) if isinstance(a, (ast.Assign, ast.AugAssign))
              and any(norm(t) == "%s.%s" % (m.self_name, attr) for t in (a.targets if isinstance(a, ast.Assign) else [a.target]))]
        return st[0].value if len(st) == 1 and isinstance(st[0], ast.Assign) else None

    def digest_of(v):
        """the expression hashed when v is sha1(E).digest(), else None"""
        if isinstance(v, ast.Call) and isinstance(v.func, ast.Attribute) and v.func.attr == "digest" and isinstance(v.func.value, ast.Call) \
                and C.is_ext_call(ctx, v.func.value, fn, ("hashlib.sha1",)) and len(v.func.value.args) == 1:
            return v.func.value.args[0]
        return None
    for d in defs:
        v = getattr(d, "value", None)
        hashed = digest_of(v) if v is not None else None
        if hashed is not None and isinstance(hashed, ast.Name) and hashed.id == P:
            ctx.holds(rid, fn, "the hash handed out is sha1(%s).digest(), %s being the piece the stream produced in this call" % (P, P), label + " :: " + norm(v)[:40])
            continue
        site = d.stmt if getattr(d, "stmt", None) is not None else rets[0]
        if v is not None and isinstance(v, ast.Attribute) and isinstance(v.value, ast.Name) and v.value.id == fn.self_name and cls is not None:
            src = single_store(v.attr)
            made_from = digest_of(src) if src is not None else None
            deps = [(C.test_expr(b), lab) for b, lab in g.control_deps(d.node) if C.test_expr(b) is not None]
            established = False
            looks = False
            for t, lab in deps:
                for a in C.atoms_of(t):
                    if any(isinstance(x, ast.Name) and x.id == P for x in ast.walk(a)) and not all(
                            isinstance(ctx.prog.parent.get(x), ast.Call) and norm(ctx.prog.parent.get(x).func) == "len" for x in ast.walk(a) if isinstance(x, ast.Name) and x.id == P):
                        looks = True
                    if isinstance(a, ast.Compare) and len(a.ops) == 1 and isinstance(a.ops[0], (ast.Is, ast.Eq)) and lab == "true" and isinstance(t, (ast.Compare,)) or \
                            (isinstance(a, ast.Compare) and len(a.ops) == 1 and isinstance(a.ops[0], (ast.Is, ast.Eq)) and lab == "true" and isinstance(t, ast.BoolOp) and isinstance(t.op, ast.And)):
                        sides = [a.left, a.comparators[0]]
                        if any(isinstance(x, ast.Name) and x.id == P for x in sides) and made_from is not None and any(norm(x) == norm(made_from) for x in sides) \
                                and isinstance(made_from, ast.Attribute) and single_store(made_from.attr) is not None:
                            established = True
            if established:
                ctx.holds(rid, fn, "the cached digest %s is handed out only when the piece IS the buffer it was computed from (%s)" % (norm(v), norm(made_from)), label + " :: " + norm(v)[:40])
            elif not looks:
                ctx.violated(rid, fn, "the hash handed out for a piece is `%s` under `%s`: a stored value chosen without looking at what the piece holds (the tests speak of flags and of its length only) - "
                             "a piece of real data of that length is reported with the hash of something else, so intact pieces fail and the percentage is wrong" % (
                                 norm(v), " and ".join(("" if lab == "true" else "not ") + "(" + norm(t)[:60] + ")" for t, lab in deps) or "no condition"), site)
            else:
                ctx.undecided(rid, fn, "the hash handed out for a piece is the stored value `%s` under a test of the piece this rule does not evaluate" % norm(v), label + " :: " + norm(v)[:40])
        else:
            ctx.undecided(rid, fn, "the computed hash %r is defined as `%s`, which is not the sha1 digest of the piece %r read in this call; what it is was not followed" % (H, norm(v)[:60] if v is not None else "?", P),
                          label + " :: other")


# ------------------------------------------------------------------------------------------ R6 size accounting
def size_accounting(ctx, rid):
    consts = module_consts(ctx.prog.modules["torrentfile.recheck"])
    # v1: the size reported is len() of exactly the bytes hashed
    fn = ctx.prog.func("torrentfile.recheck:FeedChecker.__next__")
    rets = [n for n in own_nodes(fn.node) if isinstance(n, ast.Return) and isinstance(n.value, ast.Tuple) and len(n.value.elts) == 4]
    hashed = [n for n in own_nodes(fn.node) if isinstance(n, ast.Call) and C.is_ext_call(ctx, n, fn, ("hashlib.sha1",)) and n.args]
    if not rets or not hashed:
        ctx.undecided(rid, fn, "v1 result tuple / hash call not found")
    else:
        arg = norm(hashed[0].args[0])
        for r in rets:
            s = r.value.elts[3]
            ok = isinstance(s, ast.Call) and isinstance(s.func, ast.Name) and s.func.id == "len" and norm(s.args[0]) == arg
            ctx.decide(rid, fn, ok, "v1: reported size is len(%s), the bytes that were hashed" % arg,
                       "v1: reported size is %s, not the length of the hashed bytes %s: the percentage weights pieces wrongly" % (norm(s), arg), r)
    # v2: advance(): size = min(remaining, piece_length), remaining -= size
    fn = ctx.prog.func("torrentfile.recheck:HashChecker.advance")
    ifs = [n for n in fn.node.body if isinstance(n, ast.If)]
    rem = None
    done = False
    rets0 = [n for n in own_nodes(fn.node) if isinstance(n, ast.Return) and isinstance(n.value, ast.Tuple) and len(n.value.elts) == 2 and isinstance(n.value.elts[1], ast.Name)]
    SIZE = rets0[0].value.elts[1].id if rets0 else "size"
    for st in ifs:
        t = st.test
        if not (isinstance(t, ast.Compare) and len(t.ops) == 1):
            continue
        l, r = norm(t.left), norm(t.comparators[0])
        if "length" not in l and "length" not in r:
            continue
        done = True
        # orientation: which branch has remaining >= piece_length
        if "piece_length" in r and isinstance(t.ops[0], (ast.GtE, ast.Gt)):
            big, small, rem, pl, strict = st.body, st.orelse, l, r, isinstance(t.ops[0], ast.Gt)
        elif "piece_length" in r and isinstance(t.ops[0], (ast.Lt, ast.LtE)):
            big, small, rem, pl, strict = st.orelse, st.body, l, r, isinstance(t.ops[0], ast.LtE)
        elif "piece_length" in l and isinstance(t.ops[0], (ast.LtE, ast.Lt)):
            big, small, rem, pl, strict = st.body, st.orelse, r, l, isinstance(t.ops[0], ast.Lt)
        else:
            ctx.undecided(rid, fn, "size test not understood: %s" % norm(t), t)
            continue
        for label, body, want in (("remaining >= piece length", big, pl), ("remaining < piece length", small, rem)):
            size_v = dec_v = None
            order_bad = False
            seen_dec = False
            for s in body:
                if isinstance(s, ast.Assign) and any(isinstance(x, ast.Name) and x.id == SIZE for x in s.targets):
                    size_v = norm(s.value)
                    if seen_dec and rem in size_v:
                        order_bad = True
                if isinstance(s, ast.AugAssign) and norm(s.target) == rem and isinstance(s.op, ast.Sub):
                    dec_v = norm(s.value)
                    seen_dec = True
            ok = size_v == want and dec_v == want and not order_bad
            ctx.decide(rid, fn, ok, "v2 [%s]: size = %s and the remaining length decreases by the same amount" % (label, want),
                       "v2 [%s]: size = %s, remaining decreases by %s%s; must both be %s - the bytes attributed to pieces no longer add up to the file length" % (
                           label, size_v, dec_v, " (size read after the decrement)" if order_bad else "", want), "advance :: " + label)
    if not done:
        # the closed form:  size = min(remaining, piece_length);  remaining -= size
        mins = [n for n in fn.node.body if isinstance(n, ast.Assign) and len(n.targets) == 1 and isinstance(n.targets[0], ast.Name) and n.targets[0].id == SIZE
                and isinstance(n.value, ast.Call) and isinstance(n.value.func, ast.Name) and n.value.func.id == "min" and len(n.value.args) == 2 and not n.value.keywords]
        if len(mins) == 1:
            a0, a1 = norm(mins[0].value.args[0]), norm(mins[0].value.args[1])
            rem_txt = a0 if "piece_length" in a1 else a1 if "piece_length" in a0 else None
            pl_txt = a1 if rem_txt == a0 else a0
            decs = [n for n in fn.node.body if isinstance(n, ast.AugAssign) and isinstance(n.op, ast.Sub) and rem_txt is not None and norm(n.target) == rem_txt]
            other_defs = [n for n in own_nodes(fn.node) if n is not mins[0] and isinstance(n, ast.Name) and n.id == SIZE and isinstance(n.ctx, ast.Store) and n is not mins[0].targets[0]]
            if rem_txt is not None and "length" in rem_txt and "piece_length" not in rem_txt and pl_txt.endswith("piece_length") and not other_defs:
                done = True
                after = len(decs) == 1 and fn.node.body.index(decs[0]) > fn.node.body.index(mins[0])
                ok = after and norm(decs[0].value) == SIZE
                ctx.decide(rid, fn, ok, "v2: size = min(remaining, piece length) and the remaining length decreases by that size",
                           "v2: size = min(%s, %s) but the remaining length %s: the bytes attributed to pieces no longer add up to the file length" % (
                               rem_txt, pl_txt, ("decreases by %s" % norm(decs[0].value)) if len(decs) == 1 else "is not decreased exactly once"), "advance :: min form")
    if not done:
        ctx.undecided(rid, fn, "size accounting of HashChecker.advance not found")
    rets = [n for n in own_nodes(fn.node) if isinstance(n, ast.Return) and isinstance(n.value, ast.Tuple) and len(n.value.elts) == 2]
    ok = bool(rets) and all(norm(r.value.elts[1]) == SIZE for r in rets)
    helped = [r for r in rets if isinstance(r.value.elts[1], ast.Call) and C.targets_of(ctx, fn, r.value.elts[1])]
    if not ok and helped:
        ctx.undecided(rid, fn, "advance() returns `%s` as the size: computed by a helper that was not followed" % norm(helped[0].value.elts[1]), "advance :: return")
    else:
        ctx.decide(rid, fn, ok, "advance() returns the computed size", "advance() does not return the computed size", "advance :: return")
    # the size yielded by process_current is the one advance() returned
    pc = ctx.prog.func("torrentfile.recheck:HashChecker.process_current")
    for r in [n for n in own_nodes(pc.node) if isinstance(n, ast.Return) and isinstance(n.value, ast.Tuple) and len(n.value.elts) == 4]:
        s = r.value.elts[3]
        src = [p for w, p in ctx.res.bindings(pc).get(s.id, []) if w == "unpack"] if isinstance(s, ast.Name) else []
        ok = bool(src) and all(isinstance(v[0], ast.Call) and norm(v[0].func).endswith("advance") and v[1] == 1 for v in src)
        ctx.decide(rid, pc, ok, "v2: reported size is the size advance() attributed to this piece", "v2: reported size %s does not come from advance()" % norm(s), r)


# ------------------------------------------------------------------------------------------ R7-R9 path mapping (C05)
def _mentions(ctx, fn, e, name, depth=0):
    """Expression e (through single-definition locals) refers to local `name`."""
    for x in ast.walk(e):
        if isinstance(x, ast.Name):
            if x.id == name:
                return True
            if depth < 2:
                vals = [p_ for w_, p_ in ctx.res.bindings(fn).get(x.id, []) if w_ == "value"]
                if len(vals) == 1 and _mentions(ctx, fn, vals[0], name, depth + 1):
                    return True
    return False


def _world_atom(ctx, fn, world, depth=0):
    """atom function for eval3: `world(expr)` decides the leaves it knows; a local with a single definition stands for it."""
    def atom(x):
        v = world(x)
        if v is not None:
            return v
        if isinstance(x, ast.Name) and depth < 3:
            vals = [p_ for w_, p_ in ctx.res.bindings(fn).get(x.id, [])]
            kinds = [w_ for w_, p_ in ctx.res.bindings(fn).get(x.id, [])]
            if len(vals) == 1 and kinds == ["value"]:
                return C.eval3(vals[0], _world_atom(ctx, fn, world, depth + 1))
        return None
    return atom


def find_root_rules(ctx, rid):
    """C05: the content path may be the payload root or its parent.  find_root returns the given path only when its name is
    the torrent's name, `<path>/<name>` only when that entry exists - and, for a metafile that describes a single file, never
    a directory (a parent directory that happens to carry the file's name is the parent, not the payload)."""
    fr = ctx.prog.func("torrentfile.recheck:Checker.find_root")
    g = C.cfg_of(fr)
    params = [p for p in fr.params if p != fr.self_name]
    rets = [n for n in own_nodes(fr.node) if isinstance(n, ast.Return) and n.value is not None]

    def given(e, depth=0):
        """e is the given path (the parameter, or a local bound once to Path(param) / str(param) / the parameter)."""
        if isinstance(e, ast.Name):
            if e.id in params:
                return True
            bl = ctx.res.bindings(fr).get(e.id, [])
            if len(bl) == 1 and bl[0][0] == "value" and depth < 3:
                v = bl[0][1]
                if isinstance(v, ast.Call) and len(v.args) == 1 and not v.keywords and norm(v.func) in ("Path", "pathlib.Path", "str", "os.fspath", "os.path.normpath", "os.path.abspath"):
                    return given(v.args[0], depth + 1)
                return given(v, depth + 1)
        return False

    def is_name(e):
        return isinstance(e, ast.Attribute) and e.attr == "name" and isinstance(e.value, ast.Name) and e.value.id == fr.self_name

    def name_matches(x):
        """<given>.name == self.name / os.path.basename(<given>) == self.name"""
        if isinstance(x, ast.Compare) and len(x.ops) == 1 and isinstance(x.ops[0], (ast.Eq, ast.NotEq)):
            for a, b in ((x.left, x.comparators[0]), (x.comparators[0], x.left)):
                base = (isinstance(a, ast.Attribute) and a.attr == "name" and given(a.value)) or \
                       (isinstance(a, ast.Call) and norm(a.func) == "os.path.basename" and a.args and given(a.args[0]))
                if base and is_name(b):
                    return isinstance(x.ops[0], ast.Eq)
        return None

    def listed(x):
        """self.name in os.listdir(<given>) / (<given> / self.name).exists() / os.path.exists(join(<given>, self.name))"""
        if isinstance(x, ast.Compare) and len(x.ops) == 1 and isinstance(x.ops[0], (ast.In, ast.NotIn)) and is_name(x.left):
            c = x.comparators[0]
            if isinstance(c, ast.Call) and ((norm(c.func) == "os.listdir" and c.args and given(c.args[0])) or
                                            (isinstance(c.func, ast.Attribute) and c.func.attr == "iterdir" and given(c.func.value))):
                return isinstance(x.ops[0], ast.In)
        if isinstance(x, ast.Call) and isinstance(x.func, ast.Attribute) and x.func.attr in ("exists", "is_file", "is_dir") and child(x.func.value):
            return True
        if isinstance(x, ast.Call) and norm(x.func) in ("os.path.exists", "os.path.lexists") and x.args and child(x.args[0]):
            return True
        return None

    def child(e, depth=0):
        """<given> / self.name  or  os.path.join(<given>, self.name) (possibly through a local)"""
        if isinstance(e, ast.BinOp) and isinstance(e.op, ast.Div) and given(e.left) and is_name(e.right):
            return True
        if isinstance(e, ast.Call) and norm(e.func) == "os.path.join" and len(e.args) == 2 and given(e.args[0]) and is_name(e.args[1]):
            return True
        if isinstance(e, ast.Name) and depth < 2:
            bl = ctx.res.bindings(fr).get(e.id, [])
            if len(bl) == 1 and bl[0][0] == "value":
                return child(bl[0][1], depth + 1)
        return False

    def blocked(node, world):
        return node not in C.reach_under(g, g.entry, _world_atom(ctx, fr, world))

    kinds = []
    for r in rets:
        rn = C.stmt_node(ctx, fr, r)
        if given(r.value):
            kinds.append("root")
            # (1) only on a name match
            ok = blocked(rn, lambda x: (not name_matches(x)) if name_matches(x) is not None else None)
            ctx.decide(rid, fr, ok, "the given path is accepted as the payload root only when its name is the torrent's name",
                       "find_root returns the given path although its name was not compared with the torrent's name: any directory is taken for the payload root", r)
            # (2) a single-file torrent's payload is never a directory
            def single_dir(x):
                if isinstance(x, ast.Compare) and len(x.ops) == 1 and isinstance(x.ops[0], (ast.In, ast.NotIn)) and const_str(x.left) == "length":
                    return isinstance(x.ops[0], ast.In)
                if isinstance(x, ast.Call) and isinstance(x.func, ast.Attribute) and x.func.attr in ("is_dir", "is_file") and given(x.func.value):
                    return x.func.attr == "is_dir"
                if isinstance(x, ast.Call) and norm(x.func) in ("os.path.isdir", "os.path.isfile") and x.args and given(x.args[0]):
                    return norm(x.func).endswith("isdir")
                v = name_matches(x)
                if v is not None:
                    return v
                return None
            def kind_test(e, depth=0):
                for x in ast.walk(e):
                    if isinstance(x, ast.Call) and ((isinstance(x.func, ast.Attribute) and x.func.attr in ("is_dir", "is_file")) or norm(x.func) in ("os.path.isdir", "os.path.isfile")):
                        return True
                    if isinstance(x, ast.Name) and depth < 3:
                        if any(w_ == "value" and kind_test(p_, depth + 1) for w_, p_ in ctx.res.bindings(fr).get(x.id, [])):
                            return True
                return False
            # some test of the function asks whether the given path is a file or a directory
            knows_kind = any(kind_test(C.test_expr(n_)) for n_ in g.live_nodes() if n_.kind == "test" and C.test_expr(n_) is not None)
            ok2 = blocked(rn, single_dir)
            if ok2:
                ctx.holds(rid, fr, "for a metafile that describes a single file a directory is never taken for the payload (the file is looked for inside it)", norm(r) + " :: single file")
            elif not knows_kind:
                ctx.violated(rid, fr, "find_root returns the given path on a name match without looking at what it is: a single-file torrent rechecked against its parent directory, when that "
                             "directory carries the file's name, takes the directory for the payload (IsADirectoryError instead of 100%)", norm(r) + " :: single file")
            else:
                ctx.undecided(rid, fr, "whether a directory can be returned as the payload of a single-file torrent could not be decided", norm(r) + " :: single file")
        elif child(r.value):
            kinds.append("parent")
            ok = blocked(rn, lambda x: (not listed(x)) if listed(x) is not None else None)
            ctx.decide(rid, fr, ok, "<path>/<name> is returned only when that entry exists in the given directory",
                       "find_root returns <path>/<name> without having found the name in the given directory", r)

            # a directory torrent given by its own root: the root wins, even if it holds an entry named like the torrent
            def dir_torrent_root(x):
                if isinstance(x, ast.Compare) and len(x.ops) == 1 and isinstance(x.ops[0], (ast.In, ast.NotIn)) and const_str(x.left) == "length":
                    return isinstance(x.ops[0], ast.NotIn)
                return name_matches(x)
            ok3 = blocked(rn, dir_torrent_root)
            ctx.decide(rid, fr, ok3, "a directory torrent given by its own root is not entered a second time when it contains an entry named like the torrent",
                       "a directory torrent whose root directory contains an entry with the torrent's own name: given the root itself, find_root descends into that entry and every file is "
                       "looked up one level too deep (an intact payload rechecks at 0%)", norm(r) + " :: own root")
        else:
            kinds.append("other")
            ctx.undecided(rid, fr, "find_root returns `%s`, which is neither the given path nor <path>/<name>" % norm(r.value), r)
    if "root" not in kinds or "parent" not in kinds:
        (ctx.undecided if "other" in kinds else ctx.violated)(rid, fr, "find_root returns %s: the content path given as root or as parent is no longer mapped to the same payload root" % (kinds or "nothing"), "find_root returns")
    else:
        ctx.holds(rid, fr, "find_root accepts the payload root itself and its parent directory (root / name)", "find_root returns")


def v2_single_file_layout(ctx, rid, ck, walkers):
    """BEP 52: the info dictionary of a pure v2 metafile has no `length`; a single file is described by the file tree
    {name: {'': {...}}}.  Whoever decides between 'the payload root is the file' and 'walk the tree below the payload root'
    must look at the tree (its keys against the torrent name), not only at info.length - otherwise a single-file v2 metafile
    written by any other conformant encoder is looked up at <file>/<name>."""
    sites = []
    for m in ck.methods.values():
        for n in own_nodes(m.node):
            if isinstance(n, ast.Call) and m not in walkers and any(t in walkers for t in C.targets_of(ctx, m, n)):
                sites.append((m, n))
    if not sites:
        if walkers:
            ctx.undecided(rid, None, "no call that starts the walk over the v2 file tree found outside the walker", "v2 single-file layout")
        return

    def expand(fn, e, seen, depth=0):
        """AST nodes the value of e may be computed from (through the definitions of locals)."""
        out = []
        for x in ast.walk(e):
            out.append(x)
            if isinstance(x, ast.Name) and depth < 4 and (x.id, depth) not in seen:
                seen.add((x.id, depth))
                for w_, p_ in ctx.res.bindings(fn).get(x.id, []):
                    if w_ == "value":
                        out += expand(fn, p_, seen, depth + 1)
                        # what decided that this definition runs is part of what the value says
                        dn = C.stmt_node(ctx, fn, p_)
                        if dn is not None:
                            for b, _ in C.cfg_of(fn).control_deps(dn, normal_only=True):
                                if C.test_expr(b) is not None:
                                    out += expand(fn, C.test_expr(b), seen, depth + 1)
        return out

    for m, call in sites:
        g = C.cfg_of(m)
        cn = C.stmt_node(ctx, m, call)
        tests = [C.test_expr(b) for b, _ in g.control_deps(cn, normal_only=True) if C.test_expr(b) is not None]
        nodes = [x for t in tests for x in expand(m, t, set())]
        reads_tree = any(isinstance(x, ast.Subscript) and const_str(x.slice) == "file tree" for x in nodes)
        reads_name = any(isinstance(x, ast.Attribute) and x.attr == "name" and isinstance(x.value, ast.Name) and x.value.id == m.self_name for x in nodes)
        reads_len = any(isinstance(x, ast.Constant) and x.value == "length" for x in nodes)
        if reads_tree and reads_name:
            ctx.holds(rid, m, "the directory walk of the v2 file tree is chosen after comparing the tree's keys with the torrent name: the single-file layout {name: leaf} is recognised without info.length", call)
        elif reads_len and not reads_tree:
            ctx.violated(rid, m, "single file or directory is decided by `length` in info alone (%s): a pure v2 metafile has no info.length (BEP 52), so a single-file v2 metafile from another "
                         "conformant encoder is walked as a directory and its file is looked up at <file>/<name> - an intact payload rechecks at 0%%" % "; ".join(norm(t) for t in tests), call)
        else:
            ctx.undecided(rid, m, "how the single-file layout of a v2 file tree is told from a directory (tests: %s) is not understood" % "; ".join(norm(t) for t in tests), call)


def path_mapping(ctx, rid):
    find_root_rules(ctx, rid)
    cp = ctx.prog.func("torrentfile.recheck:Checker.check_paths")
    # v1: one path per files entry, in order
    loops = [n for n in own_nodes(cp.node) if isinstance(n, ast.For)]
    v1 = [l for l in loops if "files" in norm(l.iter)]
    if len(v1) != 1:
        ctx.undecided(rid, cp, "v1 file loop not found in check_paths")
    else:
        l = v1[0]
        gl = C.cfg_of(cp)
        head = gl.of[l]
        bs = C.succ_by_label(head, "iter")[0]
        # methods of the checker that record a path (append to self.paths, directly or through one another)
        rec_v1 = set()
        grown = True
        while grown:
            grown = False
            for m_ in cp.cls.methods.values():
                if m_ in rec_v1 or m_ is cp:
                    continue
                for n_ in own_nodes(m_.node):
                    if isinstance(n_, ast.Call) and ((isinstance(n_.func, ast.Attribute) and n_.func.attr == "append" and "paths" in norm(n_.func.value))
                                                     or any(t in rec_v1 for t in C.targets_of(ctx, m_, n_))):
                        gm = C.cfg_of(m_)
                        if gm.dominates(C.stmt_node(ctx, m_, n_), gm.exit):       # records on every call
                            rec_v1.add(m_)
                            grown = True
                            break
        appends = {gl.of[ctx.prog.enclosing_stmt(n)] for n in ast.walk(l) if isinstance(n, ast.Call) and (
            (isinstance(n.func, ast.Attribute) and n.func.attr == "append" and "paths" in norm(n.func.value)) or any(t in rec_v1 for t in C.targets_of(ctx, cp, n)))}
        skip = [x for st in l.body for x in ast.walk(st) if isinstance(x, (ast.Continue, ast.Break))]
        plain = norm(l.iter) in ("enumerate(self.info['files'])", "self.info['files']") or not any(isinstance(x, ast.Call) and isinstance(x.func, ast.Name) and x.func.id in ("sorted", "reversed", "filter", "set") for x in ast.walk(l.iter))
        ok = bool(appends) and gl.must_pass(bs, head, appends) and not skip and plain and not any(isinstance(x, ast.Slice) for x in ast.walk(l.iter))
        ctx.decide(rid, cp, ok, "v1: every entry of info.files (padding entries included) yields one path, in list order",
                   "v1: not every entry of info.files is mapped to a path in list order: the byte stream no longer lines up with the piece string", l.iter)
        joins = [n for n in ast.walk(l) if isinstance(n, ast.Call) and "join" in norm(n.func) and any(isinstance(a, ast.Starred) and "path" in norm(a) for a in n.args)]
        ctx.decide(rid, cp, bool(joins), "v1: the path is root joined with exactly the entry's path components", "v1: the entry's path components are not joined verbatim", "v1 join")
        # files list only consulted for v1
        ln = gl.of[l]
        deps = gl.control_deps(ln)
        def not_v1(x):
            """the metafile has a file tree (meta version 2 or hybrid)"""
            if isinstance(x, ast.Compare) and len(x.ops) == 1 and norm(x.left).endswith("meta_version") and isinstance(x.comparators[0], ast.Constant) and x.comparators[0].value == 1:
                return {ast.Eq: False, ast.NotEq: True, ast.Gt: True, ast.LtE: False, ast.GtE: True, ast.Lt: False}.get(type(x.ops[0]))
            if isinstance(x, ast.Compare) and len(x.ops) == 1 and norm(x.left).endswith("meta_version") and isinstance(x.comparators[0], ast.Constant) and x.comparators[0].value == 2:
                return {ast.GtE: True, ast.Lt: False}.get(type(x.ops[0]))
            if isinstance(x, ast.Compare) and len(x.ops) == 1 and isinstance(x.ops[0], (ast.In, ast.NotIn)) and const_str(x.left) in ("length",):
                return isinstance(x.ops[0], ast.NotIn)      # directory torrents: no info.length
            return None
        # the loop over info.files is out of reach for a metafile that has a file tree, however the dispatch is written
        guarded = ln not in C.reach_under(gl, gl.entry, _world_atom(ctx, cp, not_v1))
        ctx.decide(rid, cp, guarded, "info.files is consulted only for v1 metafiles: a hybrid is checked through its file tree, so a missing trailing padding entry cannot matter",
                   "info.files is consulted for hybrid metafiles as well", "files only for v1")
    # ---- v2 / hybrid: every entry of the file tree is recorded or descended into (wherever the walk is implemented)
    ck = ctx.prog.cls("torrentfile.recheck:Checker")
    recorders = set()
    changed = True
    while changed:
        changed = False
        for m in ck.methods.values():
            if m in recorders:
                continue
            for n in own_nodes(m.node):
                if isinstance(n, ast.Call) and ((isinstance(n.func, ast.Attribute) and n.func.attr == "append" and "paths" in norm(n.func.value))
                                                or any(t in recorders for t in C.targets_of(ctx, m, n))):
                    recorders.add(m)
                    changed = True
                    break
    walkers = []
    # the walk may be a method of Checker or a module-level function of the recheck module (a leaf generator it calls)
    for m in list(ck.methods.values()) + [f_ for f_ in ctx.prog.functions.values() if f_.module is ck.module and f_.cls is None and "<locals>" not in f_.qualname]:
        params = [p_ for p_ in m.params if p_ != m.self_name]
        for l in [n for n in own_nodes(m.node) if isinstance(n, ast.For)]:
            it = l.iter
            if isinstance(it, ast.Call) and isinstance(it.func, ast.Attribute) and it.func.attr == "items" and isinstance(it.func.value, ast.Name) and it.func.value.id in params \
                    and any(isinstance(x, ast.Constant) and x.value == "" for x in ast.walk(l)):
                walkers.append((m, l))
    if not walkers:
        ctx.undecided(rid, None, "the walk over the v2 file tree (a loop over <tree>.items() testing for the '' leaf key) was not found in Checker")
    for wf, l in walkers:
        gw = C.cfg_of(wf)
        head = gw.of[l]
        bs = C.succ_by_label(head, "iter")[0]
        marks = set()
        rec = []
        for n in ast.walk(l):
            if isinstance(n, ast.Call):
                tg = C.targets_of(ctx, wf, n)
                if (isinstance(n.func, ast.Attribute) and n.func.attr == "append" and "paths" in norm(n.func.value)) or any(t in recorders and t is not wf for t in tg):
                    marks.add(gw.of[ctx.prog.enclosing_stmt(n)])
                if any(t is wf for t in tg):
                    marks.add(gw.of[ctx.prog.enclosing_stmt(n)])
                    rec.append(n)
            if isinstance(n, (ast.Yield, ast.YieldFrom)):
                marks.add(gw.of[ctx.prog.enclosing_stmt(n)])
        skip = [x for st in l.body for x in ast.walk(st) if isinstance(x, (ast.Continue, ast.Break, ast.Return))]
        ok = bool(marks) and gw.must_pass(bs, head, marks) and not skip
        ctx.decide(rid, wf, ok, "v2/hybrid: every file-tree entry is recorded as a leaf or descended into", "v2/hybrid: a file-tree entry can be skipped", l.iter)
        key = l.target.elts[0].id if isinstance(l.target, ast.Tuple) and isinstance(l.target.elts[0], ast.Name) else None
        pparam = [p_ for p_ in wf.params if p_ != wf.self_name][-1]

        def extends(e, depth=0):
            """e == <accumulated path> + [key]  (directly or through one local)"""
            if isinstance(e, ast.BinOp) and isinstance(e.op, ast.Add):
                return pparam in norm(e.left) and key is not None and isinstance(e.right, ast.List) and len(e.right.elts) == 1 and norm(e.right.elts[0]) == key
            if isinstance(e, ast.Name) and depth < 2:
                vals = [p_ for w_, p_ in ctx.res.bindings(wf).get(e.id, []) if w_ == "value"]
                return len(vals) == 1 and extends(vals[0], depth + 1)
            return False
        if not rec:
            ctx.undecided(rid, wf, "no recursive descent found in the file-tree walk", "tree descent")
        else:
            oks = [len(c.args) == 2 and extends(c.args[1]) for c in rec]
            if all(oks):
                ctx.holds(rid, wf, "descent extends the accumulated path by the directory key", "tree descent")
            elif any(len(c.args) == 2 and (norm(c.args[1]) == pparam or not _mentions(ctx, wf, c.args[1], pparam)) for c in rec):
                ctx.violated(rid, wf, "descent does not extend the accumulated path by the directory key", "tree descent")
            else:
                ctx.undecided(rid, wf, "how the descent extends the accumulated path (`%s`) is not understood" % norm(rec[0].args[1] if len(rec[0].args) > 1 else rec[0]), "tree descent")
    v2_single_file_layout(ctx, rid, ck, [w for w, _ in walkers])
    # optional leaf key guarded
    from .c13 import optional_keys
    opt, _ = optional_keys(ctx)
    n = 0
    for f in ctx.prog.functions.values():
        if f.module.name != "torrentfile.recheck":
            continue
        for s in own_nodes(f.node):
            if isinstance(s, ast.Subscript) and isinstance(s.ctx, ast.Load) and const_str(s.slice) in opt and isinstance(s.value, ast.Subscript) and const_str(s.value.slice) == "":
                n += 1
                guarded = False
                p = ctx.prog.parent.get(s)
                child = s
                while p is not None and p is not f.node:
                    if isinstance(p, ast.IfExp) and child is not p.test and any("length" in norm(x) for x in [p.test]):
                        guarded = True
                    if isinstance(p, ast.If) and child is not p.test and ("length" in norm(p.test) or const_str(s.slice) in norm(p.test)):
                        guarded = True
                    child = p
                    p = ctx.prog.parent.get(p)
                single_file = "self.name" in norm(s)
                ctx.decide(rid, f, guarded or single_file, "read of leaf key %r is guarded by the file's length%s" % (const_str(s.slice), " (single-file payloads are non-empty by the quantifier)" if single_file and not guarded else ""),
                           "leaf key %r is read unconditionally; creators omit it for empty files, so an intact torrent containing an empty file cannot be checked" % const_str(s.slice), s)
    ctx.floor("reads of optional leaf keys in the checker", 1, n)
    # piece-layer membership predicate agrees with the creators (strict >)
    nf = ctx.prog.func("torrentfile.recheck:HashChecker.next_file")
    tests = [n for n in own_nodes(nf.node) if isinstance(n, ast.If) and "piece_length" in norm(n.test) and "length" in norm(n.test) and any("piece_layers" in norm(x) for x in ast.walk(n))]
    if len(tests) != 1:
        ctx.undecided(rid, nf, "piece-layer lookup test not found")
    else:
        t = tests[0].test
        strict = isinstance(t, ast.Compare) and ((isinstance(t.ops[0], ast.Gt) and "piece_length" in norm(t.comparators[0])) or (isinstance(t.ops[0], ast.Lt) and "piece_length" in norm(t.left)))
        body_uses_layers = any("piece_layers" in norm(x) for st in tests[0].body for x in ast.walk(st))
        ctx.decide(rid, nf, strict and body_uses_layers, "reader looks a file up in piece layers iff length > piece length (the creators' predicate, strict)",
                   "reader's piece-layer predicate is %s; the creators (and BEP 52) use length > piece length: a file of exactly one piece has no layer entry and raises KeyError / is compared against the wrong hashes" % norm(t), t)


# ------------------------------------------------------------------------------------------ R10 exhaustion guard (v2)
def exhaustion_guard(ctx, rid):
    """When a file's hasher is exhausted early (truncated file), the decision to continue with zero padding must cover every
    recorded piece of the file: it compares the per-file counter with the number of recorded hashes, or a ceiling division."""
    fn = ctx.prog.func("torrentfile.recheck:HashChecker.process_current")
    consts = module_consts(ctx.prog.modules["torrentfile.recheck"])
    handlers = [h for n in own_nodes(fn.node) if isinstance(n, ast.Try) for h in n.handlers if h.type is not None and "StopIteration" in norm(h.type)]
    # the same event without an exception: layer = next(self.hasher, <sentinel>) and a test of the sentinel
    sentinels = [n for n in own_nodes(fn.node) if isinstance(n, ast.Assign) and isinstance(n.value, ast.Call) and isinstance(n.value.func, ast.Name) and n.value.func.id == "next"
                 and len(n.value.args) == 2 and isinstance(n.value.args[1], ast.Constant) and "hasher" in norm(n.value.args[0])]
    if not handlers and not sentinels:
        ctx.undecided(rid, fn, "StopIteration handler of process_current not found")
        return

    class _T:        # a guard under which the stand-in hasher is installed, as the tests of the handler's `if` used to be
        def __init__(self, test):
            self.test = test
    tests = [st for h in handlers for st in h.body if isinstance(st, ast.If)]
    if sentinels and not handlers:
        g = C.cfg_of(fn)
        standins = [n for n in own_nodes(fn.node) if isinstance(n, ast.Assign) and any(isinstance(t, ast.Attribute) and t.attr == "hasher" for t in n.targets)]
        tests = []
        for sn_ in standins:
            for b, lab in g.control_deps(C.stmt_node(ctx, fn, sn_)):
                t = C.test_expr(b)
                if t is not None and not any(isinstance(x, ast.Name) and x.id in {norm(s_.targets[0]) for s_ in sentinels} for x in ast.walk(t)):
                    tests.append(_T(t))
        if not standins:
            tests = []
    if not tests:
        ctx.violated(rid, fn, "when the file on disk ends early nothing stands in for the missing pieces: a truncated file's remaining pieces are never compared", (handlers or sentinels)[0])
        return
    for st in tests:
        atoms = C.atoms_of(st.test)
        judged = False
        for a in atoms:
            if not (isinstance(a, ast.Compare) and len(a.ops) == 1):
                continue
            l, r = a.left, a.comparators[0]
            txt = norm(a)
            if "count" not in txt:
                continue
            judged = True
            other = r if "count" in norm(l) else l
            verdict, why = classify_piece_total(ctx, fn, other, consts)
            if "len(" in txt and "pieces" in txt:
                verdict, why = "ok", "compares the counter with the recorded hash string"
            if verdict == "ok":
                ctx.holds(rid, fn, "early exhaustion is padded while recorded pieces remain (%s)" % why, a)
            elif verdict == "bad":
                ctx.violated(rid, fn, "the number of pieces a truncated file still owes is computed as %s: a final partial piece is not counted, so a file cut exactly at its last full piece boundary checks as complete" % why, a)
            else:
                ctx.undecided(rid, fn, "piece-count bound %s not understood" % norm(other), a)
        if not judged:
            rem = [a for a in atoms if "length" in norm(a)]
            if rem:
                ctx.holds(rid, fn, "early exhaustion is padded while recorded length remains (%s)" % norm(st.test), st.test)
            else:
                ctx.undecided(rid, fn, "guard of the early-exhaustion padding not understood: %s" % norm(st.test), st.test)
    _standin_length_before_bookkeeping(ctx, rid, fn)


def _standin_length_before_bookkeeping(ctx, rid, fn):
    """The stand-in that pads a file that ended early is told how many bytes are still owed.  advance() books one piece and
    lowers that figure; the stand-in produces the hash of THIS piece as well, so the figure it is given must be read before
    advance() runs in the same call (directly, or through a local taken before)."""
    adv = fn.cls.methods.get("advance") if fn.cls is not None else None
    if adv is None:
        return
    lowered = {norm(n.target) for n in own_nodes(adv.node) if isinstance(n, ast.AugAssign) and isinstance(n.op, ast.Sub) and isinstance(n.target, ast.Attribute)
               and isinstance(n.target.value, ast.Name) and n.target.value.id == adv.self_name}
    lowered = {t.replace(adv.self_name + ".", fn.self_name + ".", 1) for t in lowered}
    g = C.cfg_of(fn)
    adv_calls = [C.stmt_node(ctx, fn, n) for n in own_nodes(fn.node) if isinstance(n, ast.Call) and adv in C.targets_of(ctx, fn, n)]
    adv_calls = [a for a in adv_calls if a is not None]
    if not lowered or not adv_calls:
        return
    rdf = ReachDefs(fn, g)
    # advance() itself does not signal exhaustion (no raise, no next() inside): the handler is not entered FROM it, so the
    # exceptional edge out of its call is left out; whatever follows it in the protected block can still lead there
    adv_raises = any(isinstance(n, ast.Raise) or (isinstance(n, ast.Call) and norm(n.func) == "next") for n in own_nodes(adv.node))

    def signals(f_, depth=0):
        for n in own_nodes(f_.node):
            if isinstance(n, ast.Raise) or (isinstance(n, ast.Call) and norm(n.func) == "next" and len(n.args) == 1):
                return True
            if isinstance(n, ast.Call) and depth < 2 and any(signals(t, depth + 1) for t in C.targets_of(ctx, f_, n) if t is not f_):
                return True
        return False

    def can_stop(node):
        """the statement at this node can raise StopIteration: next(it) without default, a raise, a package callee that can"""
        a = getattr(node, "ast", None)
        if a is None:
            return True
        for n in ast.walk(a):
            if isinstance(n, ast.Raise) or (isinstance(n, ast.Call) and norm(n.func) == "next" and len(n.args) == 1):
                return True
            if isinstance(n, ast.Call) and norm(n.func) != "next":
                tg = C.targets_of(ctx, fn, n)
                if any(signals(t) for t in tg):
                    return True
                if not tg and not isinstance(n.func, ast.Attribute) and not C.ext_name(ctx, n, fn):
                    return True         # an unresolved plain call: unknown
        return False

    def after(ac):
        seen, work = set(), [s_ for s_, l_ in ac.succ if adv_raises or l_ != "exc"]
        while work:
            n_ = work.pop()
            if n_ in seen:
                continue
            seen.add(n_)
            stop_ok = can_stop(n_)
            work.extend(s_ for s_, l_ in n_.succ if l_ != "exc" or stop_ok)
        return seen
    after_adv = {ac: after(ac) for ac in adv_calls}
    for st in own_nodes(fn.node):
        if not (isinstance(st, ast.Assign) and any(isinstance(t, ast.Attribute) and t.attr == "hasher" for t in st.targets) and isinstance(st.value, ast.Call)):
            continue
        sn = C.stmt_node(ctx, fn, st)
        if sn is None:
            continue
        for a in list(st.value.args) + [k.value for k in st.value.keywords]:
            reads = []      # (cfg node where a lowered figure is read, text)
            if any(norm(x) in lowered for x in ast.walk(a) if isinstance(x, ast.Attribute)):
                reads.append((sn, norm(a)))
            for x in ast.walk(a):
                if isinstance(x, ast.Name) and x.id != fn.self_name:
                    for d in rdf.reaching(x.id, sn):
                        v = getattr(d, "value", None)
                        if v is not None and any(norm(y) in lowered for y in ast.walk(v) if isinstance(y, ast.Attribute)):
                            reads.append((d.node, "%s = %s" % (x.id, norm(v))))
            for rn, txt in reads:
                late = any(rn in after_adv[ac] for ac in adv_calls) if rn is not None else False
                ctx.decide(rid, fn, not late, "the stand-in is told what is still owed (`%s`) before advance() books the piece" % txt[:60],
                           "the stand-in is given `%s` AFTER advance() has booked this piece and lowered it: it pads one piece less than the file still owes - when exactly one piece is missing "
                           "(a file cut at the boundary before its last piece) nothing is compared for it and the check reports the file complete" % txt[:60], st)


def classify_piece_total(ctx, fn, e, consts, depth=0):
    """'ok' for ceil(length / piece_length) in any spelling or a count derived from the recorded hashes, 'bad' for floor division."""
    txt = norm(e)
    if depth > 4:
        return "?", txt
    if isinstance(e, ast.Attribute) and isinstance(e.value, ast.Name) and e.value.id == fn.self_name:
        vals = []
        for m in (fn.cls.methods.values() if fn.cls else []):
            for n in own_nodes(m.node):
                if isinstance(n, ast.Assign) and any(norm(t) == txt for t in n.targets):
                    vals.append((n.value, m))
        if not vals:
            return "?", txt
        res = [classify_piece_total(ctx, m, v, consts, depth + 1) for v, m in vals]
        if any(r[0] == "bad" for r in res):
            return "bad", "; ".join(r[1] for r in res if r[0] == "bad")
        if all(r[0] == "ok" for r in res):
            return "ok", "; ".join(r[1] for r in res)
        return "?", txt
    if isinstance(e, ast.Constant) and e.value == 1:
        return "ok", "1 (single-piece file)"
    if isinstance(e, ast.Call) and norm(e.func) in ("math.ceil", "ceil"):
        return "ok", txt
    if isinstance(e, ast.BinOp) and isinstance(e.op, ast.FloorDiv):
        l, r = e.left, e.right
        if "len(" in norm(l) and "pieces" in norm(l):
            return "ok", txt
        if isinstance(l, ast.UnaryOp) and isinstance(l.op, ast.USub):
            return "?", txt
        if isinstance(l, ast.BinOp) and isinstance(l.op, (ast.Add, ast.Sub)) and "piece_length" in norm(l) and "1" in norm(l):
            return "ok", txt          # (length + P - 1) // P
        if "length" in norm(l) and "piece_length" in norm(r):
            return "bad", txt
    if isinstance(e, ast.UnaryOp) and isinstance(e.op, ast.USub) and isinstance(e.operand, ast.BinOp) and isinstance(e.operand.op, ast.FloorDiv) \
            and isinstance(e.operand.left, ast.UnaryOp):
        return "ok", txt              # -(-length // P)
    return "?", txt


# ------------------------------------------------------------------------------------------ R11 existing files are read
def existing_files_are_read(ctx, rid):
    """The choice between reading a payload file and the all-zero stand-in depends on its existence only: a file that exists
    (even with the wrong size) is read piece by piece, so its intact pieces still verify."""
    n = 0
    for q in ("torrentfile.recheck:FeedChecker.iter_pieces", "torrentfile.recheck:HashChecker.next_file"):
        fn = ctx.prog.func(q)
        for st in own_nodes(fn.node):
            if not isinstance(st, ast.If):
                continue
            atoms = C.atoms_of(st.test)
            ex = [a for a in atoms if isinstance(a, ast.Call) and (C.is_ext_call(ctx, a, fn, ("os.path.exists", "os.path.isfile")) or (isinstance(a.func, ast.Attribute) and a.func.attr in ("exists", "is_file")))]
            if not ex:
                continue
            n += 1
            extra = [a for a in atoms if a not in ex]

            def holds_bytes(a):
                """`the file holds at least one byte`: getsize(p) > 0 / >= 1 / != 0 / getsize(p) itself, a stat size likewise"""
                def size(e):
                    return (isinstance(e, ast.Call) and (C.is_ext_call(ctx, e, fn, ("os.path.getsize",)) or norm(e.func).endswith("getsize"))) or (isinstance(e, ast.Attribute) and e.attr == "st_size")
                if size(a):
                    return True
                if isinstance(a, ast.Compare) and len(a.ops) == 1 and size(a.left) and isinstance(a.comparators[0], ast.Constant):
                    k, op = a.comparators[0].value, type(a.ops[0])
                    return (k == 0 and op in (ast.Gt, ast.NotEq)) or (k == 1 and op is ast.GtE)
                return False
            if extra and all(holds_bytes(a) for a in extra) and isinstance(st.test, ast.BoolOp) and isinstance(st.test.op, ast.And) and all(v in atoms for v in st.test.values):
                # exists and holds at least one byte: the stand-in replaces absent files and EMPTY ones, which have no piece
                # that could verify - every file with content is still read
                ctx.holds(rid, fn, "reader vs zero stand-in is chosen by existence; an existing file goes to the stand-in only when it is empty (`%s`), when there is nothing to read" % norm(st.test)[:80], st.test)
                continue
            ctx.decide(rid, fn, not extra, "reader vs zero stand-in is chosen by existence alone",
                       "a file that exists is replaced by the all-zero stand-in when `%s` fails: the intact pieces of a truncated or grown file are reported as failed, so the percentage is below the true share" % " / ".join(norm(a) for a in extra), st.test)
    ctx.floor("reader selection tests", 1, n)
