"""C14.5 - every file rebuild writes lands at the path the metafile assigns to it.

The readers of rebuild (Metadata.extract / _parse_tree) turn each metafile entry into a record (a dictionary literal);
the matchers later build the destination from fields of such a record.  Paths are evaluated symbolically as sequences of
*component segments*:

    NAME            info['name']
    PATH*           all components of a v1 entry's 'path' list        PATH[:-1] / PATH[-1]  its parents / its last one
    PARTIALS*       the keys walked so far in the v2 file tree        KEY       the key of the leaf

with  join(a, b) = a ++ b,  Path(x) = x,  x.parent = x without its last component,  PATH[:-1] ++ PATH[-1] = PATH*.
Specification: a v1 multi-file entry goes to NAME ++ PATH*, a single file to NAME, a v2 leaf to PARTIALS* ++ KEY (where
the walk starts with [NAME], or with [''] exactly when the tree is {NAME: leaf}).
"""
import ast

from tfsa.loader import own_nodes, AnalysisError
from tfsa.report import norm
from tfsa.resolve import const_str
from . import common as C


class Unk(Exception):
    pass


def _norm(seq):
    out = []
    for s in seq:
        if s == "EMPTY":
            continue
        if out and out[-1] == "PATH[:-1]" and s == "PATH[-1]":
            out[-1] = "PATH*"
        else:
            out.append(s)
    return tuple(out)


def _drop_last(seq):
    seq = list(_norm(seq))
    if not seq:
        raise Unk("parent of nothing")
    last = seq[-1]
    if last == "PATH*":
        seq[-1] = "PATH[:-1]"
    elif last in ("PATH[-1]", "KEY", "NAME"):
        seq.pop()
    else:
        raise Unk("parent of %s" % last)
    return tuple(seq)


def csf(e, env, self_name):
    if isinstance(e, ast.Name):
        if e.id in env:
            return env[e.id]
        res = env.get("__resolve__")
        if res is not None:
            v = res(e.id)
            if v is not None:
                env2 = dict(env)
                env2["__depth__"] = env.get("__depth__", 0) + 1
                if env2["__depth__"] < 5:
                    return csf(v, env2, self_name)
        raise Unk(e.id)
    if isinstance(e, ast.Constant) and e.value == "":
        return ("EMPTY",)
    if isinstance(e, ast.Attribute):
        if isinstance(e.value, ast.Name) and e.value.id == self_name and e.attr == "name":
            return ("NAME",)
        if e.attr == "parent":
            return _drop_last(csf(e.value, env, self_name))
        if isinstance(e.value, ast.Name) and ("." + e.attr) in env.get(e.value.id + ".", {}):
            return env[e.value.id + "."]["." + e.attr]
        raise Unk(norm(e))
    if isinstance(e, ast.Starred):
        return csf(e.value, env, self_name)
    if isinstance(e, ast.Subscript):
        k = const_str(e.slice)
        if k is not None and isinstance(e.value, ast.Name) and (e.value.id + "[]") in env:
            rec = env[e.value.id + "[]"]
            if k in rec:
                return rec[k]
            raise Unk("field %s" % k)
        base = csf(e.value, env, self_name)
        if base == ("PATH*",):
            if isinstance(e.slice, ast.UnaryOp) and isinstance(e.slice.op, ast.USub) and isinstance(e.slice.operand, ast.Constant) and e.slice.operand.value == 1:
                return ("PATH[-1]",)
            if isinstance(e.slice, ast.Slice) and e.slice.lower is None and e.slice.step is None and isinstance(e.slice.upper, ast.UnaryOp) \
                    and isinstance(e.slice.upper.op, ast.USub) and isinstance(e.slice.upper.operand, ast.Constant) and e.slice.upper.operand.value == 1:
                return ("PATH[:-1]",)
        raise Unk(norm(e))
    if isinstance(e, ast.Call):
        name = norm(e.func)
        if name in ("os.path.join", "Path", "pathlib.Path", "PurePath", "str", "os.fspath", "os.path.normpath") and not e.keywords:
            out = ()
            for a in e.args:
                out += csf(a, env, self_name)
            return _norm(out)
        if name in ("os.path.dirname",) and len(e.args) == 1:
            return _drop_last(csf(e.args[0], env, self_name))
        if name in ("os.path.basename",) and len(e.args) == 1:
            b = _norm(csf(e.args[0], env, self_name))
            if b and b[-1] in ("PATH[-1]", "KEY", "NAME"):
                return (b[-1],)
            if b and b[-1] == "PATH*":
                return ("PATH[-1]",)
        raise Unk(norm(e)[:40])
    if isinstance(e, ast.BinOp) and isinstance(e.op, ast.Div):
        return _norm(csf(e.left, env, self_name) + csf(e.right, env, self_name))
    raise Unk(type(e).__name__)


def _local_env(fn, stmts_before, env, self_name):
    """Evaluate the straight-line local assignments that precede a record literal."""
    for st in stmts_before:
        if isinstance(st, ast.Assign) and len(st.targets) == 1:
            t = st.targets[0]
            if isinstance(t, ast.Name):
                try:
                    env[t.id] = csf(st.value, env, self_name)
                except Unk:
                    env.pop(t.id, None)
            elif isinstance(t, (ast.Tuple, ast.List)) and len(t.elts) == 2 and isinstance(t.elts[0], ast.Starred) and isinstance(t.elts[0].value, ast.Name) and isinstance(t.elts[1], ast.Name):
                try:
                    v = csf(st.value, env, self_name)
                except Unk:
                    continue
                if v == ("PATH*",):
                    env[t.elts[0].value.id] = ("PATH[:-1]",)
                    env[t.elts[1].id] = ("PATH[-1]",)
    return env


def records(ctx):
    """[(kind, function, dict literal, {field: csf | None})] for the record literals of the rebuild readers."""
    out = []
    ex = ctx.prog.func("torrentfile.rebuild:Metadata.extract")
    pt = ctx.prog.func("torrentfile.rebuild:Metadata._parse_tree")
    for fn in (ex, pt):
        for d in [n for n in own_nodes(fn.node) if isinstance(n, ast.Dict) and any(const_str(k) == "length" for k in d_keys(n)) and len(n.keys) >= 3]:
            # kind by position
            env = {}
            kind = None
            loop = None
            p = ctx.prog.parent.get(d)
            while p is not None and p is not fn.node:
                if isinstance(p, ast.For) and loop is None:
                    loop = p
                p = ctx.prog.parent.get(p)
            if fn is pt:
                kind = "v2"
                params = [x for x in fn.params if x != fn.self_name]
                if len(params) >= 2:
                    env[params[1]] = ("PARTIALS*",)
                if loop is not None and isinstance(loop.target, ast.Tuple) and isinstance(loop.target.elts[0], ast.Name):
                    env[loop.target.elts[0].id] = ("KEY",)
            elif loop is not None and any(isinstance(x, ast.Subscript) and const_str(x.slice) == "files" for x in ast.walk(loop.iter)):
                kind = "v1-multi"
                if isinstance(loop.target, ast.Name):
                    env[loop.target.id + "[]"] = {"path": ("PATH*",)}
            else:
                kind = "single"
            # statements of the same block that precede the literal
            st = ctx.prog.enclosing_stmt(d)
            blk = ctx.prog.parent.get(st)
            before = []
            for field in ("body", "orelse"):
                lst = getattr(blk, field, None)
                if isinstance(lst, list) and st in lst:
                    before = lst[:lst.index(st)]
            _local_env(fn, before, env, fn.self_name)
            fields = {}
            for k, v in zip(d.keys, d.values):
                ck = const_str(k) if k is not None else None
                if ck is None:
                    continue
                try:
                    fields[ck] = _norm(csf(v, env, fn.self_name))
                except Unk:
                    fields[ck] = None
            out.append((kind, fn, d, fields))
    return out


def d_keys(d):
    return [k for k in d.keys if k is not None]


SPEC = {"v1-multi": ("NAME", "PATH*"), "single": ("NAME",), "v2": ("PARTIALS*", "KEY")}


def destinations(ctx, rid, copy_sites):
    """copy_sites: [(function, call, destination expression)] as found by the caller (C14.3)."""
    recs = records(ctx)
    if len(recs) < 3:
        ctx.undecided(rid, None, "expected the three record literals of the rebuild readers (single, v1 multi-file, v2 leaf), found %d" % len(recs))
    n = 0
    resolved = []
    for fn, call, dst in copy_sites:
        x = dst
        # strip  _contained(dest, X) / os.path.join(dest, X): the part below the destination root
        for _ in range(3):
            if isinstance(x, ast.Name):
                vals = [p for w, p in ctx.res.bindings(fn).get(x.id, []) if w == "value"]
                if len(vals) == 1:
                    x = vals[0]
                    continue
            break
        if isinstance(x, ast.Call) and len(x.args) == 2 and (norm(x.func) == "os.path.join" or any(t.name == "_contained" for t in C.targets_of(ctx, fn, x))):
            rel = x.args[1]
        else:
            ctx.undecided(rid, fn, "destination `%s` is not of the form <under the destination root>(dest, relative path)" % norm(dst), call)
            continue
        # a helper that receives the relative path as a parameter (place(source, dest, relpath)): judged at its call sites
        work, seen_w = [(fn, call, rel, 0)], set()
        while work:
            f_, c_, r_, d_ = work.pop()
            if isinstance(r_, ast.Name) and r_.id in [p for p in f_.params if p != f_.self_name] and d_ < 3 \
                    and not any(w == "value" for w, _ in ctx.res.bindings(f_).get(r_.id, [])):
                outer = [(cl, cs, bd) for cl, cs, bd in ctx.res.callsites_of(f_) if cl is not None and cl.module.name == "torrentfile.rebuild"]
                if outer and all(r_.id in bd for _, _, bd in outer):
                    for cl, cs, bd in outer:
                        if id(cs) not in seen_w:
                            seen_w.add(id(cs))
                            work.append((cl, cs, bd[r_.id], d_ + 1))
                    continue
            resolved.append((f_, c_, r_))
    for fn, call, rel in resolved:
        # which record does the relative path read?  a local bound to a record (dict) or a node object carrying its fields
        names = {a.id for a in ast.walk(rel) if isinstance(a, ast.Name)}
        for kind, rfn, lit, fields in recs:
            want = SPEC[kind]
            env = {}
            for nm in names:
                env[nm + "[]"] = fields
                env[nm + "."] = {"." + k: v for k, v in fields.items() if v is not None}
                if nm in fn.params or True:
                    pass
            # locals of the copying function are resolved through their single definition
            def resolver(nm, fn=fn):
                vals = [p for w, p in ctx.res.bindings(fn).get(nm, []) if w == "value"]
                return vals[0] if len(vals) == 1 else None
            all_names = {a.id for f_ in [fn] for a in ast.walk(f_.node) if isinstance(a, ast.Name)}
            env2 = {"__resolve__": resolver}
            for nm in all_names:
                env2[nm + "[]"] = fields
                env2[nm + "."] = {"." + k: v for k, v in fields.items() if v is not None}
            n += 1
            label = "%s :: %s record" % (norm(call)[:50], kind)
            try:
                got = _norm(csf(rel, env2, fn.self_name))
            except Unk as exc:
                # the matcher of the other metafile version never sees this record kind
                if kind == "v2" and fn.name.endswith("_find_matches") or kind != "v2" and fn.name.endswith("_match_v2"):
                    n -= 1
                    continue
                ctx.undecided(rid, fn, "relative destination `%s` could not be evaluated for a %s record (%s)" % (norm(rel), kind, exc), label)
                continue
            if (kind == "v2") != fn.name.endswith("_match_v2"):
                n -= 1
                continue
            if got == want:
                ctx.holds(rid, fn, "%s entry is written to <dest>/%s" % (kind, " / ".join(want)), label)
            else:
                ctx.violated(rid, fn, "a %s entry is written to <dest>/%s, the metafile assigns <dest>/%s (`%s` with the fields as defined in %s)" % (
                    kind, " / ".join(got) or ".", " / ".join(want), norm(rel), rfn.qual.split(":")[-1]), label)
    ctx.floor("destination / record-kind pairs evaluated", 3, n)
    single_file_discriminator(ctx, rid)


def single_file_discriminator(ctx, rid):
    """The v2 walk may start without the NAME directory only when the tree is {NAME: leaf}: the test selecting that start must
    compare the tree's key with the torrent name (or rely on info['length']); 'the tree has one entry and it is a file' is also
    true of a directory torrent that holds a single file."""
    ex = ctx.prog.func("torrentfile.rebuild:Metadata.extract")
    g = C.cfg_of(ex)
    calls = [n for n in own_nodes(ex.node) if isinstance(n, ast.Call) and any(t.name == "_parse_tree" for t in C.targets_of(ctx, ex, n)) and len(n.args) >= 2]
    bare = [c for c in calls if isinstance(c.args[1], ast.List) and len(c.args[1].elts) == 1 and const_str(c.args[1].elts[0]) == ""]
    named = [c for c in calls if isinstance(c.args[1], ast.List) and len(c.args[1].elts) == 1 and norm(c.args[1].elts[0]) == "%s.name" % ex.self_name]
    if not named:
        ctx.violated(rid, ex, "no walk of the v2 file tree starts below <dest>/NAME: directory torrents lose their top directory", ex.node)
        return
    for c in bare:
        cn = C.stmt_node(ctx, ex, c)
        tests = [C.test_expr(b) for b, lab in g.control_deps(cn) if C.test_expr(b) is not None and lab == "true"]
        atoms = [a for t in tests for a in C.atoms_of(t)]
        by_name = any(any(isinstance(x, ast.Attribute) and x.attr == "name" and isinstance(x.value, ast.Name) and x.value.id == ex.self_name for x in ast.walk(a)) and
                      any(isinstance(x, ast.Name) for x in ast.walk(a)) for a in atoms)
        by_length = any(isinstance(a, ast.Compare) and const_str(a.left) == "length" and isinstance(a.ops[0], ast.In) for a in atoms)
        ctx.decide(rid, ex, by_name or by_length, "the walk starts without the name directory only when the tree's key is compared with the torrent name (single-file torrent)",
                   "the single-file layout (walk starting at [''] - no NAME directory) is chosen by `%s`, which never compares the tree's key with the torrent name: "
                   "a directory torrent holding exactly one file is written to <dest>/<file> instead of <dest>/NAME/<file>" % " and ".join(norm(t) for t in tests), c)
    for c in named:
        ctx.holds(rid, ex, "directory torrents are walked starting at [NAME]", c, nontrivial=False)
