"""C19 - rebuild never writes outside the destination, whatever the metafile says."""
import ast

from tfsa.flow import Flow, walk_terms, show
from tfsa.loader import own_nodes, AnalysisError
from tfsa.report import norm
from . import common as C

PROP = "C19"
EXPLANATION = (
    "Taint analysis with a mandatory sanitiser. Sources: every value read from the decoded metafile (pyben.load) in "
    "rebuild - name, path elements, file-tree keys. Sinks: the written-path arguments of every file-system-mutating "
    "primitive reachable from commands.rebuild / Assembler / Metadata (effect summaries over the call graph). The "
    "origin term of each sink argument is computed; every occurrence of a metafile-derived value in it must lie inside "
    "the checked argument of a containment sanitiser. A package function is accepted as a sanitiser only if (CFG) each "
    "of its returns is control-dependent on a containment test between two *normalised* paths (realpath / abspath / "
    "resolve; commonpath, is_relative_to, relative_to or startswith(root + os.sep)) whose failing branch raises, and it "
    "returns the normalised joined path that was tested. Hostile names ('..', absolute, separators, deep chains) are "
    "covered because the argument is about every value that can flow, not about sampled strings.")
RULE_TEXT = "one obligation per sanitiser definition and one per (sink site x written argument); non-trivial = decided through origin terms / CFG control dependence"

ENTRY_FUNCS = ["torrentfile.commands:rebuild"]
ENTRY_CLASSES = ["torrentfile.rebuild:Assembler", "torrentfile.rebuild:Metadata", "torrentfile.rebuild:PieceNode", "torrentfile.rebuild:PathNode"]
NORMALISERS = {"os.path.realpath", "os.path.abspath"}


def _normalised(ctx, fn, expr, flow, depth=0):
    """expr is (a local holding) realpath/abspath/resolve(...)."""
    if isinstance(expr, ast.Call):
        if C.is_ext_call(ctx, expr, fn, NORMALISERS):
            return True
        if isinstance(expr.func, ast.Attribute) and expr.func.attr in ("resolve", "absolute"):
            return True
        if C.is_ext_call(ctx, expr, fn, ("builtins.str", "os.fspath")) and expr.args:
            return _normalised(ctx, fn, expr.args[0], flow, depth + 1)
    if isinstance(expr, ast.Name) and depth < 4:
        vals = [p for w, p in ctx.res.bindings(fn).get(expr.id, []) if w == "value"]
        others = [w for w, p in ctx.res.bindings(fn).get(expr.id, []) if w != "value"]
        return bool(vals) and not others and all(_normalised(ctx, fn, v, flow, depth + 1) for v in vals)
    if isinstance(expr, ast.Attribute) and flow is not None:
        # an attribute / property of the receiver: every value it can hold is the result of a normaliser (None, the
        # not-yet-computed state of a cached value, cannot pass a containment comparison)
        t = [x for x in flow.term(expr, fn) if x != ("const", None)]
        return bool(t) and all(x[0] == "ext" and x[1] in NORMALISERS for x in t)
    return False


def containment_test(ctx, fn, test, flow):
    """If `test` is a containment comparison: returns (root expr, full expr, value-when-contained) else None.

    value-when-contained: the truth value of the test when `full` lies inside `root`.
    """
    for a in C.atoms_of(test):
        if isinstance(a, ast.Compare) and len(a.ops) == 1:
            l, op, r = a.left, a.ops[0], a.comparators[0]
            for x, y in ((l, r), (r, l)):
                if isinstance(x, ast.Call) and C.is_ext_call(ctx, x, fn, ("os.path.commonpath",)) and x.args and isinstance(x.args[0], (ast.List, ast.Tuple)) \
                        and len(x.args[0].elts) == 2:
                    e1, e2 = x.args[0].elts
                    for root, full in ((e1, e2), (e2, e1)):
                        if norm(root) == norm(y):
                            if isinstance(op, (ast.Eq, ast.NotEq)):
                                return (root, full, isinstance(op, ast.Eq), a)
        if isinstance(a, ast.Call) and isinstance(a.func, ast.Attribute):
            if a.func.attr == "is_relative_to" and a.args:
                return (a.args[0], a.func.value, True, a)
            if a.func.attr == "startswith" and a.args:
                arg = a.args[0]
                # startswith(root + os.sep)
                if isinstance(arg, ast.BinOp) and isinstance(arg.op, ast.Add) and norm(arg.right) in ("os.sep", "os.path.sep", "'/'"):
                    return (arg.left, a.func.value, True, a)
                if isinstance(arg, ast.Call) and C.is_ext_call(ctx, arg, fn, ("os.path.join",)) and len(arg.args) == 2 and norm(arg.args[1]) == "''":
                    return (arg.args[0], a.func.value, True, a)
                return ("weak", a.func.value, True, a)
    return None


SAN_ROOT = {}      # sanitiser qual -> root expression of its (accepted) containment comparison


def is_sanitiser(ctx, fn, flow):
    """(ok, reason, checked parameter names) - fn returns only normalised paths proven to lie under a normalised root."""
    g = C.cfg_of(fn)
    rets = [n for n in own_nodes(fn.node) if isinstance(n, ast.Return) and n.value is not None]
    if not rets:
        return False, "no return value", set()
    tests = []
    for n in g.live_nodes():
        t = C.test_expr(n)
        if t is not None:
            ct = containment_test(ctx, fn, t, flow)
            if ct is not None:
                tests.append((n, ct))
    if not tests:
        return False, "no containment comparison (commonpath / is_relative_to / startswith(root + os.sep))", set()
    for r in rets:
        rn = C.stmt_node(ctx, fn, r)
        if rn is None or rn not in g.live_nodes():
            continue        # unreachable return
        ok = False
        why = "the return is not guarded by the containment test"
        for tn, (root, full, when_in, atom) in tests:
            if root == "weak":
                why = "startswith(root) without a trailing separator also accepts siblings such as root-evil"
                continue
            if not _normalised(ctx, fn, root, flow):
                why = "the root side of the comparison is not normalised (realpath/abspath/resolve)"
                continue
            if not _normalised(ctx, fn, full, flow):
                why = "the joined path is compared without normalisation: '..' segments survive"
                continue

            def at(x, atom=atom, when_in=when_in):
                if x is atom:
                    return when_in
                return None
            # branch taken when contained must reach the return; the other branch must not
            lab_in = C.branch_when(tn, at)

            def at_out(x, atom=atom, when_in=when_in):
                if x is atom:
                    return not when_in
                return None
            lab_out = C.branch_when(tn, at_out)
            if lab_out is None:
                # e.g.  `full == root or commonpath(...) != root` : failing containment forces the branch only one way
                why = "the containment test does not by itself force the rejecting branch"
                continue
            out_succ = C.succ_by_label(tn, lab_out)
            if any(rn is s or rn in g.reachable(s) for s in out_succ):
                why = "the return is reachable when the containment test fails"
                continue
            if not g.dominates(tn, rn):
                why = "the containment test does not dominate the return"
                continue
            if norm(r.value) != norm(full):
                why = "the function returns %s, not the normalised path %s that was tested" % (norm(r.value), norm(full))
                continue
            ok = True
            SAN_ROOT[fn.qual] = root
            break
        if not ok:
            SAN_ROOT.pop(fn.qual, None)
            return False, why, set()
    return True, "every return is the normalised path, guarded by a containment test whose failing branch cannot reach it", set(fn.params)


def checks_raw_argument(ctx, fn):
    """The path the sanitiser tests is normalise(join(root, P)) with P its second parameter *as given* - only then does a
    bare call `sanitiser(root, x)` (result unused) say anything about the path join(root, x) built elsewhere."""
    if len(fn.params) < 2:
        return False
    root_p, rel_p = fn.params[0], fn.params[1]
    for n in own_nodes(fn.node):
        if isinstance(n, ast.Call) and norm(n.func) == "os.path.join" and len(n.args) == 2:
            a0, a1 = n.args
            if isinstance(a1, ast.Name) and a1.id == rel_p:
                # first component: the root parameter or a local normalisation of it
                ok0 = isinstance(a0, ast.Name) and (a0.id == root_p or any(w == "value" and root_p in {x.id for x in ast.walk(p_) if isinstance(x, ast.Name)}
                                                                         for w, p_ in ctx.res.bindings(fn).get(a0.id, [])))
                if ok0 and not any(isinstance(s, (ast.Assign, ast.AugAssign)) and any(isinstance(t, ast.Name) and t.id == rel_p for t in (s.targets if isinstance(s, ast.Assign) else [s.target]))
                                   for s in own_nodes(fn.node)):
                    return True
    return False


def guarded_joins(ctx, reach, sanitisers):
    """{id(join call): sanitiser qual} for `os.path.join(R, X)` expressions that are dominated by a call sanitiser(R, X) with the
    very same arguments (same text, no re-definition in between): the check raised unless join(R, X) is contained."""
    out = {}
    strict = {q: f for q, f in sanitisers.items() if checks_raw_argument(ctx, f)}
    if not strict:
        return out
    for f in reach:
        g = None
        guards = [n for n in own_nodes(f.node) if isinstance(n, ast.Call) and len(n.args) >= 2 and any(t.qual in strict for t in C.targets_of(ctx, f, n))]
        if not guards:
            continue
        joins = [n for n in own_nodes(f.node) if isinstance(n, ast.Call) and norm(n.func) == "os.path.join" and len(n.args) == 2]
        for j in joins:
            for gd in guards:
                if norm(gd.args[0]) != norm(j.args[0]) or norm(gd.args[1]) != norm(j.args[1]):
                    continue
                g = g or C.cfg_of(f)
                gn, jn = C.stmt_node(ctx, f, gd), C.stmt_node(ctx, f, j)
                if gn is None or jn is None or not g.dominates(gn, jn) or gn is jn:
                    continue
                names = {x.id for a in gd.args[:2] for x in ast.walk(a) if isinstance(x, ast.Name)}
                # re-definitions on a path from the guard to the join that does not run the guard again
                after = set()
                for s2, _ in gn.succ:
                    after |= g.reachable(s2, avoiding={gn})
                on_path = {n_ for n_ in after if n_ is not gn and (n_ is jn or jn in g.reachable(n_, avoiding={gn}))}
                if any(C._assigns(n_, nm) for n_ in on_path if n_ is not jn for nm in names):
                    continue
                out[id(j)] = [t.qual for t in C.targets_of(ctx, f, gd) if t.qual in strict][0]
    return out


def metafile_leaves(t):
    return any(x[0] == "ext" and x[1] in ("pyben.load", "pyben.loads") for x in walk_terms(t))


def _cut_unresolved_sanitiser_calls(terms, names):
    """terms with every unresolved method call `<something>.<name>(...)`, name in names, replaced by a neutral constant."""
    def cut(t):
        if isinstance(t, frozenset):
            return frozenset(cut(x) for x in t)
        if isinstance(t, tuple):
            if len(t) >= 2 and t[0] in ("meth", "call", "unkcall", "attrcall") and isinstance(t[1], str) and t[1].split(".")[-1] in names:
                return ("const", "<unresolved containment call>")
            return tuple(cut(x) if isinstance(x, (tuple, frozenset)) else x for x in t)
        return t
    return cut(terms)


def unsanitised(terms, sanitisers):
    """True if a pyben.load-derived value occurs outside every sanitiser call in the term set."""
    def walk(ts):
        for t in ts:
            k = t[0]
            if k == "pkgcall" and t[1] in sanitisers:
                continue
            if k == "ext" and t[1] in ("pyben.load", "pyben.loads"):
                return True
            for part in t[1:]:
                if _walk_part(part):
                    return True
        return False

    def _walk_part(part):
        if isinstance(part, frozenset):
            return walk(part)
        if isinstance(part, tuple):
            for p in part:
                if isinstance(p, (frozenset, tuple)) and _walk_part(p):
                    return True
        return False
    return walk(terms)


# operations that change the TEXT of a path: applied to the result of the containment check they make the path that is
# written another one than the path that was checked (a backslash turned into a separator makes `..\\..` climb)
REWRITING_METHODS = ("replace", "translate", "strip", "lstrip", "rstrip", "removeprefix", "removesuffix", "format", "expandtabs", "lower", "upper", "casefold", "decode", "encode")
REWRITING_CALLS = ("os.path.expanduser", "os.path.expandvars", "re.sub", "urllib.parse.unquote", "urllib.parse.unquote_plus", "os.path.relpath", "unicodedata.normalize")


def rewritten_after_check(terms, sanitisers):
    """(operation, True) for the first text-rewriting operation whose operand contains the result of a containment check."""
    def has_check(part):
        if isinstance(part, frozenset):
            return any(has_check(x) for x in part)
        if isinstance(part, tuple):
            if len(part) >= 2 and part[0] == "pkgcall" and part[1] in sanitisers:
                return True
            return any(has_check(x) for x in part if isinstance(x, (tuple, frozenset)))
        return False

    def walk(part):
        if isinstance(part, frozenset):
            for x in part:
                r = walk(x)
                if r:
                    return r
            return None
        if isinstance(part, tuple):
            if len(part) >= 3 and part[0] == "meth" and part[1] in REWRITING_METHODS and has_check(part[2]):
                return ".%s(...)" % part[1]
            if len(part) >= 3 and part[0] == "ext" and part[1] in REWRITING_CALLS and has_check(part[2]):
                return part[1]
            if len(part) >= 2 and part[0] == "pkgcall" and part[1] in sanitisers:
                return None         # what goes INTO the check may be rewritten freely
            for x in part:
                if isinstance(x, (tuple, frozenset)):
                    r = walk(x)
                    if r:
                        return r
        return None
    return walk(terms)


def run(ctx):
    ctx.trust("os.path.realpath / commonpath semantics; effect table of external primitives")
    entries = C.funcs(ctx, ENTRY_FUNCS) + C.class_methods(ctx, ENTRY_CLASSES)
    reach = C.reach(ctx, entries)
    # sanitiser candidates: package functions in the rebuild call graph with a containment comparison
    probe = Flow(ctx.prog, ctx.res)
    sanitisers = {}
    rejected = {}
    for f in reach:
        has = False
        for n in own_nodes(f.node):
            if isinstance(n, ast.Call) and (C.is_ext_call(ctx, n, f, ("os.path.commonpath",)) or (isinstance(n.func, ast.Attribute) and n.func.attr in ("is_relative_to", "relative_to", "startswith"))):
                has = True
        if not has:
            continue
        ok, why, _ = is_sanitiser(ctx, f, probe)
        if ok:
            sanitisers[f.qual] = f
            ctx.holds("C19.0", f, "containment sanitiser: %s" % why, "sanitiser " + f.qualname)
        else:
            rejected[f.qual] = why
    stops = C.funcs(ctx, ["torrentfile.rebuild:Assembler.__init__", "torrentfile.commands:rebuild"])
    gj = guarded_joins(ctx, reach, sanitisers)

    def hook(f, name, what, payload, fl, env, depth):
        if what == "value" and isinstance(payload, ast.Call) and id(payload) in gj:
            return frozenset([("pkgcall", gj[id(payload)], ())])
        return None
    flow = Flow(ctx.prog, ctx.res, stop_funcs=stops, opaque_funcs=list(sanitisers.values()), hook=hook if gj else None)
    open_flow = Flow(ctx.prog, ctx.res, stop_funcs=stops)
    for jid, q in gj.items():
        pass
    if gj:
        ctx.holds("C19.0", None, "%d path join(s) are preceded by a call of the containment check with the same arguments (the check raises unless that very join is contained)" % len(gj), "guarded joins")
    effs, precise, full = C.reach_effects(ctx, entries, ("fs-write", "fs-write?"))
    n_sinks = 0
    tainted_sinks = 0
    for e, chain, prec in effs:
        where = C.chain_text(chain, e.fn)
        if e.kind == "fs-write?" or not prec:
            ctx.undecided("C19.1", e.fn, "rebuild may reach a primitive that cannot be classified: %s" % norm(e.site), e.site, path=where)
            continue
        for a in e.args:
            if a is None:
                continue
            n_sinks += 1
            t = flow.term(a, e.fn)
            if not metafile_leaves(t) and not any(x[0] == "pkgcall" for x in walk_terms(t)):
                ctx.holds("C19.1", e.fn, "%s: written path does not depend on metafile content" % e.prim, norm(e.site) + " :: " + norm(a), path=where)
                continue
            tainted_sinks += 1
            san_names = {q.split(".")[-1].split(":")[-1] for q in sanitisers}
            if unsanitised(t, set(sanitisers)) and not unsanitised(_cut_unresolved_sanitiser_calls(t, san_names), set(sanitisers)):
                # the metafile-derived part goes through a method call `x.<name of a verified containment check>(...)` whose
                # receiver the origin terms could not type (an object handed around, built by a factory)
                ctx.undecided("C19.1", e.fn, "%s: the written path goes through a call `.%s(...)` on an object whose class was not resolved; a verified containment check of that name exists - "
                              "whether this call is it was not decided" % (e.prim, sorted(san_names)[0]), norm(e.site) + " :: " + norm(a), path=where)
                continue
            if unsanitised(t, set(sanitisers)):
                extra = ""
                if rejected:
                    extra = " (candidate %s rejected: %s)" % next(iter(rejected.items()))
                ctx.violated("C19.1", e.fn, "%s writes to a path built from metafile content (name / path elements / file-tree keys) that has not passed a containment check: '..', absolute or separator-bearing components leave the destination%s" % (
                    e.prim, extra), norm(e.site) + " :: " + norm(a), path=where)
            elif rewritten_after_check(t, set(sanitisers)):
                ctx.violated("C19.1", e.fn, "%s writes to a path whose text is changed by %s AFTER it passed the containment check: the path written is not the path that was checked "
                             "(a name that is one harmless component as checked can become several, '..' among them)" % (e.prim, rewritten_after_check(t, set(sanitisers))),
                             norm(e.site) + " :: " + norm(a), path=where)
            else:
                ctx.holds("C19.1", e.fn, "%s: every metafile-derived component of the written path went through %s" % (
                    e.prim, ", ".join(sorted(q.split(":")[1] for q in sanitisers))), norm(e.site) + " :: " + norm(a), path=where)
    ctx.floor("written-path arguments reachable from rebuild", 2, n_sinks)
    ctx.floor("written paths that depend on the metafile", 1, tainted_sinks)
    # the sanitiser's root must be the destination, its checked argument the metafile path
    for q, f in sanitisers.items():
        for caller, call, bound in ctx.res.callsites_of(f):
            if caller is None or caller not in reach:
                continue
            # the root side of the sanitiser's containment comparison, as it evaluates for this call
            root_expr = SAN_ROOT.get(q)
            if root_expr is None:
                ctx.undecided("C19.2", caller, "which directory the containment check at this call is relative to could not be evaluated", call)
                continue
            cenv = open_flow._bind_env(f, call, caller, {}, 0, f.cls is not None and not f.is_static)
            t = open_flow.term(root_expr, f, cenv)
            bad = metafile_leaves(t)
            leaves = {x[2] for x in walk_terms(t) if x[0] == "param"}
            ok = not bad and any(p in ("dest", "destination", "args") for p in leaves)
            ctx.decide("C19.2", caller, ok, "containment root at this call is the destination argument",
                       "the containment root at this call is not the destination directory (derives from %s)" % (show(t, maxdepth=2)[:100]), call)
    from .dynscan import dynamic_features
    dynamic_features(ctx, "C19.3")


_HELPER_USE_1 = "                dest_path = _contained(self.dest, pathnode.full)"
_HELPER_USE_2 = '                        dest_path = _contained(dest, entry["full"])'
MUTANTS = [
    {"name": "G7-regress-v1-unsanitised", "file": "torrentfile/rebuild.py", "expect": "violated", "rule": "C19.1", "canary": True, "quick": True,
     "what": "pinned-tree defect G7 at the v1 copy site", "edits": [(_HELPER_USE_1, "                dest_path = os.path.join(self.dest, pathnode.full)")]},
    {"name": "G7-regress-v2-unsanitised", "file": "torrentfile/rebuild.py", "expect": "violated", "rule": "C19.1", "canary": True,
     "what": "pinned-tree defect G7 at the v2 copy site", "edits": [(_HELPER_USE_2, '                        dest_path = os.path.join(dest, entry["full"])')]},
    {"name": "sanitiser-no-normalise", "file": "torrentfile/rebuild.py", "expect": "violated", "rule": "C19.1", "canary": True, "quick": True,
     "what": "joined path compared without realpath ('..' survives commonpath)", "edits": [("    full = os.path.realpath(os.path.join(root, relpath))", "    full = os.path.join(root, relpath)")]},
    {"name": "sanitiser-startswith-weak", "file": "torrentfile/rebuild.py", "expect": "violated", "rule": "C19.1", "canary": True,
     "what": "bare startswith(root)", "edits": [("    if full == root or os.path.commonpath([root, full]) != root:", "    if not full.startswith(root):")]},
    {"name": "sanitiser-logs-only", "file": "torrentfile/rebuild.py", "expect": "violated", "rule": "C19.1", "canary": True,
     "what": "violation only logged", "edits": [('        raise ValueError(f"{relpath} is not inside of {dest}")', '        logger.warning("%s is not inside of %s", relpath, dest)')]},
    {"name": "sanitiser-returns-raw-join", "file": "torrentfile/rebuild.py", "expect": "violated", "rule": "C19.1", "canary": True,
     "what": "checks the normalised path but returns the raw join", "edits": [("    return full\n", "    return os.path.join(dest, relpath)\n")]},
    {"name": "sanitiser-test-inverted", "file": "torrentfile/rebuild.py", "expect": "violated", "rule": "C19.1", "canary": True,
     "what": "containment test inverted", "edits": [("os.path.commonpath([root, full]) != root:", "os.path.commonpath([root, full]) == root:")]},
    {"name": "extra-write-unsanitised", "file": "torrentfile/rebuild.py", "expect": "violated", "rule": "C19.1", "canary": True,
     "what": "a marker file named after the torrent is written next to the destination",
     "edits": [("        if self._prog is not None:\n            self.progbar.close_out()", "        if self._prog is not None:\n            self.progbar.close_out()\n        with open(os.path.join(dest, self.name + '.done'), 'w') as marker:\n            marker.write('ok')")]},
    {"name": "root-is-metafile-dir", "file": "torrentfile/rebuild.py", "expect": "violated", "rule": "C19", "canary": True,
     "what": "containment root taken from the metafile's own directory", "edits": [(_HELPER_USE_2, '                        dest_path = _contained(os.path.join(dest, entry["path"]), entry["full"])')]},
    {"name": "checked-path-rewritten-before-the-copy", "file": "torrentfile/utils.py", "expect": "violated", "rule": "C19.1", "canary": True,
     "what": "copypath turns backslashes of the (already checked) destination path into separators",
     "edits": [("    path_parts = Path(dest).parts", "    dest = str(dest).replace(chr(92), '/')\n    path_parts = Path(dest).parts")]},
    {"name": "benign-sanitiser-renamed", "file": "torrentfile/rebuild.py", "expect": "clean",
     "what": "helper renamed and rewritten with is-equal test", "edits": [("_contained(", "_inside(", 3), ("    if full == root or os.path.commonpath([root, full]) != root:\n        raise ValueError", "    if os.path.commonpath([root, full]) == root and full != root:\n        return full\n    if True:\n        raise ValueError")]},
]
QUICK_CANARIES = True

CLAIM = {
    "text": "Decided for all metafiles: every file-system-mutating primitive reachable from rebuild is enumerated and each written path that depends on decoded metafile content is "
            "shown to be the output of a containment sanitiser whose definition is itself verified on the CFG (normalised root and joined path, comparison by commonpath, failing branch raises, "
            "returns the tested path). An unsanitised flow at any sink, or a weakened sanitiser, is a violation naming the sink. A bare call of the (CFG-verified, raw-argument) containment check that dominates the join of the very same arguments is accepted as sanitising that join. The path written must be the path checked: a text-rewriting operation (replace, strip, translate, expanduser, expandvars, re.sub, unquote ...) applied to the result of the containment check before the sink is a violation.",
    "note": "Trusted: realpath resolves '..' and symlinks, commonpath compares whole components. Explicit data flow only; the destination argument itself is the user's. "
            "Time-of-check/time-of-use races with concurrently created symlinks are outside the property.",
    "technique": "taint analysis on origin terms with a mandatory, CFG-verified sanitiser; sinks from effect summaries over the call graph",
    "design_ref": "DESIGN.md section 4, C19",
}
