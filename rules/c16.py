"""C16 - the recheck percentage is the exact share of bytes in verifying pieces (structural core)."""
from . import recheck_rules as R
from .recheck_mutants import MUT_C16

PROP = "C16"
EXPLANATION = (
    "Partial. Decided: the bookkeeping (matched only under hash equality, examined unconditionally, by the same size, "
    "result = matched / examined * 100, after draining), the pairing of the n-th computed with the n-th recorded hash "
    "(slice [k*H, k*H+H), k += 1 once per piece, taken before the increment), the iterator discipline and carried-buffer "
    "flush that keep the denominator equal to the whole payload, and C16.1: the size attributed to a piece is the number "
    "of bytes it covers - len() of the hashed bytes for v1; for v2 the piecewise definition in advance() equals "
    "min(remaining, piece length) and the remaining length decreases by exactly that amount in both branches. "
    "Per-piece independence for arbitrary damage sets and the extractors' arithmetic are not decided.")
RULE_TEXT = "obligations shared with C04.1/.2/.3/.5 plus the size-accounting clauses of C16.1"


def run(ctx):
    ctx.trust("the arithmetic of extract/_gen_padding/Padder is NOT decided")
    R.bookkeeping(ctx, "C16.2")
    R.digest_pairing(ctx, "C16.3")
    R.stop_iteration_discipline(ctx, "C16.4")
    R.carried_buffer(ctx, "C16.5")
    R.size_accounting(ctx, "C16.1")
    R.exhaustion_guard(ctx, "C16.6")
    R.existing_files_are_read(ctx, "C16.7")
    R.path_mapping(ctx, "C16.9")      # the percentage is taken over the files the metafile names, at the root the user gave
    from .conservation import zero_fill_conservation
    zero_fill_conservation(ctx, "C16.8")


MUTANTS = MUT_C16
QUICK_CANARIES = True
CLAIM = {
    "text": "Partial: decides the accounting identities behind the percentage (weights, numerator/denominator discipline, computed/recorded pairing, complete iteration). It does not decide "
            "that each produced chunk holds exactly the bytes of its piece for every size combination, so equality with the reference piece-by-piece computation is not claimed in full. Shares with C04: the hash handed out for a v1 piece is the digest of that piece; the v2 stand-in is sized before the piece is booked.",
    "note": "Not decided: byte arithmetic of the piece extractors; independence under arbitrary damage sets. Shares rules with C04.",
    "technique": "CFG dominance / control dependence, linear normal forms of slice bounds, branch-wise comparison of the size definition with min(remaining, piece length)",
    "design_ref": "DESIGN.md section 4, C16",
}
