"""C17 - an interrupted or failed edit never loses or truncates the metafile.

Typestate over the file-system-mutating operations reachable from the edit entry points: the
only operation whose target may alias the metafile path is an atomic replace whose source is a
distinct, completely written and closed temporary file holding the finished encoding.
"""
import ast

from tfsa.flow import Flow, show, walk_terms
from tfsa.loader import own_nodes
from tfsa.report import norm
from . import common as C

PROP = "C17"
EXPLANATION = (
    "Prefix-closed typestate argument: a crash or I/O error can strike before, at or after every file-system operation, "
    "so the metafile survives every crash point iff no reachable operation other than an atomic os.replace/os.rename "
    "(source = a distinct temporary path) has a target that may alias the metafile path. Every FS-mutating primitive "
    "reachable from edit_torrent / commands.edit / the interactive editor is enumerated through the call graph; the "
    "origin terms of its path arguments decide 'aliases the metafile' / 'distinct by construction (non-empty constant "
    "suffix or tempfile)'; CFG dominance decides that the temporary file received the complete pyben encoding and was "
    "closed before the replace, and that encoding happens before the first mutating operation (so an unencodable "
    "request fails with the original untouched).")
RULE_TEXT = "one obligation per reachable FS-mutating site x role (C17.1), per replace site (C17.2) and per encoding order (C17.3)"

ENTRY_FUNCS = ["torrentfile.edit:edit_torrent", "torrentfile.commands:edit", "torrentfile.interactive:edit_action"]
ENTRY_CLASSES = ["torrentfile.interactive:InteractiveEditor"]
STOPS = ["torrentfile.edit:edit_torrent", "torrentfile.commands:edit", "torrentfile.interactive:InteractiveEditor.__init__",
         "torrentfile.interactive:edit_action"]
WRAPPERS = {"builtins.str", "os.fspath", "os.path.abspath", "os.path.realpath", "os.path.normpath", "pathlib.Path", "os.fsdecode"}
ATOMIC = {"os.replace", "os.rename"}
MOVERS = {"shutil.move"}       # rename when source and target share a file system, else copy INTO the target and delete


def classify_path(terms):
    """'meta' (is the metafile path) | 'tmp' (distinct by construction) | 'mixed' | 'other' (unrelated) | 'unknown'."""
    kinds = set()
    for t in terms:
        kinds.add(_classify1(t))
    kinds.discard("rec")
    if "meta-or-sibling" in kinds:
        return "mixed"      # the pattern / listing also yields the metafile itself
    if not kinds:
        return "unknown"
    if kinds == {"meta"}:
        return "meta"
    if kinds == {"tmp"}:
        return "tmp"
    if kinds == {"fresh"}:
        return "fresh"
    if "unknown" in kinds:
        return "unknown" if "meta" not in kinds else "mixed"
    if "meta" in kinds:
        return "mixed"
    if kinds <= {"tmp", "other", "fresh"}:
        return "other"
    return "unknown"


def _is_meta_leaf(t):
    if t[0] == "param" and t[2] in ("metafile",):
        return True
    if t[0] == "attr" and t[2] == "metafile" and any(b[0] in ("param", "self") for b in t[1]):
        return True
    return False


def _classify1(t):
    k = t[0]
    if _is_meta_leaf(t):
        return "meta"
    if k == "rec":
        return "rec"
    if k == "ext":
        if t[1] in WRAPPERS and t[2]:
            return classify_path(t[2][0])
        if t[1].startswith("tempfile."):
            # a new path of its own: distinct from the metafile, but (without dir=<the metafile's directory>) possibly on
            # another file system
            return "fresh"
        if t[1] == "os.path.join":
            parts = [classify_path(a) for a in t[2]]
            if parts and parts[-1] == "meta":
                return "meta"   # join(x, absolute metafile) may be the metafile
            if any(p in ("meta", "mixed") for p in parts):
                return "tmp" if _has_nonempty_const(t[2][1:]) else "unknown"
            return "other"
        return "unknown" if any(_mentions_meta(a) for a in t[2]) else "other"
    if k == "elem":
        # an entry found by listing the metafile's directory
        for b in t[1]:
            if b[0] == "meth" and b[1] in ("glob", "rglob") and _mentions_meta(b[2]):
                pats = b[3][0] if b[3] else frozenset()
                lits = [x[1] for p_ in pats if p_[0] == "op" and p_[1] == "Add" for side in p_[2] for x in side if x[0] == "const" and isinstance(x[1], str)]
                lits += [x[1] for x in pats if x[0] == "const" and isinstance(x[1], str)]
                if any(_mentions_meta(frozenset([p_])) for p_ in pats) and lits and all(l.strip("*?") != "" for l in lits):
                    return "tmp"        # <name> + a non-empty literal: cannot be the metafile itself
                return "mixed" if False else "meta-or-sibling"
            if b[0] == "meth" and b[1] == "iterdir" and _mentions_meta(b[2]):
                return "meta-or-sibling"
            if b[0] == "ext" and b[1] in ("os.listdir", "os.scandir", "glob.glob", "glob.iglob") and any(_mentions_meta(a) for a in b[2]):
                return "meta-or-sibling"
    if k == "sub" and t[1] and all(b[0] == "ext" and b[1].startswith("tempfile.") for b in t[1]):
        return "fresh"      # fd, path = mkstemp(...)
    if k == "attr" and t[1] and all(b[0] == "ext" and b[1].startswith("tempfile.") for b in t[1]):
        return "fresh"      # NamedTemporaryFile(...).name
    if k == "op" and t[1] == "Add":
        sides = [classify_path(a) for a in t[2]]
        if "meta" in sides or "mixed" in sides:
            others = [a for a, s in zip(t[2], sides) if s not in ("meta", "mixed")]
            if others and all(_nonempty_const(a) for a in others):
                return "tmp"
            return "unknown"
        if any(s == "tmp" for s in sides):
            return "tmp"
        return "other"
    if k == "fstr":
        has_meta = any(_mentions_meta(p) for p in t[1])
        if has_meta:
            return "tmp" if any(_nonempty_const(p) for p in t[1]) else "unknown"
        return "other"
    if k == "meth":
        if t[1] in ("with_suffix", "with_name") and _mentions_meta(t[2]):
            return "tmp" if t[3] and _nonempty_const(t[3][0]) else "unknown"
        if _mentions_meta(t[2]):
            return "unknown"
        return "other"
    if k == "const":
        return "other"
    if k in ("param", "global", "self", "inst"):
        return "other"
    if _mentions_meta(frozenset([t])):
        return "unknown"
    if k in ("unknown", "selfattr"):
        return "unknown"
    return "other"


def _nonempty_const(ts):
    return bool(ts) and all(t[0] == "const" and isinstance(t[1], str) and t[1] != "" for t in ts)


def _has_nonempty_const(parts):
    return any(_nonempty_const(p) for p in parts)


def _mentions_meta(ts):
    return any(_is_meta_leaf(t) for t in walk_terms(ts))


def _derives_from(ts, dotted):
    return any(t[0] == "ext" and t[1] == dotted for t in walk_terms(ts))


def run(ctx):
    ctx.trust("os.replace / os.rename are atomic on POSIX; pyben.dumps returns the complete encoding or raises")
    ctx.trust("effect table of external primitives (tfsa/effects.py)")
    entries = C.funcs(ctx, ENTRY_FUNCS) + C.class_methods(ctx, ENTRY_CLASSES)
    stops = C.funcs(ctx, STOPS)
    flow = Flow(ctx.prog, ctx.res, stop_funcs=stops)
    effs, precise, full = C.reach_effects(ctx, entries, ("fs-write", "fs-write?"))
    replaces = []
    writes_by_fn = {}
    n_sites = 0
    for e, chain, prec in effs:
        where = C.chain_text(chain, e.fn)
        n_sites += 1
        if e.kind == "fs-write?" or not prec:
            ctx.undecided("C17.1", e.fn, "edit may reach a primitive that cannot be classified: %s" % norm(e.site), e.site, path=where)
            continue
        writes_by_fn.setdefault(e.fn, []).append(e)
        call = e.site
        if e.prim in MOVERS and len(call.args) >= 2:
            src = classify_path(flow.term(call.args[0], e.fn))
            dst = classify_path(flow.term(call.args[1], e.fn))
            if dst in ("meta", "mixed"):
                if src == "tmp":
                    ctx.holds("C17.1", e.fn, "%s(tmp, metafile) with the temporary file next to the metafile: same directory, so it is a rename" % e.prim, call, path=where)
                    replaces.append((e, where))
                elif src == "fresh":
                    ctx.violated("C17.1", e.fn, "%s moves a temporary file created in the system's temporary directory onto the metafile: when that directory is on another file system the move "
                                 "degrades to opening the metafile for writing and copying into it - a crash or full disk during the copy leaves it empty or truncated" % e.prim, call, path=where)
                else:
                    ctx.undecided("C17.1", e.fn, "%s onto the metafile from a source whose location is not understood (a rename only within one file system)" % e.prim, call, path=where)
                continue
        if e.prim in ATOMIC and len(call.args) >= 2:
            src = classify_path(flow.term(call.args[0], e.fn))
            dst = classify_path(flow.term(call.args[1], e.fn))
            if src in ("meta", "mixed"):
                ctx.violated("C17.1", e.fn, "%s moves the metafile itself away (source may be the metafile path)" % e.prim, call, path=where)
            elif dst in ("meta", "mixed"):
                if src in ("tmp", "fresh"):
                    ctx.holds("C17.1", e.fn, "%s(%s, metafile): atomic replacement from a path distinct by construction%s" % (
                        e.prim, "tmp" if src == "tmp" else "fresh temporary file", "" if src == "tmp" else " (fails as a whole, leaving the metafile alone, if that path is on another file system)"), call, path=where)
                    replaces.append((e, where))
                elif src == "unknown":
                    ctx.undecided("C17.1", e.fn, "source of the replace not understood", call, path=where)
                else:
                    ctx.undecided("C17.1", e.fn, "source of the replace is not recognisably a temporary sibling of the metafile", call, path=where)
            elif dst == "unknown" or src == "unknown":
                ctx.undecided("C17.1", e.fn, "paths of %s not understood" % e.prim, call, path=where)
            else:
                ctx.holds("C17.1", e.fn, "%s does not touch the metafile path" % e.prim, call, path=where, nontrivial=False)
            continue
        # any other primitive: none of its written paths may alias the metafile
        verdicts = []
        for a in e.args:
            if a is None:
                continue
            # a write through a file object: classify the path the object was opened on
            if e.prim.startswith("file."):
                verdicts.append(("obj", a))
                continue
            verdicts.append((classify_path(flow.term(a, e.fn)), a))
        if e.prim.startswith("file."):
            continue  # judged at its open() site
        bad = [a for v, a in verdicts if v in ("meta", "mixed")]
        unk = [a for v, a in verdicts if v == "unknown"]
        if bad:
            ctx.violated("C17.1", e.fn, "%s targets the metafile path itself: a crash or error at or after this operation leaves it missing, empty or truncated" % e.prim,
                         call, path=where)
        elif unk:
            ctx.undecided("C17.1", e.fn, "target of %s not understood: %s" % (e.prim, norm(unk[0])), call, path=where)
        else:
            ctx.holds("C17.1", e.fn, "%s writes a path distinct from the metafile by construction" % e.prim, call, path=where)
    ctx.floor("FS-mutating sites reachable from edit", 2, n_sites)
    ctx.floor("atomic replace onto the metafile", 1, len(replaces))
    # ---- C17.2 / C17.3 per replace site
    for e, where in replaces:
        fn, call = e.fn, e.site
        g = C.cfg_of(fn)
        rn = C.stmt_node(ctx, fn, call)
        src = call.args[0]
        src_t = flow.term(src, fn)
        # writers of the temporary path in this function
        complete = None
        closed = None
        enc_ok = None
        # fd, path = mkstemp(...);  with os.fdopen(fd, "wb") as f: ...;  os.replace(path, metafile)
        class _W:
            pass
        extra = []
        if isinstance(src, ast.Name):
            for what, payload in ctx.res.bindings(fn).get(src.id, []):
                if what == "unpack" and payload[1] == 1 and isinstance(payload[0], ast.Call) and C.is_ext_call(ctx, payload[0], fn, ("tempfile.mkstemp",)):
                    for n in own_nodes(fn.node):
                        if isinstance(n, ast.Call) and C.is_ext_call(ctx, n, fn, ("os.fdopen",)) and n.args and isinstance(n.args[0], ast.Name):
                            if any(w2 == "unpack" and p2[1] == 0 and p2[0] is payload[0] for w2, p2 in ctx.res.bindings(fn).get(n.args[0].id, [])):
                                w_ = _W()
                                w_.prim, w_.site = "fdopen-of-mkstemp", n
                                extra.append(w_)
        for w in list(writes_by_fn.get(fn, [])) + extra:
            wc = w.site
            if w.prim == "pyben.dump" and len(wc.args) >= 2 and flow.term(wc.args[1], fn) == src_t:
                wn = C.stmt_node(ctx, fn, wc)
                if g.dominates(wn, rn):
                    complete, closed, enc_ok = wc, wc, True
            recv = wc.func.value if isinstance(wc.func, ast.Attribute) else None
            if isinstance(recv, ast.Call) and norm(recv.func) in ("Path", "pathlib.Path", "PurePath") and len(recv.args) == 1 and not recv.keywords:
                recv = recv.args[0]         # Path(tmp).write_bytes(...): the file named tmp
            if w.prim.endswith("write_bytes") and isinstance(wc.func, ast.Attribute) and wc.args and recv is not None and flow.term(recv, fn) == src_t:
                # Path.write_bytes(data): opens, writes everything, closes
                wn = C.stmt_node(ctx, fn, wc)
                data = flow.term(wc.args[0], fn)
                if g.dominates(wn, rn) and not C.in_loop(ctx, fn, wc) and _derives_from(data, "pyben.dumps") and all(t[0] in ("ext", "rec") for t in data):
                    complete, closed = wc, wc
                    enc_ok = all(g.dominates(wn, C.stmt_node(ctx, fn, x.site)) or x.site is wc for x in writes_by_fn.get(fn, []))
            obj_call = None
            if w.prim in ("builtins.open", "io.open") and wc.args and flow.term(wc.args[0], fn) == src_t:
                obj_call = wc
            elif w.prim == "os.open" and wc.args and flow.term(wc.args[0], fn) == src_t:
                par = ctx.prog.parent.get(wc)       # os.fdopen(os.open(tmp, flags), "wb")
                if isinstance(par, ast.Call) and C.is_ext_call(ctx, par, fn, ("os.fdopen",)) and par.args and par.args[0] is wc:
                    obj_call = par
            if w.prim == "fdopen-of-mkstemp":
                obj_call = wc
            if obj_call is not None:
                # an unbuffered binary file is a raw FileIO: write() issues one write(2) and may store only part of the data
                buf = [kw.value for kw in obj_call.keywords if kw.arg == "buffering"] + ([obj_call.args[2]] if len(obj_call.args) > 2 else [])
                if buf and isinstance(buf[0], ast.Constant) and buf[0].value == 0:
                    used = any(isinstance(ctx.prog.parent.get(x), (ast.Assign, ast.Compare, ast.AugAssign, ast.While, ast.If)) for x in own_nodes(fn.node)
                               if isinstance(x, ast.Call) and isinstance(x.func, ast.Attribute) and x.func.attr == "write")
                    if not used:
                        ctx.violated("C17.2", fn, "the temporary file is opened unbuffered (buffering=0): write() on a raw file may store only part of the encoding (disk full, file-size limit, signal) and "
                                     "returns the count instead of raising - the count is ignored here, so a truncated temporary file is moved over the metafile", obj_call, path=where)
                # find the file object and its write
                parent = ctx.prog.parent.get(obj_call)
                fd = None
                withstmt = None
                if isinstance(parent, ast.withitem) and isinstance(parent.optional_vars, ast.Name):
                    fd = parent.optional_vars.id
                    withstmt = ctx.prog.parent.get(parent)
                elif isinstance(parent, ast.Assign) and len(parent.targets) == 1 and isinstance(parent.targets[0], ast.Name):
                    fd = parent.targets[0].id
                if fd is None:
                    continue
                for w2 in writes_by_fn.get(fn, []):
                    c2 = w2.site
                    if w2.prim == "file.write" and isinstance(c2.func.value, ast.Name) and c2.func.value.id == fd:
                        wn = C.stmt_node(ctx, fn, c2)
                        if g.dominates(wn, rn) and not C.in_loop(ctx, fn, c2):
                            data = flow.term(c2.args[0], fn) if c2.args else frozenset()
                            if _derives_from(data, "pyben.dumps") and all(t[0] in ("ext", "rec") for t in data):
                                complete = c2
                                # encoding precedes every mutating op of this function?
                                enc_calls = [n for n in ast.walk(fn.node) if isinstance(n, ast.Call) and C.is_ext_call(ctx, n, fn, ("pyben.dumps",))]
                                if enc_calls:
                                    en = C.stmt_node(ctx, fn, enc_calls[0])
                                    enc_ok = all(g.dominates(en, C.stmt_node(ctx, fn, x.site)) and en is not C.stmt_node(ctx, fn, x.site)
                                                 for x in writes_by_fn.get(fn, []))
                                else:
                                    enc_ok = True   # encoded by the caller before this function ran
                if withstmt is not None:
                    # closed iff the replace is outside the with body (its exit node dominates the replace)
                    inside = any(n is call for st in withstmt.body for n in ast.walk(st))
                    closed = wc if not inside else None
                else:
                    for n in ast.walk(fn.node):
                        if isinstance(n, ast.Call) and isinstance(n.func, ast.Attribute) and n.func.attr == "close" \
                                and isinstance(n.func.value, ast.Name) and n.func.value.id == fd:
                            cn = C.stmt_node(ctx, fn, n)
                            if g.dominates(cn, rn):
                                closed = n
        if complete is None and closed is not None:
            handed = _handed_out_writer(ctx, flow, fn, closed)
            if handed is not None:
                complete, enc_ok, why = handed
                if complete is None:
                    ctx.undecided("C17.2", fn, "the temporary file is handed out by the context manager %s; %s" % (fn.name, why), call, path=where)
                    continue
        # a failed write must not be swallowed on the way to the replace
        swallowed = None
        for node in [x for x in (complete, closed) if x is not None]:
            par = ctx.prog.parent.get(node)
            child = node
            while par is not None and par is not fn.node:
                if isinstance(par, ast.Try) and child in par.body:
                    for h in par.handlers:
                        names = norm(h.type) if h.type is not None else "BaseException"
                        if any(k in names for k in ("OSError", "IOError", "Exception", "BaseException", "EnvironmentError")) and not any(isinstance(x, ast.Raise) for x in ast.walk(h)):
                            swallowed = h
                if isinstance(par, ast.With) and any("suppress" in norm(i.context_expr) for i in par.items):
                    swallowed = par
                child = par
                par = ctx.prog.parent.get(par)
        if swallowed is not None:
            ctx.violated("C17.2", fn, "an I/O error while writing the temporary file is swallowed (%s) and the replace still runs: a short or failed write is moved over the metafile" % norm(swallowed).split("\n")[0][:60], swallowed, path=where)
        ctx.decide("C17.2", fn, complete is not None,
                   "the temporary file receives the complete pyben encoding on every path to the replace (%s)" % norm(complete),
                   "no write of the complete encoding (pyben.dumps result / pyben.dump) to the temporary file dominates the replace",
                   call, path=where)
        ctx.decide("C17.2", fn, closed is not None,
                   "the temporary file is closed before the replace",
                   "the temporary file is not closed on every path reaching the replace (buffered data may be missing when it is moved over the metafile)",
                   norm(call) + "  [closed]", path=where)
        if enc_ok is None:
            ctx.undecided("C17.3", fn, "could not relate the encoding to the mutating operations", call, path=where)
        else:
            ctx.decide("C17.3", fn, enc_ok,
                       "encoding (pyben.dumps / dump to the temporary file) precedes the first operation that can touch the metafile: an unencodable request fails with the original intact",
                       "a file-system-mutating operation precedes the encoding: a request that cannot be encoded fails after the file system was already changed",
                       norm(call) + "  [encode-first]", path=where)
    from .dynscan import dynamic_features
    dynamic_features(ctx, "C17.0")


def _handed_out_writer(ctx, flow, fn, open_call):
    """fn is a @contextmanager generator that yields the file object it opened on the temporary path and replaces after the
    with block: the write happens in the `with fn(...) as fd:` bodies of its callers.  Returns (write call, encode-first,
    reason) - write call None when some caller's body is not understood - or None if fn is not of that shape."""
    if not any("contextmanager" in norm(d) for d in fn.node.decorator_list):
        return None
    par = ctx.prog.parent.get(open_call)
    if not (isinstance(par, ast.withitem) and isinstance(par.optional_vars, ast.Name)):
        return None
    fdname = par.optional_vars.id
    withstmt = ctx.prog.parent.get(par)
    yields = [y for y in own_nodes(fn.node) if isinstance(y, ast.Yield)]
    if len(yields) != 1 or not (isinstance(yields[0].value, ast.Name) and yields[0].value.id == fdname) \
            or not any(isinstance(st, ast.Expr) and st.value is yields[0] for st in withstmt.body):
        return None
    # an exception of the caller's body is re-raised at the yield: it must not be caught on the way to the replace
    p_ = ctx.prog.parent.get(ctx.prog.parent.get(yields[0]))
    while p_ is not None and p_ is not fn.node:
        if isinstance(p_, ast.Try) and (p_.handlers or p_.finalbody):
            return None, None, "its yield sits inside try/except/finally, which this rule does not follow"
        p_ = ctx.prog.parent.get(p_)
    sites = [(c, call) for c, call, _ in ctx.res.callsites_of(fn) if c is not None]
    if not sites:
        return None, None, "no caller found"
    found = None
    enc_first = True
    for caller, call in sites:
        wi = ctx.prog.parent.get(call)
        if not (isinstance(wi, ast.withitem) and isinstance(wi.optional_vars, ast.Name)):
            return None, None, "%s does not use it as `with ... as fd`" % caller.name
        ws = ctx.prog.parent.get(wi)
        ok = None
        for st in ws.body:
            if isinstance(st, ast.Expr) and isinstance(st.value, ast.Call) and isinstance(st.value.func, ast.Attribute) and st.value.func.attr == "write" \
                    and isinstance(st.value.func.value, ast.Name) and st.value.func.value.id == wi.optional_vars.id and st.value.args:
                data = flow.term(st.value.args[0], caller)
                if _derives_from(data, "pyben.dumps") and all(t[0] in ("ext", "rec") for t in data):
                    ok = st.value
        if ok is None:
            return None, None, "the with body in %s does not plainly write the complete pyben encoding" % caller.name
        found = ok
        g = C.cfg_of(caller)
        encs = [n for n in ast.walk(caller.node) if isinstance(n, ast.Call) and C.is_ext_call(ctx, n, caller, ("pyben.dumps",))]
        wn = C.stmt_node(ctx, caller, ws)
        enc_first = enc_first and bool(encs) and all(g.dominates(C.stmt_node(ctx, caller, e_), wn) and C.stmt_node(ctx, caller, e_) is not wn for e_ in encs[:1])
    return found, enc_first, ""


_OLD_TAIL = '''    os.remove(metafile)
    pyben.dump(meta, metafile)
    return meta'''
_NEW_TAIL = '''    encoded = pyben.dumps(meta)
    tempfile = str(metafile) + ".tmp"
    with open(tempfile, "wb") as fd:
        fd.write(encoded)
    os.replace(tempfile, metafile)
    return meta'''

MUTANTS = [
    {"name": "G6-regress-remove-then-dump", "file": "torrentfile/edit.py", "expect": "violated", "rule": "C17.1", "canary": True, "quick": True,
     "what": "the pinned tree's behaviour: os.remove(metafile) then pyben.dump in place (defect G6)", "edits": [(_NEW_TAIL, _OLD_TAIL)]},
    {"name": "dump-in-place", "file": "torrentfile/edit.py", "expect": "violated", "rule": "C17.1", "canary": True,
     "what": "pyben.dump straight onto the metafile", "edits": [(_NEW_TAIL, "    pyben.dump(meta, metafile)\n    return meta")]},
    {"name": "open-metafile-wb", "file": "torrentfile/edit.py", "expect": "violated", "rule": "C17.1", "canary": True,
     "what": "encode first but write in place", "edits": [(_NEW_TAIL, "    encoded = pyben.dumps(meta)\n    with open(metafile, 'wb') as fd:\n        fd.write(encoded)\n    return meta")]},
    {"name": "remove-before-replace", "file": "torrentfile/edit.py", "expect": "violated", "rule": "C17.1", "canary": True,
     "what": "Windows-style remove before rename", "edits": [("    os.replace(tempfile, metafile)", "    os.remove(metafile)\n    os.rename(tempfile, metafile)")]},
    {"name": "backup-by-rename-away", "file": "torrentfile/edit.py", "expect": "violated", "rule": "C17.1", "canary": True,
     "what": "metafile renamed to .bak before the new one is in place", "edits": [("    os.replace(tempfile, metafile)", "    os.rename(metafile, str(metafile) + '.bak')\n    os.replace(tempfile, metafile)")]},
    {"name": "replace-inside-with", "file": "torrentfile/edit.py", "expect": "violated", "rule": "C17.2", "canary": True,
     "what": "replace while the temporary file is still open (unflushed)", "edits": [("        fd.write(encoded)\n    os.replace(tempfile, metafile)", "        fd.write(encoded)\n        os.replace(tempfile, metafile)")]},
    {"name": "tmp-same-as-metafile", "file": "torrentfile/edit.py", "expect": "violated", "rule": "C17", "canary": True,
     "what": "temporary path is the metafile itself", "edits": [('    tempfile = str(metafile) + ".tmp"', '    tempfile = str(metafile)')]},
    {"name": "write-not-dominating", "file": "torrentfile/edit.py", "expect": "violated", "rule": "C17.2", "canary": True,
     "what": "write skipped on one path", "edits": [("        fd.write(encoded)\n", "        if len(encoded) < 1 << 20:\n            fd.write(encoded)\n")]},
    {"name": "write-error-swallowed", "file": "torrentfile/edit.py", "expect": "violated", "rule": "C17.2", "canary": True,
     "what": "OSError during the temporary write is ignored", "edits": [('    with open(tempfile, "wb") as fd:\n        fd.write(encoded)\n', '    try:\n        with open(tempfile, "wb") as fd:\n            fd.write(encoded)\n    except OSError:\n        logger.warning("could not write %s", tempfile)\n')]},
    {"name": "shutil-move-onto-metafile", "file": "torrentfile/edit.py", "expect": "violated", "rule": "C17.1",
     "what": "shutil.move (copy+delete across devices) instead of os.replace", "edits": [("    os.replace(tempfile, metafile)", "    import shutil\n    shutil.move(tempfile, metafile)")]},
    {"name": "benign-helper-extracted", "file": "torrentfile/edit.py", "expect": "clean",
     "what": "atomic write extracted into a helper",
     "edits": [(_NEW_TAIL, "    _atomic_write(metafile, pyben.dumps(meta))\n    return meta\n\n\ndef _atomic_write(metafile, encoded):\n    tmp = str(metafile) + '.part'\n    with open(tmp, 'wb') as out:\n        out.write(encoded)\n    os.replace(tmp, metafile)\n")]},
    {"name": "benign-explicit-close", "file": "torrentfile/edit.py", "expect": "clean",
     "what": "open/write/close without with", "edits": [('    with open(tempfile, "wb") as fd:\n        fd.write(encoded)\n', '    fd = open(tempfile, "wb")\n    fd.write(encoded)\n    fd.close()\n')]},
    {"name": "benign-logging-between", "file": "torrentfile/edit.py", "expect": "clean",
     "what": "logging between the steps", "edits": [("    os.replace(tempfile, metafile)", "    logger.debug('replacing %s', metafile)\n    os.replace(tempfile, metafile)")]},
]
QUICK_CANARIES = True

CLAIM = {
    "text": "Decided for every crash point and fault: the set of file-system operations reachable from edit is enumerated statically and the only one whose target can "
            "alias the metafile path is an atomic replace from a distinct, completely written, closed temporary file; encoding precedes all of them. Because the argument "
            "is prefix-closed (it constrains every reachable operation, not an observed order) it covers a crash or error before, at and after each operation. shutil.move onto the metafile is accepted only from a sibling path (rename), a temporary file from the system directory makes it a violation; an unbuffered (raw) temporary file whose write count is ignored is a violation; paths found by listing the metafile's directory with a pattern that also matches the metafile are treated as the metafile.",
    "note": "Trusted: atomicity of os.replace/os.rename on one POSIX file system; the effect table; pyben.dumps is total-or-raises. Durability across power loss (fsync) is "
            "not part of the property and not checked. Paths are compared by construction (origin terms), not by run-time value.",
    "technique": "typestate over CFG-ordered file-system effects with origin-term alias classification (who-may-touch-the-metafile)",
    "design_ref": "DESIGN.md section 4, C17; appendix C.5",
}
