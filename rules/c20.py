"""C20 - a create option means the same via flag, configuration file or keyword."""
import ast

from tfsa.flow import Flow, walk_terms, travels_in_container
from tfsa.loader import own_nodes, AnalysisError
from tfsa.report import norm
from tfsa.resolve import const_str
from . import common as C
from .argtable import Parsers, MISSING

PROP = "C20"
EXPLANATION = (
    "Agreement of three tables extracted from the source. T-cli: the rows of the create sub-parser (option strings, dest, "
    "action, nargs, default, choices; rows declared in a loop over a literal table are instantiated). T-cfg: the mapping configuration key -> "
    "(keyword, value) obtained by evaluating parse_config_file for every documented key on representative values (true, false, a URL with "
    "every character legal in one, a number followed by a note) in an environment with the module's constant tables - whichever way the parser "
    "is written (if-chain, lookup tables, re) - the value must arrive as the flag route delivers it. T-kw: the parameters of MetaFile.__init__ and, from origin "
    "terms and control dependence, the metafile key each one feeds. C20.1: every documented option --X with dest D has "
    "T-cfg(X) = D with the same value kind; C20.2: every dest is a named parameter of MetaFile.__init__ (otherwise **_ "
    "swallows it); C20.3: parameter -> metafile field equals the documented table and no other option leaks into that "
    "field; C20.4: each list-valued option has a recovery arm for a content path swallowed by it; C20.5: the version "
    "dispatch normalises the kind of meta_version (CLI/config: str, keyword: int) before comparing with a constant, and "
    "the configuration file is parsed before the dispatch.")
RULE_TEXT = "one obligation per documented option and route (C20.1/.2), per parameter/field pair (C20.3), per list option (C20.4), per comparison (C20.5)"

# documented options: long option -> (dest, kind, metafile keys)
DOC = {
    "--announce": ("announce", "list", {"announce", "announce-list"}),
    "--tracker": ("announce", "list", {"announce", "announce-list"}),
    "--web-seed": ("url_list", "list", {"url-list"}),
    "--http-seed": ("httpseeds", "list", {"httpseeds"}),
    "--private": ("private", "bool", {"private"}),
    "--source": ("source", "str", {"source"}),
    "--comment": ("comment", "str", {"comment"}),
    "--piece-length": ("piece_length", "str", {"piece length"}),
    "--meta-version": ("meta_version", "str", set()),
    "--out": ("outfile", "str", set()),
    "--align": ("align", "bool", set()),
}
FIELD_PARAMS = {"announce": {"announce"}, "announce-list": {"announce"}, "url-list": {"url_list"}, "httpseeds": {"httpseeds"},
                "comment": {"comment"}, "private": {"private"}, "source": {"source"}, "piece length": {"piece_length"}}
PATHISH = {"path", "content"}


# one value as a user writes it on a line of the configuration file: everything that is legal inside a URL or a comment
REPRESENTATIVE = "http://host/a,b;c?d=e&f=%20+g"
# a second one that starts like a number and carries what a user may take for a trailing note
REPRESENTATIVE2 = "18  # 256 KiB"


def cfg_table(ctx):
    """{(key, valclass): [(kwarg name, kind)]} by tracing parse_config_file."""
    fn = ctx.prog.func("torrentfile.commands:parse_config_file")
    g = C.cfg_of(fn)
    loops = [n for n in own_nodes(fn.node) if isinstance(n, ast.For)]
    loops = [l for l in loops if isinstance(l.target, ast.Tuple) and len(l.target.elts) == 2]
    if len(loops) != 1:
        raise AnalysisError("parse_config_file: expected one loop over (key, value) items")
    loop = loops[0]
    kv, vv = loop.target.elts[0].id, loop.target.elts[1].id
    kw_param = fn.params[1] if len(fn.params) > 1 else "kwargs"
    head = g.of[loop]
    start = C.succ_by_label(head, "iter")[0]

    mod = fn.module
    mconsts = {}
    for name, vals in mod.assigns.items():
        if len(vals) == 1:
            try:
                mconsts[name] = ast.literal_eval(vals[0])
            except Exception:
                pass

    class Unk(Exception):
        pass

    STR_METHODS = {"lower", "upper", "strip", "casefold", "replace", "split", "splitlines", "startswith", "endswith", "lstrip", "rstrip", "title"}

    def ev(e, env):
        """Value of an expression for the representative key / value strings of this row; Unk outside the small language."""
        if isinstance(e, ast.Constant):
            return e.value
        if isinstance(e, ast.Name):
            if e.id in env:
                if env[e.id] is Unk:
                    raise Unk(e.id)
                return env[e.id]
            if e.id in mconsts:
                return mconsts[e.id]
            raise Unk(e.id)
        if isinstance(e, (ast.List, ast.Tuple, ast.Set)):
            vals = [ev(x, env) for x in e.elts]
            return vals if isinstance(e, ast.List) else (tuple(vals) if isinstance(e, ast.Tuple) else set(vals))
        if isinstance(e, ast.Dict) and all(k is not None for k in e.keys):
            return {ev(k, env): ev(v, env) for k, v in zip(e.keys, e.values)}
        if isinstance(e, ast.Call) and norm(e.func) in ("re.split", "re.sub", "re.findall", "re.match", "re.search", "re.fullmatch") and not e.keywords and all(not isinstance(a, ast.Starred) for a in e.args):
            import re as _re
            args = [ev(a, env) for a in e.args]
            if all(isinstance(a, (str, int)) for a in args):
                try:
                    return getattr(_re, norm(e.func).split(".")[1])(*args)
                except Exception:
                    raise Unk(norm(e))
            raise Unk(norm(e))
        if isinstance(e, ast.Call) and isinstance(e.func, ast.Attribute) and not e.keywords:
            base = ev(e.func.value, env)
            args = [ev(a, env) for a in e.args]
            if isinstance(base, str) and e.func.attr in STR_METHODS:
                return getattr(base, e.func.attr)(*args)
            if isinstance(base, dict) and e.func.attr == "get" and 1 <= len(args) <= 2:
                return base.get(*args)
            if type(base).__name__ == "Match" and e.func.attr in ("group", "groups", "start", "end") and all(isinstance(a, (int, str)) for a in args):
                return getattr(base, e.func.attr)(*args)
            raise Unk(norm(e))
        if isinstance(e, ast.Call) and isinstance(e.func, ast.Name) and e.func.id not in env and e.func.id in mod.functions and not e.keywords \
                and all(not isinstance(a, ast.Starred) for a in e.args):
            # a helper of the same module: interpreted on the values of this row
            return interp(mod.functions[e.func.id], [ev(a, env) for a in e.args], env.get("$depth", 0) + 1)
        if isinstance(e, ast.Call) and isinstance(e.func, ast.Name) and e.func.id in ("str", "list", "bool", "len", "tuple") and len(e.args) == 1 and not e.keywords \
                and e.func.id not in env:
            return {"str": str, "list": list, "bool": bool, "len": len, "tuple": tuple}[e.func.id](ev(e.args[0], env))
        if isinstance(e, ast.Subscript) and not isinstance(e.slice, ast.Slice):
            base, k = ev(e.value, env), ev(e.slice, env)
            try:
                return base[k]
            except Exception:
                raise Unk(norm(e))
        if isinstance(e, ast.Compare) and len(e.ops) == 1:
            l, r, op = ev(e.left, env), ev(e.comparators[0], env), e.ops[0]
            try:
                if isinstance(op, ast.Eq):
                    return l == r
                if isinstance(op, ast.NotEq):
                    return l != r
                if isinstance(op, ast.In):
                    return l in r
                if isinstance(op, ast.NotIn):
                    return l not in r
            except TypeError:
                pass
            raise Unk(norm(e))
        if isinstance(e, ast.BoolOp):
            vals = [ev(v, env) for v in e.values]
            out = vals[0]
            for v in vals[1:]:
                out = (out and v) if isinstance(e.op, ast.And) else (out or v)
            return out
        if isinstance(e, ast.UnaryOp) and isinstance(e.op, ast.Not):
            return not ev(e.operand, env)
        if isinstance(e, ast.IfExp):
            return ev(e.body, env) if ev(e.test, env) else ev(e.orelse, env)
        if isinstance(e, (ast.ListComp, ast.GeneratorExp)) and len(e.generators) == 1 and isinstance(e.generators[0].target, ast.Name):
            gen = e.generators[0]
            out = []
            for item in ev(gen.iter, env):
                env2 = dict(env)
                env2[gen.target.id] = item
                if all(ev(c, env2) for c in gen.ifs):
                    out.append(ev(e.elt, env2))
            return out
        raise Unk(norm(e)[:40])

    def bind(target, value, env):
        if isinstance(target, ast.Name):
            env[target.id] = value
            return
        if isinstance(target, (ast.Tuple, ast.List)) and all(isinstance(x, ast.Name) for x in target.elts):
            if value is Unk or not isinstance(value, (tuple, list)) or len(value) != len(target.elts):
                for x in target.elts:
                    env[x.id] = Unk
            else:
                for x, v in zip(target.elts, value):
                    env[x.id] = v
            return
        raise Unk(norm(target))

    def interp(F, argvals, depth):
        """Return value of a module-level helper for concrete arguments (straight assignments, tests and returns only)."""
        if depth > 3 or len(argvals) != len(F.params) or F.node.args.vararg or F.node.args.kwarg or any(isinstance(x, (ast.Yield, ast.YieldFrom)) for x in own_nodes(F.node)):
            raise Unk(F.qualname)
        env2 = dict(zip(F.params, argvals))
        env2["$depth"] = depth
        gF = C.cfg_of(F)
        out = {}

        def visit(n):
            a = n.ast
            if n.kind != "stmt" or a is None:
                return
            if isinstance(a, ast.Return):
                out["v"] = None if a.value is None else ev(a.value, env2)
            elif isinstance(a, ast.Assign) and len(a.targets) == 1:
                try:
                    v = ev(a.value, env2)
                except Unk:
                    v = Unk
                bind(a.targets[0], v, env2)
            elif isinstance(a, ast.Expr) and isinstance(a.value, ast.Constant):
                pass
            else:
                raise Unk(norm(a)[:40])

        def atom(x):
            try:
                return bool(ev(x, env2))
            except Unk:
                return None
        try:
            _, term = C.trace(gF, gF.entry, atom, visit=visit)
        except C.Undetermined as exc:
            raise Unk(str(exc))
        if term != "exit":
            raise Unk(F.qualname)
        return out.get("v")

    def kind_of(v, text):
        if isinstance(v, bool):
            return "bool:%s" % v
        if isinstance(v, list):
            # the flag route hands the value over as one token: a list that is not [value] cut or re-joined it
            return "list" if v == [text] else "list:%r" % (v,)
        if isinstance(v, str):
            return "str" if v == text else "str:%r" % (v,)
        return "?"

    table = {}
    for key in sorted({k.lstrip("-") for k in DOC}):
        for vclass in ("true", "false", "other", "other2"):
            text = {"true": "true", "false": "false", "other": REPRESENTATIVE, "other2": REPRESENTATIVE2}[vclass]
            env = {kv: key, vv: text}
            state = {}
            stores = []

            def visit(n):
                a = n.ast
                if n.kind != "stmt":
                    return
                if isinstance(a, ast.Assign) and len(a.targets) == 1:
                    t = a.targets[0]
                    if isinstance(t, (ast.Name, ast.Tuple, ast.List)) and all(isinstance(x, ast.Name) for x in (t.elts if not isinstance(t, ast.Name) else [t])):
                        try:
                            v = ev(a.value, env)
                        except Unk:
                            v = Unk
                        bind(t, v, env)
                        return
                    if isinstance(t, ast.Subscript) and isinstance(t.value, ast.Name) and t.value.id == kw_param:
                        try:
                            name = ev(t.slice, env)
                        except Unk:
                            name = None
                        try:
                            kind = kind_of(ev(a.value, env), text)
                        except Unk:
                            kind = "?"
                        stores.append((name, kind, a))
                        return
                # any other statement that touches the keyword dictionary is outside the traced model
                if a is not None and any(isinstance(x, ast.Name) and x.id == kw_param for x in ast.walk(a)):
                    state["opaque"] = norm(a)[:80]

            def atom(x):
                try:
                    return bool(ev(x, env))
                except Unk:
                    return None
            try:
                C.trace(g, start, atom, stop=[head], visit=visit)
            except C.Undetermined as exc:
                table[(key, vclass)] = ("undetermined", str(exc))
                continue
            if state.get("opaque"):
                table[(key, vclass)] = ("undetermined", "the keyword dictionary is also modified by `%s`" % state["opaque"])
                continue
            # the last store per keyword name wins
            final = {}
            for name, kind, node in stores:
                final[name] = (kind, node)
            table[(key, vclass)] = ("ok", final)
    return fn, table


def run(ctx):
    ctx.trust("argparse / configparser semantics (dest derivation, store / store_true / nargs='+', configuration values are strings)")
    parsers = Parsers(ctx)
    for bad in parsers.unreadable:
        ctx.undecided("C20.1", parsers.fn, "an option is defined inside a loop whose table of values could not be read", bad)
    create = parsers.by_command("create")
    rows = create["rows"]
    ctx.floor("rows of the create sub-parser", 12, len(rows))
    by_flag = {}
    for r in rows:
        for f in r.long_options():
            by_flag[f] = r
    init = ctx.prog.func("torrentfile.torrent:MetaFile.__init__")
    params = set(init.all_params()) - {init.self_name, init.kwarg}
    cfg_fn, table = cfg_table(ctx)
    ctx.info["T_cli"] = [{"flags": r.flags, "dest": r.dest, "action": r.action, "nargs": r.nargs, "kind": r.value_kind()} for r in rows]
    ctx.info["T_cfg"] = {"%s=%s" % k: (v[0] if v[0] != "ok" else {n: kd[0] for n, kd in v[1].items()}) for k, v in table.items()}
    shared_defaults(ctx, rows)
    explicit_config_wins(ctx)
    # ---- C20.1 / C20.2
    for flag, (dest, kind, keys) in sorted(DOC.items()):
        row = by_flag.get(flag)
        if row is None:
            ctx.violated("C20.1", ctx.prog.func("torrentfile.cli:execute"), "documented create option %s is not defined by the create sub-parser" % flag, "option " + flag)
            continue
        ok = row.dest == dest and (row.value_kind() == kind or (kind == "str" and row.value_kind() == "str"))
        ctx.decide("C20.1", ctx.prog.func("torrentfile.cli:execute"), ok, "flag %s -> keyword %s (%s)" % (flag, row.dest, row.value_kind()),
                   "flag %s feeds keyword %r as %s; documented: keyword %r as %s" % (flag, row.dest, row.value_kind(), dest, kind), row.call)
        ctx.decide("C20.2", init, row.dest in params, "keyword %s is a named parameter of MetaFile.__init__" % row.dest,
                   "keyword %r (flag %s) is not a named parameter of MetaFile.__init__: it is swallowed by **_ and the option is ignored" % (row.dest, flag),
                   "parameter " + str(row.dest))
        key = flag.lstrip("-")
        classes = ("true", "false") if kind == "bool" else ("other", "other2")
        for vclass in classes:
            st = table.get((key, vclass))
            label = "configuration key %s = %s" % (key, {"true": "true", "false": "false", "other": "<value>", "other2": "<value #2>"}[vclass])
            if st is None or st[0] != "ok":
                ctx.undecided("C20.1", cfg_fn, "%s: chain not understood (%s)" % (label, st[1] if st else "no row"), "config key " + key + "=" + vclass)
                continue
            final = st[1]
            if dest not in final:
                got = ", ".join("%r" % n for n in final) or "nothing"
                ctx.violated("C20.1", cfg_fn, "%s sets keyword %s; the flag %s sets %r. The creator does not know the name and drops the value silently" % (label, got, flag, dest),
                             "config key " + key + "=" + vclass)
                continue
            k = final[dest][0]
            want = {"list": "list", "str": "str", "bool": "bool:True" if vclass == "true" else "bool:False"}[kind]
            extra = [n for n in final if n != dest and n not in params]
            if k == "?":
                ctx.undecided("C20.1", cfg_fn, "%s: what is passed as %s could not be evaluated" % (label, dest), final[dest][1])
            elif k.split(":")[0] == want.split(":")[0] and ":" in k and kind != "bool":
                ctx.violated("C20.1", cfg_fn, "%s: the value `%s` written in the file reaches %s as %s; the flag passes it as one unchanged value - the same value means something else in the configuration file" % (
                    label, REPRESENTATIVE if vclass == "other" else REPRESENTATIVE2, dest, k.split(":", 1)[1]), final[dest][1])
            elif k != want:
                ctx.violated("C20.1", cfg_fn, "%s passes %s as %s; the flag passes %s" % (label, dest, k, want.split(":")[0]), final[dest][1])
            else:
                ctx.holds("C20.1", cfg_fn, "%s -> keyword %s (%s), same as flag %s" % (label, dest, k.split(":")[0], flag), "config key " + key + "=" + vclass)
    # ---- C20.3 parameter -> field
    # the last element of a list option taken under os.path.exists(...) is the content path, not an option value
    from .c08 import recovery_hook, recovery_expr_hook
    flow = Flow(ctx.prog, ctx.res, stop_funcs=[init], hook=recovery_hook(ctx, init))
    flow.expr_hook = recovery_expr_hook(ctx, init)
    g = C.cfg_of(init)
    option_params = {v[0] for v in DOC.values()}
    seen_fields = {}
    # the constructor and the helper methods it calls directly (the stores may have been moved into them)
    scopes = [(init, None)]
    for c in own_nodes(init.node):
        if isinstance(c, ast.Call):
            for h in C.targets_of(ctx, init, c):
                if h is not init and h.cls is not None and init.cls in ctx.prog.mro(h.cls) + [h.cls] and h.name not in ("assemble", "write", "sort_meta") and (h, c) not in scopes \
                        and not any(h is s_[0] for s_ in scopes):
                    scopes.append((h, c))
    stores_in = []
    for F, callsite in scopes:
        for n in own_nodes(F.node):
            if isinstance(n, ast.Assign) and len(n.targets) == 1 and isinstance(n.targets[0], ast.Subscript):
                stores_in.append((F, callsite, n))
    from .argtable import loop_instances
    expanded = []
    for F, callsite, n in stores_in:
        t = n.targets[0]
        k = const_str(t.slice)
        if k is not None:
            expanded.append((F, callsite, n, k, n.value))
        elif isinstance(t.slice, ast.Name):
            # target[key] = value inside `for ..., key, value in <literal table>`: one store per row of the table
            for m in (loop_instances(ctx, F, n) or []):
                kk = const_str(m[t.slice.id]) if t.slice.id in m else None
                if kk is not None:
                    expanded.append((F, callsite, n, kk, m.get(n.value.id, n.value) if isinstance(n.value, ast.Name) else n.value, m))
    for F, callsite, n, k, value_expr, *row in expanded:
        t = n.targets[0]
        if k is None or k not in FIELD_PARAMS:
            continue
        base = norm(t.value)
        if row and isinstance(t.value, ast.Name):
            # target = <info dictionary> if flag else <top level>, with the flag a column of the table
            bl = ctx.res.bindings(F).get(t.value.id, [])
            if len(bl) == 1 and bl[0][0] == "value" and isinstance(bl[0][1], ast.IfExp) and isinstance(bl[0][1].test, ast.Name) \
                    and isinstance(row[0].get(bl[0][1].test.id), ast.Constant):
                base = norm(bl[0][1].body if row[0][bl[0][1].test.id].value else bl[0][1].orelse)
        if F is not init and isinstance(t.value, ast.Name) and callsite is not None:
            # the dictionary is a parameter of the helper: read the argument at the call in the constructor
            bound = ctx.res.bind_args(F, callsite, F.cls is not None and not F.is_static)
            if t.value.id in bound and not isinstance(bound[t.value.id], list):
                base = norm(bound[t.value.id])
        level_known = True
        if isinstance(t.value, ast.Name) and base == t.value.id:
            # a local name for the dictionary: `info = self.meta["info"]`
            bl = ctx.res.bindings(F).get(t.value.id, [])
            if len(bl) == 1 and bl[0][0] == "value" and isinstance(bl[0][1], (ast.Subscript, ast.Attribute)):
                base = norm(bl[0][1])
            else:
                level_known = False
        g = C.cfg_of(F)
        in_info = base.endswith("['info']")
        expected_info = k in ("comment", "private", "source", "piece length")
        used = set()
        for x in walk_terms(flow.term(value_expr, F)):
            if x[0] == "param" and x[1] == init.qual:
                used.add(x[2])
        # `1 if private else None`: the option decides through the test of a conditional expression
        def _through_locals(e, depth=0):
            # e, and what the locals it reads were given (`t = 1 if private else None; ... = t`)
            out_ = [e]
            if depth < 3:
                for nm_ in ast.walk(e):
                    if isinstance(nm_, ast.Name) and isinstance(nm_.ctx, ast.Load):
                        bl_ = ctx.res.bindings(F).get(nm_.id, [])
                        if len(bl_) == 1 and bl_[0][0] == "value" and isinstance(bl_[0][1], ast.AST):
                            out_ += _through_locals(bl_[0][1], depth + 1)
            return out_
        for ve in _through_locals(value_expr):
            for ie in [x for x in ast.walk(ve) if isinstance(x, ast.IfExp)]:
                for nm in ast.walk(ie.test):
                    if isinstance(nm, ast.Name):
                        for y in walk_terms(flow.term(nm, F)):
                            if y[0] == "param" and y[1] == init.qual:
                                used.add(y[2])
        node = C.stmt_node(ctx, F, n)
        for b, lab in g.control_deps(node, normal_only=True):
            te = C.test_expr(b)
            if te is None:
                continue
            for a in C.atoms_of(te):
                for nm in ast.walk(a):
                    if isinstance(nm, ast.Name) and row and nm.id in row[0]:
                        # a guard on a loop variable of the table: what that column holds in this row
                        for y in walk_terms(flow.term(row[0][nm.id], F)):
                            if y[0] == "param" and y[1] == init.qual:
                                used.add(y[2])
                        continue
                    if isinstance(nm, ast.Name) and F is init and nm.id in params:
                        used.add(nm.id)
                    if isinstance(nm, ast.Name) and F is init and nm.id not in params:
                        # a local of the constructor in the guard: what it was given
                        for ve in _through_locals(nm):
                            for y in walk_terms(flow.term(ve, F)):
                                if y[0] == "param" and y[1] == init.qual:
                                    used.add(y[2])
                            for ie in [x for x in ast.walk(ve) if isinstance(x, ast.IfExp)]:
                                for nm2 in ast.walk(ie.test):
                                    if isinstance(nm2, ast.Name) and nm2.id in params:
                                        used.add(nm2.id)
                    if (isinstance(nm, ast.Attribute) and isinstance(nm.value, ast.Name) and nm.value.id == F.self_name) or (isinstance(nm, ast.Name) and F is not init):
                        for y in walk_terms(flow.term(nm, F)):
                            if y[0] == "param" and y[1] == init.qual:
                                used.add(y[2])
        used_opts = (used & option_params) - PATHISH
        want = FIELD_PARAMS[k]
        seen_fields.setdefault(k, set()).update(used_opts)
        problems = []
        if not level_known:
            ctx.undecided("C20.3", F, "field %r: which dictionary `%s` names here could not be read" % (k, base), n)
            continue
        if in_info != expected_info:
            problems.append("stored at the %s level, documented level is %s" % ("info" if in_info else "top", "info" if expected_info else "top"))
        if k == "piece length":
            used_opts -= {"piece_length"}
            want = set()
        if used_opts - want:
            problems.append("option(s) %s leak into field %r" % (sorted(used_opts - want), k))
        if want - used_opts:
            problems.append("field %r does not depend on its own option %s" % (k, sorted(want)))
        if problems and travels_in_container(flow.term(value_expr, F), lambda y: y[0] == "param" and y[1] == init.qual and y[2] in option_params):
            # several option values travel side by side through one container (a table, a tuple that is unpacked through a
            # starred element ...): which of them reaches this field is not separated by the origin terms
            ctx.undecided("C20.3", F, "field %r: the option values travel through a container together and could not be told apart (%s)" % (k, "; ".join(problems)), n)
            continue
        ctx.decide("C20.3", F, not problems, "field %r is fed by keyword %s only" % (k, sorted(FIELD_PARAMS[k])),
                   "field %r: %s" % (k, "; ".join(problems)), n)
    for k in FIELD_PARAMS:
        if k not in seen_fields:
            elsewhere = [f_ for f_ in ctx.prog.functions.values() if f_.module is init.module for x in own_nodes(f_.node)
                         if isinstance(x, ast.Subscript) and isinstance(x.ctx, ast.Store) and const_str(x.slice) == k]
            if elsewhere:
                ctx.undecided("C20.3", init, "documented field %r is not stored by the constructor or the helpers it calls directly (a store exists in %s, which is not followed)" % (k, elsewhere[0].qualname), "field " + k)
            else:
                ctx.violated("C20.3", init, "documented field %r is never stored by MetaFile.__init__" % k, "field " + k)
    # ---- C20.4 recovery arms
    recovery(ctx, init, rows)
    post_recovery_values(ctx, init, rows, flow)
    verbatim_config(ctx, cfg_fn)
    # ---- C20.5 version dispatch
    version_dispatch(ctx)
    from .dynscan import dynamic_features
    dynamic_features(ctx, "C20.0")


def recovery(ctx, init, rows):
    list_dests = sorted({r.dest for r in rows if r.value_kind() == "list"})
    positional = [r for r in rows if r.positional]
    if not positional or positional[0].nargs not in ("?", "*"):
        ctx.holds("C20.4", init, "the content path is a mandatory positional: it cannot be swallowed", "positional content", nontrivial=False)
    # the recovery may live in the constructor or in a helper it calls with the options (which then returns the results)
    scopes = [(init, {})]
    for c in own_nodes(init.node):
        if isinstance(c, ast.Call):
            for h in C.targets_of(ctx, init, c):
                if h is not init and h.module is init.module and not any(h is s_[0] for s_ in scopes):
                    bound = ctx.res.bind_args(h, c, h.cls is not None and not h.is_static)
                    ren = {p_: norm(a_) for p_, a_ in bound.items() if not isinstance(a_, list) and isinstance(a_, ast.AST)}
                    scopes.append((h, ren))
    for dest in list_dests:
        found = False
        for F, ren in scopes:
            # name of the option inside F
            local = dest if F is init else next((p_ for p_, a_ in ren.items() if a_ == dest), None)
            if local is None:
                continue
            for n in own_nodes(F.node):
                if not isinstance(n, ast.If):
                    continue
                last = None
                for a in C.atoms_of(n.test):
                    if isinstance(a, ast.Call) and C.is_ext_call(ctx, a, F, ("os.path.exists", "os.path.isfile", "os.path.isdir")) and a.args:
                        x = a.args[0]
                        if isinstance(x, ast.Subscript) and isinstance(x.value, ast.Name) and x.value.id == local and norm(x.slice) == "-1":
                            last = x
                if last is None:
                    continue
                takes = drops = False
                for st in n.body:
                    if isinstance(st, ast.Assign) and len(st.targets) == 1 and isinstance(st.targets[0], ast.Name):
                        if st.targets[0].id in ("path", "content") and norm(st.value) == norm(last):
                            takes = True
                        if st.targets[0].id == local and isinstance(st.value, ast.Subscript) and norm(st.value) == "%s[:-1]" % local:
                            drops = True
                    if isinstance(st, ast.Return) and st.value is not None:
                        # return <last element>, ..., <list without it>, ...
                        parts = st.value.elts if isinstance(st.value, ast.Tuple) else ([kw.value for kw in st.value.keywords] + list(st.value.args) if isinstance(st.value, ast.Call) else [st.value])
                        if any(norm(x_) == norm(last) for x_ in parts):
                            takes = True
                        if any(norm(x_) == "%s[:-1]" % local for x_ in parts):
                            drops = True
                if takes and drops:
                    found = True
                    # the arm must be reachable only when no content path was given
                    ctx.holds("C20.4", F, "list option %r: a trailing existing path is taken as the content path and removed from the list" % dest, n.test)
        if not found:
            # an arm that this rule cannot read: some function that receives the option tests the existence of the last
            # element of a list it does not name directly (a table of the list options walked in a loop)
            generic = None
            for F, ren in scopes:
                if F is not init and dest not in ren.values():
                    continue
                for a in own_nodes(F.node):
                    if isinstance(a, ast.Call) and C.is_ext_call(ctx, a, F, ("os.path.exists", "os.path.isfile", "os.path.isdir")) and a.args \
                            and isinstance(a.args[0], ast.Subscript) and norm(a.args[0].slice) == "-1" and norm(a.args[0].value) != (dest if F is init else ""):
                        generic = (F, a)
            if generic is not None:
                ctx.undecided("C20.4", generic[0], "list option %r: the recovery of a swallowed content path is written generically (`%s`); that it covers this option is not decided" % (dest, norm(generic[1])),
                              "recovery arm for " + dest)
                continue
        if not found:
            ctx.violated("C20.4", init, "list-valued option %r has no recovery arm: `create --%s url <content>` swallows the content path" % (dest, dest.replace("_", "-")),
                         "recovery arm for " + dest)
    ctx.floor("list-valued create options", 3, len(list_dests))


def explicit_config_wins(ctx):
    """C20.8: a configuration file named on the command line is the one that is read: every other value the locator can return
    (default locations) is assigned only where no explicit path was given."""
    from tfsa.reach import ReachDefs
    fn = ctx.prog.functions.get("torrentfile.commands:find_config_file")
    if fn is None:
        ctx.undecided("C20.8", None, "anchor vanished: find_config_file")
        return
    ns = fn.params[0]
    g = C.cfg_of(fn)
    rd = ReachDefs(fn, g)

    def is_explicit(e):
        return isinstance(e, ast.Attribute) and isinstance(e.value, ast.Name) and e.value.id == ns and e.attr == "config_path"
    n = 0
    for r in [x for x in own_nodes(fn.node) if isinstance(x, ast.Return) and x.value is not None]:
        rn = C.stmt_node(ctx, fn, r)
        # the values this return can hand out, each with the node that selects it
        results = []
        if isinstance(r.value, ast.Name):
            loop = None
            par = ctx.prog.parent.get(r)
            while par is not None and par is not fn.node:
                if isinstance(par, ast.For) and isinstance(par.target, ast.Name) and par.target.id == r.value.id:
                    loop = par
                    break
                par = ctx.prog.parent.get(par)
            if loop is not None and isinstance(loop.iter, ast.Name):
                # for c in candidates: ... return c - the candidates are what each definition of the list holds, each judged
                # where the list is made
                ldefs = rd.reaching(loop.iter.id, g.of[loop])
                if ldefs and all(d.kind == "assign" and isinstance(d.value, (ast.List, ast.Tuple)) for d in ldefs):
                    for d in ldefs:
                        if d.value.elts and all(is_explicit(e_) for e_ in d.value.elts):
                            continue
                        results.append((d.value, d.node, d.stmt if d.stmt is not None else r))
                else:
                    ctx.undecided("C20.8", fn, "the locator returns an element of `%s`; what that list holds was not followed" % loop.iter.id, r)
                    continue
            else:
                for d in rd.reaching(r.value.id, rn):
                    if d.kind == "assign" and d.value is not None:
                        results.append((d.value, d.node, d.stmt if d.stmt is not None else r))
                    else:
                        results.append((r.value, rn, r))      # a loop variable, a parameter: judged where it is returned
        elif is_explicit(r.value):
            continue
        elif isinstance(r.value, (ast.Attribute, ast.Call, ast.BinOp, ast.Subscript, ast.JoinedStr)):
            results.append((r.value, rn, r))
        else:
            ctx.undecided("C20.8", fn, "the locator returns `%s`" % norm(r.value), r)
            continue
        for v, site, stmt in results:
            if (isinstance(v, ast.Constant) and v.value is None) or is_explicit(v):
                continue
            n += 1
            only_without = False
            for node in {site, rn}:
                for b, lab in g.control_deps(node, normal_only=True):
                    t = C.test_expr(b)
                    if t is None:
                        continue

                    def atom(x):
                        return True if is_explicit(x) else None
                    if C.branch_when(b, atom) not in (None, lab):
                        only_without = True
            ctx.decide("C20.8", fn, only_without, "the default location `%s` is used only when no configuration path was given" % norm(v),
                       "`%s` (a default location) replaces the result even when --config-path names a file: the options of the file the user pointed at are ignored in favour of whatever "
                       "torrentfile.ini lies in the working / home directory" % norm(stmt), stmt)
    ctx.floor("default-location results of the configuration locator", 1, n)


def shared_defaults(ctx, rows):
    """C20.7: one container object must not be the default of several options if anything modifies an option value in place:
    filling one of them (e.g. trackers read from the configuration file) then also fills the others."""
    from .c09 import inplace_option_mutations, is_container_expr
    ex = ctx.prog.func("torrentfile.cli:execute")
    groups = {}
    for r in rows:
        d = r.kw.get("default")
        if d is not None and is_container_expr(ctx, d, ex.module):
            groups.setdefault(id(d), []).append(r)
    shared = [g for g in groups.values() if len({r.dest for r in g}) > 1]
    if not shared:
        ctx.holds("C20.7", ex, "no container object is the default of more than one create option", "shared default containers", nontrivial=False)
        return
    for g in shared:
        dests = sorted({r.dest for r in g})
        hits = inplace_option_mutations(ctx, set(dests))
        if hits:
            f, n, d = hits[0]
            ctx.violated("C20.7", f, "the options %s share one default list object (`%s`), and `%s` fills the value of %r in place: when it is the shared default, the same entries appear "
                         "under every other option of the group (trackers from the configuration file end up in url-list / httpseeds)" % (
                             ", ".join(dests), norm(g[0].kw["default"]), norm(n)[:70], d), "shared default containers")
        else:
            ctx.holds("C20.7", ex, "the options %s share one default container, but no option value is ever modified in place" % ", ".join(dests), "shared default containers")


def post_recovery_values(ctx, init, rows, flow):
    """C20.4b: the list stored in the metafile is the one left AFTER a swallowed content path was taken out of it."""
    field_of = {"url_list": "url-list", "httpseeds": "httpseeds", "announce": "announce-list"}
    for dest in sorted({r.dest for r in rows if r.value_kind() == "list"}):
        key = field_of.get(dest)
        if key is None:
            continue
        from .argtable import loop_instances
        stores = [(n, n.value) for n in own_nodes(init.node) if isinstance(n, ast.Assign) and len(n.targets) == 1 and isinstance(n.targets[0], ast.Subscript) and const_str(n.targets[0].slice) == key]
        # target[key] = value inside a loop over a literal table: the row whose key column is this field
        for n in own_nodes(init.node):
            if isinstance(n, ast.Assign) and len(n.targets) == 1 and isinstance(n.targets[0], ast.Subscript) and isinstance(n.targets[0].slice, ast.Name):
                for m in (loop_instances(ctx, init, n) or []):
                    if n.targets[0].slice.id in m and const_str(m[n.targets[0].slice.id]) == key:
                        stores.append((n, m.get(n.value.id, n.value) if isinstance(n.value, ast.Name) else n.value))
        for st, vexpr in stores:
            t = flow.term(vexpr, init)
            # some alternative of the stored value is a slice of (something that holds) the option: the list after the recovery
            trimmed = any(x[0] == "sub" and any(i[0] == "op" and i[1] == "slice" for i in x[2]) and any(b[0] == "param" and b[2] == dest for b in walk_terms(x[1])) for x in walk_terms(t))
            ctx.decide("C20.4", init, trimmed, "field %r is stored from the list as it stands after the recovery of a swallowed content path" % key,
                       "field %r is stored from a copy of %r taken BEFORE the recovery arm removes a swallowed content path: `create --%s url <content>` leaves the local path in the list" % (
                           key, dest, dest.replace("_", "-").replace("url-list", "web-seed").replace("httpseeds", "http-seed")), st)


def verbatim_config(ctx, cfg_fn):
    """C20.6: configuration values are taken verbatim (parser constructed with its defaults)."""
    ctor = [n for n in own_nodes(cfg_fn.node) if isinstance(n, ast.Call) and C.is_ext_call(ctx, n, cfg_fn, ("configparser.ConfigParser", "configparser.RawConfigParser", "configparser.SafeConfigParser"))]
    if not ctor:
        ctx.undecided("C20.6", cfg_fn, "configuration parser construction not found")
    for c in ctor:
        opts = sorted(kw.arg or "**" for kw in c.keywords) + (["<positional>"] if c.args else [])
        changing = [o for o in opts if o in ("inline_comment_prefixes", "comment_prefixes", "delimiters", "allow_no_value", "empty_lines_in_values", "interpolation", "converters", "strict", "**", "<positional>", "default_section", "defaults")]
        ctx.decide("C20.6", cfg_fn, not changing, "the configuration parser is constructed with its defaults: values are taken verbatim",
                   "the configuration parser is constructed with %s: part of a value (e.g. everything after ' #' or ' ;') is cut off or re-interpreted on the configuration route only, so the same option value means something else than via flag or keyword" % ", ".join(changing), c)


def version_dispatch(ctx):
    n = 0
    for f in ctx.prog.functions.values():
        if f.module.name != "torrentfile.torrent":
            continue
        for c in own_nodes(f.node):
            if not isinstance(c, ast.Compare) or len(c.ops) != 1:
                continue
            sides = [c.left, c.comparators[0]]
            for a, b in (sides, sides[::-1]):
                mentions = any((isinstance(x, ast.Attribute) and x.attr == "meta_version") or (isinstance(x, ast.Name) and x.id == "meta_version") for x in ast.walk(a))
                if not mentions:
                    continue
                try:
                    const = ast.literal_eval(b)
                except Exception:
                    continue
                n += 1
                consts = const if isinstance(const, (list, tuple, set)) else [const]
                kinds = {type(x).__name__ for x in consts}
                wrapped = None
                if isinstance(a, ast.Call) and isinstance(a.func, ast.Name) and a.func.id in ("str", "int"):
                    wrapped = a.func.id
                if kinds == {"str"} and wrapped == "str" or kinds == {"int"} and wrapped == "int" or kinds == {"str", "int"}:
                    ctx.holds("C20.5", f, "meta_version is normalised with %s() before being compared with %r: flag/config (str) and keyword (int) agree" % (wrapped, const), c)
                else:
                    ctx.violated("C20.5", f, "meta_version is compared with %r without normalising its kind: the command line and the configuration file pass strings, the documented keyword is an int, so one route takes the other branch" % (const,), c)
    ctx.floor("version comparisons in the creator classes", 1, n)
    # commands.create: configuration parsed before the dispatch on the version
    cr = ctx.prog.func("torrentfile.commands:create")
    g = C.cfg_of(cr)
    pcs = [x for x in own_nodes(cr.node) if isinstance(x, ast.Call) and any(t[0] == "pkg" and t[1].name == "parse_config_file" for t in ctx.res.call_targets(x, cr))]
    reads = []
    for x in own_nodes(cr.node):
        if isinstance(x, ast.Attribute) and x.attr == "meta_version" and isinstance(x.ctx, ast.Load):
            nd = C.stmt_node(ctx, cr, x)
            if nd is not None and nd not in [r[0] for r in reads]:
                reads.append((nd, x))
    if not pcs:
        # not called by create itself: a helper that create calls may do it (the order relative to the version dispatch is then
        # decided across two functions, which this rule does not follow)
        pf = [f_ for f_ in ctx.prog.functions.values() if f_.name == "parse_config_file"]
        via = [f_ for f_ in C.reach(ctx, [cr]) if f_ is not cr and any(isinstance(x, ast.Call) and any(t in pf for t in C.targets_of(ctx, f_, x)) for x in own_nodes(f_.node))] if pf else []
        if via:
            ctx.undecided("C20.5", cr, "the configuration file is parsed in %s, which commands.create reaches through a call; that this happens before the version is looked at was not followed" % via[0].qualname, "parse_config_file call")
        else:
            ctx.violated("C20.5", cr, "commands.create never parses the configuration file", "parse_config_file call")
    elif not reads:
        ctx.undecided("C20.5", cr, "version dispatch of commands.create not found")
    else:
        pn = C.stmt_node(ctx, cr, pcs[0])
        for nd, x in reads:
            late = pn in g.reachable(nd) and pn is not nd
            ctx.decide("C20.5", cr, not late, "the configuration file is parsed before the requested version is read",
                       "the requested version is read before the configuration file is parsed: meta-version from the file is ignored", ctx.prog.enclosing_stmt(x))
        # the keyword dictionary handed to the creator is the namespace updated by the file
        kw_ok = False
        for x in own_nodes(cr.node):
            if isinstance(x, ast.Assign) and isinstance(x.value, ast.Call) and C.is_ext_call(ctx, x.value, cr, ("builtins.vars",)):
                kw_ok = True
        ctx.decide("C20.5", cr, kw_ok, "keywords = vars(args): flags and configuration keys land in one dictionary",
                   "keywords are not the namespace dictionary: configuration values do not reach the creator", "vars(args)")


_CFG_NEW = '''            elif key.lower() == "web-seed":
                kwargs["url_list"] = val

            else:
                kwargs["announce"] = val
'''
_CFG_OLD = '''            elif key.lower() == "web-seed":
                kwargs.setdefault("url-list", [])
                kwargs["url-list"] = val

            else:
                kwargs[key.lower()] = val
'''
MUTANTS = [
    {"name": "G18-regress-config-names", "file": "torrentfile/commands.py", "expect": "violated", "rule": "C20.1", "canary": True, "quick": True,
     "what": "pinned-tree defect G18: web-seed/out/tracker mapped to unknown keyword names",
     "edits": [(_CFG_NEW, _CFG_OLD), ('        elif key.lower() == "out":\n            kwargs["outfile"] = val\n\n', '')]},
    {"name": "G19-regress-version-string-compare", "file": "torrentfile/torrent.py", "expect": "violated", "rule": "C20.5", "canary": True, "quick": True,
     "what": "pinned-tree defect G19: meta_version == '3' without normalisation", "edits": [('self.hybrid = str(self.meta_version) == "3"', 'self.hybrid = self.meta_version == "3"')]},
    {"name": "config-http-seed-wrong-name", "file": "torrentfile/commands.py", "expect": "violated", "rule": "C20.1", "canary": True,
     "what": "http-seed mapped to http_seed", "edits": [('                kwargs["httpseeds"] = val', '                kwargs["http_seed"] = val')]},
    {"name": "config-private-string", "file": "torrentfile/commands.py", "expect": "violated", "rule": "C20.1", "canary": True,
     "what": "'false' no longer converted: private = 'false' is truthy", "edits": [('        elif val.lower() == "false":\n            kwargs[key.lower()] = False\n\n', '')]},
    {"name": "config-announce-not-list", "file": "torrentfile/commands.py", "expect": "violated", "rule": "C20.1", "canary": True,
     "what": "tracker list not split", "edits": [('        if key.lower() in ["announce", "http-seed", "web-seed", "tracker"]:', '        if key.lower() in ["http-seed", "web-seed"]:')]},
    {"name": "config-piece-length-name", "file": "torrentfile/commands.py", "expect": "violated", "rule": "C20.1", "canary": True,
     "what": "piece-length stored under piece-length", "edits": [('            kwargs["piece_length"] = val', '            kwargs[key.lower()] = val')]},
    {"name": "cli-source-dest-renamed", "file": "torrentfile/cli.py", "expect": "violated", "rule": "C20", "canary": True,
     "what": "create --source dest renamed on the CLI side only", "edits": [('        dest="source",\n        metavar="<source>",\n        help="add source field to the metadata",', '        dest="src",\n        metavar="<source>",\n        help="add source field to the metadata",')]},
    {"name": "cli-webseed-not-list", "file": "torrentfile/cli.py", "expect": "violated", "rule": "C20.1", "canary": True,
     "what": "create --web-seed takes a single value", "edits": [('        dest="url_list",\n        metavar="<url>",\n        nargs="+",\n        help="list of web addresses where torrent data exists (GetRight)",', '        dest="url_list",\n        metavar="<url>",\n        help="list of web addresses where torrent data exists (GetRight)",')]},
    {"name": "param-renamed-in-creator", "file": "torrentfile/torrent.py", "expect": "violated", "rule": "C20.2", "canary": True,
     "what": "MetaFile keyword url_list renamed to web_seeds", "edits": [("        url_list=None,\n        content=None,", "        web_seeds=None,\n        content=None,"), ("            elif url_list and os.path.exists(url_list[-1]):\n                path = url_list[-1]\n                url_list = url_list[:-1]", "            elif web_seeds and os.path.exists(web_seeds[-1]):\n                path = web_seeds[-1]\n                web_seeds = web_seeds[:-1]"), ("        if url_list:\n            self.meta[\"url-list\"] = url_list\n            logger.debug(\"url list parameter found %s\", str(url_list))", "        if web_seeds:\n            self.meta[\"url-list\"] = web_seeds")]},
    {"name": "field-swapped-seeds", "file": "torrentfile/torrent.py", "expect": "violated", "rule": "C20.3", "canary": True,
     "what": "httpseeds stored under url-list", "edits": [('            self.meta["httpseeds"] = httpseeds', '            self.meta["url-list"] = httpseeds')]},
    {"name": "comment-at-top-level", "file": "torrentfile/torrent.py", "expect": "violated", "rule": "C20.3", "canary": True,
     "what": "comment stored at the top level", "edits": [('            self.meta["info"]["comment"] = comment', '            self.meta["comment"] = comment')]},
    {"name": "source-implies-private", "file": "torrentfile/torrent.py", "expect": "violated", "rule": "C20.3", "canary": True,
     "what": "source also sets private", "edits": [("        if private:\n            self.meta", "        if private or source:\n            self.meta")]},
    {"name": "recovery-arm-missing", "file": "torrentfile/torrent.py", "expect": "violated", "rule": "C20.4", "canary": True,
     "what": "no recovery for --http-seed", "edits": [("            elif httpseeds and os.path.exists(httpseeds[-1]):\n                path = httpseeds[-1]\n                httpseeds = httpseeds[:-1]\n", "")]},
    {"name": "recovery-keeps-path-in-list", "file": "torrentfile/torrent.py", "expect": "violated", "rule": "C20.4", "canary": True,
     "what": "swallowed path stays in the tracker list", "edits": [("                path = announce[-1]\n                announce = announce[:-1]\n", "                path = announce[-1]\n")]},
    {"name": "dispatch-before-config", "file": "torrentfile/commands.py", "expect": "violated", "rule": "C20.5", "canary": True,
     "what": "creator chosen before the configuration is read",
     "edits": [("    kwargs = vars(args)\n    if args.config:\n        path = find_config_file(args)\n        parse_config_file(path, kwargs)  # pragma: nocover\n", "    kwargs = vars(args)\n    use_v1 = args.meta_version == \"1\"\n    if args.config:\n        path = find_config_file(args)\n        parse_config_file(path, kwargs)  # pragma: nocover\n"), ('    if args.meta_version == "1":\n        torrent = TorrentFile(**kwargs)', '    if use_v1 and args.meta_version:\n        torrent = TorrentFile(**kwargs)')]},
    {"name": "benign-config-chain-reordered", "file": "torrentfile/commands.py", "expect": "clean",
     "what": "piece-length / meta-version arms swapped", "edits": [('        elif key.lower() == "piece-length":\n            kwargs["piece_length"] = val\n\n        elif key.lower() == "meta-version":\n            kwargs["meta_version"] = val\n', '        elif key.lower() == "meta-version":\n            kwargs["meta_version"] = val\n\n        elif key.lower() == "piece-length":\n            kwargs["piece_length"] = val\n')]},
    {"name": "benign-new-cli-only-option", "file": "torrentfile/cli.py", "expect": "clean",
     "what": "new CLI-only flag", "edits": [('    create_parser.add_argument(\n        "--align",', '    create_parser.add_argument(\n        "--dry-run",\n        action="store_true",\n        dest="dry_run",\n    )\n\n    create_parser.add_argument(\n        "--align",')]},
]
QUICK_CANARIES = True

CLAIM = {
    "text": "Decided for all documented options and all three routes as agreement of tables extracted from the source: flag -> keyword (argparse rows), configuration key -> keyword and value "
            "kind (trace of the parser's if/elif chain on each documented key), keyword -> metafile field (origin terms and control dependence in MetaFile.__init__), plus the recovery arms "
            "for list-valued flags and the kind-normalised version dispatch. Identical keywords with identical kinds reach one constructor, so the three routes build the same metafile. C20.7: one container object shared as default by several options together with an in-place modification of an option value; C20.8: an explicit --config-path wins over the default locations.",
    "note": "Trusted: argparse and configparser semantics. Values are compared by kind (list / bool / str), not by content; numeric interpretation of piece-length strings is C12. "
            "Options outside the documented list (progress, config, magnet) are CLI-only and not judged.",
    "technique": "extracted argparse table, CFG trace of the configuration parser per documented key, origin-term / control-dependence field table, comparison-kind check",
    "design_ref": "DESIGN.md section 4, C20; appendix D.2",
}
